/* pdh.c — packet-level decoder scenario runner.
 * Streams come from the real encoder (streams.c); this program drives the packet API
 * (headerin / synthesis_init / synthesis / trackonly / blockin / pcmout / read / restart / lapout / halfrate / clears)
 * in the order the script says, with optional packet mutations, and logs one ndjson event per call
 * together with the public bookkeeping fields of vorbis_dsp_state.
 *
 * Script:
 *   link <id> <ch> <rate> <q100> <nsamp> <seed> [sig=<k>] [managed=..] [bs0=<log2>]        (global; as in vfh)
 *   scn <name> [budget=<s>]
 *     pnew <d> <link>                         vorbis_info_init + vorbis_comment_init for decoder slot d (0..3)
 *     phdr <d> <which> [mut]                  vorbis_synthesis_headerin with packet <which>: 0 id, 1 comment, 2 setup, a<k> audio packet k, e empty
 *     pinit <d>                               vorbis_synthesis_init (+ vorbis_block_init on success)
 *     phr <d> <flag>                          vorbis_synthesis_halfrate
 *     psyn <d> <k> [mut] [gp=<v>|gp=keep] [no=<v>] [eos=<0|1>]   vorbis_synthesis on audio packet k, vorbis_synthesis_blockin if accepted
 *     ptrk <d> <k>                            vorbis_synthesis_trackonly + blockin
 *     pblk <d>                                vorbis_synthesis_blockin again with the current block (without a new synthesis)
 *     pout <d>                                vorbis_synthesis_pcmout; the chunk is compared with the clean decode of the packet that produced it
 *     pread <d> <n>                           vorbis_synthesis_read (n = -1: everything pending)
 *     prest <d> | plap <d>                    vorbis_synthesis_restart | vorbis_synthesis_lapout
 *     pclr <d> <order>                        clears, order over b(lock) d(sp) c(omment) i(nfo)
 *   end
 *   mut:  m=trunc:<bytes> | m=flip:<bit> | m=flips:<seed>:<count> | m=zero:<from> (zero the bytes from offset on) | m=hdr (use the id header bytes)
 */
#include "scn.h"
#include "codec_internal.h"
#define MAXLINK 64
#define ND 4
static link_t *g_links[MAXLINK];
typedef struct {
  vorbis_info vi; vorbis_comment vc; vorbis_dsp_state vd; vorbis_block vb;
  int s_vi,s_vc,s_vd,s_vb;     /* 0 never, 1 live, 2 cleared */
  link_t *L; int nh; int inited; int lastk; int lastclean; int hs;
  uint64_t lasthash; int lastn;      /* last chunk handed out by saud (synthetic streams) */
} dec_t;
static dec_t D[ND];

static unsigned char *mutate(const pkt_t *p,const char *mut,long *bytes,link_t *L){
  long n=p->bytes; unsigned char *b=malloc(n+16); memcpy(b,p->data,n); memset(b+n,0,16);
  if(mut&&!strncmp(mut,"m=trunc:",8)){ long k=atol(mut+8); if(k<n) n=k<0?0:k; }
  else if(mut&&!strncmp(mut,"m=flip:",7)){ long bit=atol(mut+7); if(n>0){ bit%= (n*8); b[bit>>3]^=(unsigned char)(1<<(bit&7)); } }
  else if(mut&&!strncmp(mut,"m=flips:",8)){ unsigned sd=0; int cnt=1; sscanf(mut+8,"%u:%d",&sd,&cnt); rng_t r; r.s=sd*977+13; for(int i=0;i<cnt&&n>0;i++){ long bit=rng_u32(&r)%(n*8); b[bit>>3]^=(unsigned char)(1<<(bit&7)); } }
  else if(mut&&!strncmp(mut,"m=zero:",7)){ long k=atol(mut+7); for(long i=k<0?0:k;i<n;i++) b[i]=0; }
  else if(mut&&!strcmp(mut,"m=hdr")){ free(b); n=L->pk[0].bytes; b=malloc(n+16); memcpy(b,L->pk[0].data,n); }
  *bytes=n; return b;
}
#ifdef XIPH_VORBIS_VERIF
extern int *vorbis_verif_fit, vorbis_verif_nfit, *vorbis_verif_ybuf, vorbis_verif_ylen;   /* probes in lib/floor1.c */
extern void (*vorbis_verif_spectrum)(int stage,int ch,const float *v,long n);
/* spectral vectors of the packet being decoded: [stage][channel][bin], kept only for small blocks and few channels */
#define SPEC_CH 4
#define SPEC_N 256
static float g_spec[3][SPEC_CH][SPEC_N]; static long g_specn[3][SPEC_CH]; static int g_spec_seen;
static void spec_probe(int stage,int ch,const float *v,long n){ if(stage<0||stage>2||ch<0||ch>=SPEC_CH||n>SPEC_N) return; memcpy(g_spec[stage][ch],v,n*sizeof(float)); g_specn[stage][ch]=n; g_spec_seen=1; }
static void ev_spec(const char *key,int stage,int nch){ char t[SPEC_N*14+8]; ev_arr_begin(key); for(int c=0;c<nch&&c<SPEC_CH;c++){ size_t o=0; o+=sprintf(t+o,"["); for(long i=0;i<g_specn[stage][c];i++){ float f=g_spec[stage][c][i]; long q=(long)f; o+=sprintf(t+o,"%s%ld",i?",":"",((float)q==f&&q>-100000&&q<100000)?q:999999); } sprintf(t+o,"]"); ev_arr_raw(t); } ev_arr_end(); }
/* a spectral vector as IEEE single-precision fields [sign, biased exponent, mantissa] per bin */
static void ev_spec_bits(const char *key,int stage,int nch){ char *t=malloc(SPEC_N*40+8); ev_arr_begin(key); for(int c=0;c<nch&&c<SPEC_CH;c++){ size_t o=0; o+=sprintf(t+o,"["); for(long i=0;i<g_specn[stage][c];i++){ uint32_t u; memcpy(&u,&g_spec[stage][c][i],4); o+=sprintf(t+o,"%s[%u,%u,%u]",i?",":"",u>>31,(u>>23)&255,u&0x7fffff); } sprintf(t+o,"]"); ev_arr_raw(t); } ev_arr_end(); free(t); }
/* expected: channels separated by '/', bins by ',', fields by '.'; a channel given as "x" is not compared (reported as [] in both lists) */
static void ev_spec_bits_expected(const char *key,const char *list,char *skip){ char *t=malloc(SPEC_N*40+8); ev_arr_begin(key); const char *q=list; int c=0; while(*q){ size_t o=0; o+=sprintf(t+o,"["); int first=1;
    if(*q=='x'){ if(c<SPEC_CH) skip[c]=1; q++; } else while(*q&&*q!='/'){ long a=strtol(q,(char**)&q,10); if(*q=='.')q++; long b=strtol(q,(char**)&q,10); if(*q=='.')q++; long m=strtol(q,(char**)&q,10); o+=sprintf(t+o,"%s[%ld,%ld,%ld]",first?"":",",a,b,m); first=0; if(*q==',')q++; }
    sprintf(t+o,"]"); ev_arr_raw(t); if(*q=='/')q++; c++; } ev_arr_end(); free(t); }
static void ev_spec_expected(const char *key,const char *list){ char t[SPEC_N*14+8]; ev_arr_begin(key); const char *q=list; while(*q){ size_t o=0; o+=sprintf(t+o,"["); int first=1; while(*q&&*q!='/'){ long v=strtol(q,(char**)&q,10); o+=sprintf(t+o,"%s%ld",first?"":",",v); first=0; if(*q==',')q++; } sprintf(t+o,"]"); ev_arr_raw(t); if(*q=='/')q++; } ev_arr_end(); }
#endif
static long g_packed_bits;
static unsigned char *pack_fields(char **tok,int from,int nt,long *bytes){
  oggpack_buffer o; oggpack_writeinit(&o); g_packed_bits=0;
  for(int i=from;i<nt;i++){ long v=0; int n=0; if(sscanf(tok[i],"%ld:%d",&v,&n)==2&&n>0&&n<=32){ oggpack_write(&o,(unsigned long)v,n); g_packed_bits+=n; } }
  *bytes=oggpack_bytes(&o); unsigned char *b=malloc(*bytes+16); memcpy(b,oggpack_get_buffer(&o),*bytes); memset(b+*bytes,0,16); oggpack_writeclear(&o); return b;
}
static const char *find_opt(char **tok,int nt,const char *key){ size_t kl=strlen(key); for(int i=0;i<nt;i++) if(!strncmp(tok[i],key,kl)) return tok[i]+kl; return NULL; }
static const char *find_mut(char **tok,int nt){ for(int i=0;i<nt;i++) if(!strncmp(tok[i],"m=",2)) return tok[i]; return NULL; }

static void ev_dst(dec_t *x){
  if(x->inited){ vorbis_dsp_state *v=&x->vd; ev_i("dlW",v->lW); ev_i("dW",v->W); ev_i("dcw",v->centerW); ev_i("dcur",v->pcm_current); ev_i("dret",v->pcm_returned); ev_i("dgp",v->granulepos);
    ev_i("dseq",v->sequence); ev_i("dsc",((private_state*)v->backend_state)->sample_count); ev_i("deof",v->eofflag); ev_i("avail",vorbis_synthesis_pcmout(v,NULL)); }
  ev_i("hsp",x->s_vi==1?vorbis_synthesis_halfrate_p(&x->vi):0);
  if(x->s_vi==1&&x->vi.codec_setup){ ev_i("abs0",vorbis_info_blocksize(&x->vi,0)); ev_i("abs1",vorbis_info_blocksize(&x->vi,1)); }   /* block sizes actually in force (a damaged header may have changed them) */
}

static void cmd(char **tok,int nt){
  const char *c=tok[0]; if(nt<2) return; int di=atoi(tok[1]); if(di<0||di>=ND) return; dec_t *x=&D[di];
  /* documented caller contract: objects are initialised before use; dsp/block calls only after a successful synthesis_init */
  if((!strcmp(c,"phdr")||!strcmp(c,"psyn")||!strcmp(c,"ptrk"))&&!x->L){ ev_begin("Skip"); ev_i("d",di); ev_s("cmd",c); ev_end(); return; }
  int need_init=(!strcmp(c,"saud")||!strcmp(c,"srand")||!strcmp(c,"psyn")||!strcmp(c,"ptrk")||!strcmp(c,"pblk")||!strcmp(c,"pout")||!strcmp(c,"pread")||!strcmp(c,"prest")||!strcmp(c,"plap"));
  if((need_init&&!x->inited)||((!strcmp(c,"phdr")||!strcmp(c,"shdr")||!strcmp(c,"scom")||!strcmp(c,"pinit")||!strcmp(c,"phr"))&&x->s_vi!=1)||(!strcmp(c,"pinit")&&x->inited)||((!strcmp(c,"pnew")||!strcmp(c,"snew"))&&x->s_vi==1)){
    ev_begin("Skip"); ev_i("d",di); ev_s("cmd",c); ev_end(); return; }
  if(!strcmp(c,"pnew")&&nt>=3){ int li=atoi(tok[2]); if(li<0||li>=MAXLINK||!g_links[li]) return; memset(x,0,sizeof *x); x->L=g_links[li]; vorbis_info_init(&x->vi); vorbis_comment_init(&x->vc); x->s_vi=x->s_vc=1; x->lastk=-1;
    ev_begin("PNew"); ev_i("d",di); ev_i("link",li); ev_i("bs0",x->L->bs0); ev_i("bs1",x->L->bs1); ev_i("ch",x->L->ch); ev_i("na",x->L->npk-3); ev_i("N",x->L->nref); ev_i("Nh",x->L->refh?x->L->nrefh:-1); ev_end(); }
  else if(!strcmp(c,"phdr")&&nt>=3){
    link_t *L=x->L; const char *w=tok[2]; pkt_t e0={0}; pkt_t *p=NULL; int which=-1;
    if(w[0]=='a'){ int k=atoi(w+1); if(k>=0&&k<L->npk-3){ p=&L->pk[3+k]; which=3; } } else if(w[0]=='e'){ e0.data=(unsigned char*)""; e0.bytes=0; p=&e0; which=4; } else { which=atoi(w); if(which>=0&&which<3) p=&L->pk[which]; }
    if(!p) return;
    long nb; const char *mut=find_mut(tok,nt); unsigned char *b=mutate(p,mut,&nb,L);
    ogg_packet op; memset(&op,0,sizeof op); op.packet=b; op.bytes=nb; op.b_o_s=(which==0); const char *bo=find_opt(tok,nt,"bos="); if(bo) op.b_o_s=atoi(bo); op.packetno=which<3?which:7;
    int ret=vorbis_synthesis_headerin(&x->vi,&x->vc,&op);
    if(ret==0&&!mut&&which==x->nh&&which<3) x->nh++;
    ev_begin("HeaderIn"); ev_i("d",di); ev_i("which",which); ev_i("mut",mut!=NULL); ev_i("ret",ret); ev_i("vch",x->vi.channels); ev_i("vrate",x->vi.rate); ev_i("vcs",x->vi.codec_setup!=NULL);
    ev_i("ncm",x->vc.comments); ev_i("ven",x->vc.vendor!=NULL);
    if(which==2&&find_opt(tok,nt,"dump")){ /* the (mutated) setup packet and the link's identification packet byte by byte, for the strict reader */
      ev_i("nhb",x->nh>=2?1:0); ev_arr_begin("idbytes"); for(long i=0;i<L->pk[0].bytes;i++) ev_arr_i(L->pk[0].data[i]); ev_arr_end();
      ev_arr_begin("setupbytes"); for(long i=0;i<nb&&i<20000;i++) ev_arr_i(b[i]); ev_arr_end(); }
    free(b);
    ev_dst(x); ev_end(); }
  else if(!strcmp(c,"pinit")){
    int ret=vorbis_synthesis_init(&x->vd,&x->vi); x->s_vd=ret==0?1:2; int rb=-1; if(ret==0){ rb=vorbis_block_init(&x->vd,&x->vb); x->s_vb=1; x->inited=1; x->lastk=-1; x->hs=vorbis_synthesis_halfrate_p(&x->vi); }
    ev_begin("SynthInit"); ev_i("d",di); ev_i("ret",ret); ev_i("rb",rb); ev_i("nh",x->nh); ev_dst(x); ev_end(); }
  else if(!strcmp(c,"phr")&&nt>=3){ int ret=vorbis_synthesis_halfrate(&x->vi,atoi(tok[2])); ev_begin("HalfRateP"); ev_i("d",di); ev_i("flag",atoi(tok[2])); ev_i("ret",ret); ev_i("inited",x->inited); ev_i("nh",x->nh); ev_dst(x); ev_end(); }
  else if((!strcmp(c,"psyn")||!strcmp(c,"ptrk"))&&nt>=3){
    link_t *L=x->L; int k=atoi(tok[2]); if(k<0||k>=L->npk-3) return; pkt_t *p=&L->pk[3+k]; int trk=c[1]=='t';
    long nb; const char *mut=find_mut(tok,nt); unsigned char *b=mutate(p,mut,&nb,L);
    ogg_packet op; memset(&op,0,sizeof op); op.packet=b; op.bytes=nb; op.packetno=p->no; op.granulepos=p->gp; op.e_o_s=p->eos;
    int gpf=0; const char *o; if((o=find_opt(tok,nt,"gp="))&&strcmp(o,"keep")){ op.granulepos=atoll(o); if(op.granulepos!=-1) gpf=1; } if(find_opt(tok,nt,"eos=")||find_opt(tok,nt,"no=")) gpf=1; if((o=find_opt(tok,nt,"no="))) op.packetno=atoll(o); if((o=find_opt(tok,nt,"eos="))) op.e_o_s=atoi(o);
    int rs=trk?vorbis_synthesis_trackonly(&x->vb,&op):vorbis_synthesis(&x->vb,&op); long used=oggpack_bits(&x->vb.opb); int W=x->vb.W; int rb=-9999;
    if(rs==0) rb=vorbis_synthesis_blockin(&x->vd,&x->vb);
    free(b);
    ev_begin(trk?"TrackOnly":"Synthesis"); ev_i("d",di); ev_i("k",k); ev_i("mut",mut!=NULL); ev_i("W",rs==0?W:p->W); ev_i("cW",p->W); ev_i("no",op.packetno); ev_i("gp",op.granulepos); ev_i("eos",op.e_o_s); ev_i("bytes",nb);
    ev_i("rs",rs); ev_i("used",used); ev_i("rb",rb); ev_i("gpf",gpf); ev_dst(x); ev_end();
    if(rs==0&&rb==0&&!trk){ x->lastk=k; x->lastclean=(mut==NULL); } }
  else if(!strcmp(c,"pblk")){ int rb=vorbis_synthesis_blockin(&x->vd,&x->vb); ev_begin("BlockinAgain"); ev_i("d",di); ev_i("rb",rb); ev_dst(x); ev_end(); }
  else if(!strcmp(c,"pout")){
    float **pcm=NULL; int n=vorbis_synthesis_pcmout(&x->vd,&pcm); link_t *L=x->L; int k=x->lastk; int hs=x->hs;
    /* compare with the clean decode of packet k: its samples start at pstart[k] (full-rate units) */
    int cmp=3; long cn=-1;
    if(n>0&&k>=1&&k<L->npk-3){
      float **ref=hs?L->refh:L->ref; long nr=hs?L->nrefh:L->nref; long st=hs?(L->pstart[k]+1)/2:L->pstart[k]; long en=hs?(L->pstart[k+1]+1)/2:L->pstart[k+1]; if(en>nr) en=nr; cn=en>st?en-st:0;
      if(ref&&st>=0){ long m=n<cn?n:cn; int eq=1; if(st+m>nr) eq=0; else for(int ch=0;ch<L->ch&&eq;ch++) if(m>0&&memcmp(ref[ch]+st,pcm[ch],m*sizeof(float))) eq=0;
        /* beyond the clean chunk (end-of-stream trim forgotten): the surplus must be what an untrimmed decode would give; not judged */
        if(eq&&n==cn) cmp=0; else if(eq&&n>cn) cmp=1; else if(eq&&n<cn) cmp=2; else cmp=3; } }
    ev_begin("PcmOut"); ev_i("d",di); ev_i("n",n); ev_i("k",k); ev_i("cn",cn); ev_i("cmp",cmp); ev_i("hs",hs); ev_dst(x); ev_end(); }
  else if(!strcmp(c,"pread")&&nt>=3){ int n=atoi(tok[2]); if(n<0) n=vorbis_synthesis_pcmout(&x->vd,NULL); int ret=vorbis_synthesis_read(&x->vd,n); ev_begin("ReadP"); ev_i("d",di); ev_i("n",n); ev_i("ret",ret); ev_dst(x); ev_end(); }
  else if(!strcmp(c,"prest")){ int ret=vorbis_synthesis_restart(&x->vd); x->lastk=-1; x->hs=vorbis_synthesis_halfrate_p(&x->vi); ev_begin("Restart"); ev_i("d",di); ev_i("ret",ret); ev_dst(x); ev_end(); }
  else if(!strcmp(c,"plap")){ float **pcm; int n=vorbis_synthesis_lapout(&x->vd,&pcm); ev_begin("LapOut"); ev_i("d",di); ev_i("n",n); ev_dst(x); ev_end(); }
  else if(!strcmp(c,"snew")&&nt>=5){ memset(x,0,sizeof *x); vorbis_info_init(&x->vi); vorbis_comment_init(&x->vc); x->s_vi=x->s_vc=1; x->lastk=-1; x->L=NULL;
    ev_begin("PNew"); ev_i("d",di); ev_i("link",-1); ev_i("bs0",atol(tok[2])); ev_i("bs1",atol(tok[3])); ev_i("ch",atoi(tok[4])); ev_i("na",0); ev_i("N",0); ev_i("Nh",0); ev_end(); }
  else if(!strcmp(c,"shdr")&&nt>=4){ int which=atoi(tok[2]); int ok=atoi(tok[3]); long nb; unsigned char *b=pack_fields(tok,4,nt,&nb);
    ogg_packet op; memset(&op,0,sizeof op); op.packet=b; op.bytes=nb; op.b_o_s=(which==0); op.packetno=which;
    int ret=vorbis_synthesis_headerin(&x->vi,&x->vc,&op); free(b); if(ret==0&&ok&&which==x->nh) x->nh++;
    ev_begin("HeaderIn"); ev_i("d",di); ev_i("which",which); ev_i("mut",!ok); ev_i("ret",ret); ev_i("vch",x->vi.channels); ev_i("vrate",x->vi.rate); ev_i("vcs",x->vi.codec_setup!=NULL); ev_i("ncm",x->vc.comments); ev_i("ven",x->vc.vendor!=NULL); ev_i("syn",1); ev_dst(x); ev_end(); }
  else if(!strcmp(c,"scom")){ vorbis_comment t; vorbis_comment_init(&t); ogg_packet op; memset(&op,0,sizeof op); int ro=vorbis_commentheader_out(&t,&op); int ret=-9999; if(ro==0){ ret=vorbis_synthesis_headerin(&x->vi,&x->vc,&op); ogg_packet_clear(&op); } vorbis_comment_clear(&t);
    if(ret==0&&x->nh==1) x->nh++;
    ev_begin("HeaderIn"); ev_i("d",di); ev_i("which",1); ev_i("mut",0); ev_i("ret",ret); ev_i("vch",x->vi.channels); ev_i("vrate",x->vi.rate); ev_i("vcs",x->vi.codec_setup!=NULL); ev_i("ncm",x->vc.comments); ev_i("ven",x->vc.vendor!=NULL); ev_i("syn",1); ev_dst(x); ev_end(); }
  else if((!strcmp(c,"saud")&&nt>=6)||(!strcmp(c,"srand")&&nt>=6)){
    int rnd=c[1]=='r'; int k=atoi(tok[2]); long nb; unsigned char *b; int W; long long gp; int eos=0; int nosil=0;
    if(rnd){ rng_t r; r.s=(uint64_t)atol(tok[3])*7919+1; nb=atol(tok[4]); if(nb<1)nb=1; b=malloc(nb+16); for(long i=0;i<nb;i++) b[i]=(unsigned char)rng_u32(&r); b[0]&=0xFE; memset(b+nb,0,16); W=0; gp=atoll(tok[5]); }
    else { W=atoi(tok[3]); gp=atoll(tok[4]); eos=atoi(tok[5]); nosil=(nt>6&&!strcmp(tok[6],"ns")); b=pack_fields(tok,6,nt,&nb); }
    ogg_packet op; memset(&op,0,sizeof op); op.packet=b; op.bytes=nb; op.packetno=3+k; op.granulepos=gp; op.e_o_s=eos;
    const char *fx=find_opt(tok,nt,"fx="), *yx=find_opt(tok,nt,"yx="), *rx=find_opt(tok,nt,"rx="), *cx=find_opt(tok,nt,"cx="), *px=find_opt(tok,nt,"px=");
    static int fitbuf[80], ybuf[8192]; int nfit=-1, ny=0;
#ifdef XIPH_VORBIS_VERIF
    if(fx||yx){ for(int i=0;i<8192;i++) ybuf[i]=-1; vorbis_verif_fit=fitbuf; vorbis_verif_nfit=80; vorbis_verif_ybuf=ybuf; vorbis_verif_ylen=8192; }
#endif
#ifdef XIPH_VORBIS_VERIF
    if(rx||cx||px){ g_spec_seen=0; memset(g_specn,0,sizeof g_specn); vorbis_verif_spectrum=spec_probe; }
#endif
    int rs=vorbis_synthesis(&x->vb,&op); long used=oggpack_bits(&x->vb.opb); int rW=x->vb.W; int rb=-9999; if(rs==0) rb=vorbis_synthesis_blockin(&x->vd,&x->vb); free(b);
#ifdef XIPH_VORBIS_VERIF
    if(fx||yx){ nfit=vorbis_verif_nfit; if(nfit>80) nfit=-1; ny=(x->s_vi==1&&x->vi.codec_setup)?(int)(vorbis_info_blocksize(&x->vi,rs==0?rW:W)/2):0; vorbis_verif_fit=0; vorbis_verif_ybuf=0; }
#endif
    ev_begin("Synthesis"); ev_i("d",di); ev_i("k",k); ev_i("mut",rnd); ev_i("W",rs==0?rW:W); ev_i("cW",rnd?(rs==0?rW:W):W); ev_i("no",op.packetno); ev_i("gp",op.granulepos); ev_i("eos",op.e_o_s); ev_i("bytes",nb);
    ev_i("rs",rs); ev_i("used",used); ev_i("rb",rb); ev_i("gpf",0); ev_i("syn",1); ev_i("xused",rnd?-1:g_packed_bits);
    if(fx&&nfit>=0){ ev_arr_begin("fit"); for(int i=0;i<nfit;i++) ev_arr_i(fitbuf[i]); ev_arr_end(); ev_arr_begin("xfit"); for(const char *q=fx;*q;){ ev_arr_i(strtol(q,(char**)&q,10)); if(*q==',')q++; } ev_arr_end(); }
#ifdef XIPH_VORBIS_VERIF
    if(rx||cx||px){ vorbis_verif_spectrum=0; if(g_spec_seen){ if(rx){ ev_spec("rv",0,x->vi.channels); ev_spec_expected("xrv",rx); } if(cx){ ev_spec("cv",1,x->vi.channels); ev_spec_expected("xcv",cx); }
        if(px){ char skip[SPEC_CH]={0}; /* expected first: it says which channels are not compared */
          { char *dup=strdup(px); int c=0; for(char *q=dup;*q;){ if(*q=='x'&&c<SPEC_CH) skip[c]=1; while(*q&&*q!='/')q++; if(*q=='/')q++; c++; } free(dup); }
          for(int c=0;c<SPEC_CH;c++) if(skip[c]) g_specn[2][c]=0;
          ev_spec_bits("pv",2,x->vi.channels); char sk2[SPEC_CH]={0}; ev_spec_bits_expected("xpv",px,sk2); } } }
#endif
    if(yx&&ny>0){ ev_arr_begin("yc"); for(int i=0;i<ny;i++) ev_arr_i(ybuf[i]); ev_arr_end(); ev_arr_begin("xyc"); for(const char *q=yx;*q;){ ev_arr_i(strtol(q,(char**)&q,10)); if(*q==',')q++; } ev_arr_end(); }
    ev_dst(x); ev_end();
    if(rs==0&&rb==0){ x->lastk=k; }
    /* hand the samples out: a silent spectrum must give exact silence */
    float **pcm=NULL; int n=vorbis_synthesis_pcmout(&x->vd,&pcm); int zero=1; if(n>0) for(int ch=0;ch<x->vi.channels&&zero;ch++) for(int i=0;i<n;i++) if(pcm[ch][i]!=0.0f){ zero=0; break; }
    { uint64_t h=1469598103934665603ULL; if(n>0) for(int ch=0;ch<x->vi.channels;ch++){ const unsigned char *q=(const unsigned char*)pcm[ch]; for(size_t i=0;i<n*sizeof(float);i++){ h^=q[i]; h*=1099511628211ULL; } } x->lasthash=h; x->lastn=n; }
    ev_begin("PcmOut"); ev_i("d",di); ev_i("n",n); ev_i("k",x->lastk); ev_i("cn",rnd?-1:n); ev_i("cmp",(rnd||nosil)?0:(zero?0:3)); ev_i("hs",x->hs); ev_i("syn",1); ev_dst(x); ev_end();
    if(n>0){ int rr=vorbis_synthesis_read(&x->vd,n); ev_begin("ReadP"); ev_i("d",di); ev_i("n",n); ev_i("ret",rr); ev_dst(x); ev_end(); }
  }
  else if(!strcmp(c,"stwin")&&nt>=3){ int d2=atoi(tok[2]); if(d2<0||d2>=ND) return; dec_t *y=&D[d2];
    ev_begin("Twin"); ev_i("d",di); ev_i("d2",d2); ev_i("n1",x->lastn); ev_i("n2",y->lastn); ev_i("eq",x->lastn==y->lastn&&x->lasthash==y->lasthash); ev_end(); }
  else if(!strcmp(c,"pclr")&&nt>=3){
    for(const char *o=tok[2];*o;o++){
      if(*o=='b'){ int r=vorbis_block_clear(&x->vb); x->s_vb=2; x->inited=0; ev_begin("BlockClear"); ev_i("d",di); ev_i("ret",r); ev_end(); }
      else if(*o=='d'){ vorbis_dsp_clear(&x->vd); x->s_vd=2; x->inited=0; ev_begin("DspClear"); ev_i("d",di); ev_end(); }
      else if(*o=='c'){ vorbis_comment_clear(&x->vc); x->s_vc=2; ev_begin("CommentClear"); ev_i("d",di); ev_end(); }
      else if(*o=='i'){ vorbis_info_clear(&x->vi); x->s_vi=2; x->inited=0; x->nh=0; ev_begin("InfoClear"); ev_i("d",di); ev_i("vch",x->vi.channels); ev_i("vrate",x->vi.rate); ev_i("vcs",x->vi.codec_setup!=NULL); ev_end(); }
    } }
}
static int global_line(char **tok,int nt){
  if(!strcmp(tok[0],"link")&&nt>=7){
    int id=atoi(tok[1]); int sig=0,managed=0; long mx=-1,nm=-1,mn=-1; extern int g_bs0_patch,g_trim_k,g_trim_p; g_bs0_patch=0; g_trim_k=0; g_trim_p=0;
    for(int k=7;k<nt;k++){ if(!strncmp(tok[k],"sig=",4)) sig=atoi(tok[k]+4); if(!strncmp(tok[k],"bs0=",4)) g_bs0_patch=atoi(tok[k]+4); if(!strncmp(tok[k],"managed=",8)){ managed=1; sscanf(tok[k]+8,"%ld,%ld,%ld",&mx,&nm,&mn); } }
    if(id>=0&&id<MAXLINK){ if(g_links[id]) link_free(g_links[id]); g_links[id]=link_make(id,atoi(tok[2]),atol(tok[3]),atoi(tok[4]),atol(tok[5]),(unsigned)atol(tok[6]),managed,mx,nm,mn,sig);
      if(!g_links[id]){ ev_begin("LinkFail"); ev_i("id",id); ev_end(); } }
    return 1; }
  return 0;
}
static void scn_begin(const char *name){ (void)name; memset(D,0,sizeof D); }
static void scn_end(const char *name){ (void)name; int left=0; for(int d=0;d<ND;d++){ dec_t *x=&D[d]; if(x->s_vi==1||x->s_vd==1||x->s_vb==1||x->s_vc==1) left++; } ev_i("objleft",left); }
int main(int argc,char **argv){ scn_ops ops={global_line,scn_begin,cmd,scn_end}; return scn_main(argc,argv,&ops); }

/* vfh.c — vorbisfile scenario runner.
 * Reads a line-oriented script, builds streams with the real encoder + libogg,
 * runs each scenario in a forked child against the library built from the
 * current /repo tree and writes one ndjson event per API call.
 *
 * Script:
 *   link <id> <ch> <rate> <q100> <nsamp> <seed> [sig=<k>] [managed=<max>,<nom>,<min>] [bs0=<log2>] [trim=<k>,<p>]
 *   file <id> <linkid>[:opt...] ...      opts: s=<serial> ppp=a,b,c pad=<pkt>=<bytes> g=<gpoff> mux=<0|1|2> hs=<0|1> noeos=1
 *   dmg <fileid> <kind> <a> <b>          page-level damage (see apply_damage)
 *   scn <name> [budget=<sec>]
 *     use <file>                         emit Stream event
 *     open <h> <file> <seek|stream|notell|test> [init=<n>]
 *     rf <h> <len> | ri <h> <len> <word> <sgned> <be> | rfn <h> <len> <count> | rin <h> <len> <word> <sgned> <be> <count>  (repeat the read count times / until EOF if count<0)
 *     ps|psp|rs|psl|pspl|rsl <h> <target>      target: integer or symbolic (see resolve)
 *     ts|tsp|tsl|tspl <h> <link> <rel> <q4>    time = sum_{i<link} N_i/rate_i + (rel+q4/4)/rate_link ; link<0 => raw seconds*1000 in rel
 *     hr <h> <flag> | xl <h1> <h2> | q <h> | tell <h> | clear <h>
 *     fault <h> <kind> <at> <persist> | faultoff <h> | sr <h> <mode> <arg>
 *     pages <file>  (Pages event: the page table)  |  sklog <0|1>  (seek events carry the offsets of the callback seeks they issued)
 *   end
 */
#include "common.h"
#include <signal.h>
#include <sys/wait.h>
#include <sys/time.h>
#include <sys/resource.h>
#include <math.h>
#include <ctype.h>
#include <fcntl.h>

#ifdef __has_feature
# if __has_feature(address_sanitizer)
#  define HAVE_ASAN 1
# endif
#endif
#ifdef HAVE_ASAN
#include <sanitizer/allocator_interface.h>
static size_t live_bytes(void){ return __sanitizer_get_current_allocated_bytes(); }
#include <sanitizer/lsan_interface.h>
static void leak_report(void){ if(getenv("VERIF_LSAN")) __lsan_do_recoverable_leak_check(); }
#else
static size_t live_bytes(void){ return 0; }
static void leak_report(void){}
#endif

#define MAXLINK 64
#define MAXFILE 512
#define MAXH 4
static link_t *g_links[MAXLINK];
static file_t *g_files[MAXFILE];

typedef struct {
  file_t *F; long pos; int closes;
  long nread,nseek,ntell;
  int sr_mode; long sr_arg; rng_t sr_rng;
  int f_kind; long f_at; int f_persist; int f_on; int f_fired;
  int noseek, notell;
  int cblog;
  long skv[400]; int nskv;       /* absolute offsets of the seeks issued during the current API call (first 400) */
} src_t;

/* what the lapped region in front of a handle must hold if it is the window-weighted cross-fade the property describes
   (set by a lapping call that returned 0; position-indexed, so it stays valid until the next lapping call of the handle) */
typedef struct { int active; long at; int n; int hs; int ch; float **exp; } lapx_t;
typedef struct { OggVorbis_File vf; src_t src; int live; int opened; file_t *F; long long delivered; lapx_t lx; } hnd_t;
static hnd_t H[MAXH];

static void lapx_clear(lapx_t *x){ if(x->exp){ for(int c=0;c<x->ch;c++) free(x->exp[c]); free(x->exp); } memset(x,0,sizeof *x); }
/* Expectation of a lapping call, straight from the property statement: sample i (0 <= i < n, n = the smaller of the two half short
   blocks in returned samples) of the audio at the new position `t1` (link ln of F2) cross-faded with sample i of the audio that would
   have been read next at the old position `t0` (link lo of F1), weights w[i]^2 and 1-w[i]^2 with w the rising half of the Vorbis
   window of length 2n (Vorbis I, 4.3.1: sin(pi/2 sin^2((i+1/2)/2n pi))); channels the old link lacks fade in from silence.
   Logged: lbn, lbfrom, lblo, lbat - the model decides whether the expectation applies (old audio present, new audio decoded) and
   whether these are the positions it has itself.  Returns n, or 0 when the reference audio is not at hand. */
static int lapx_set(lapx_t *x,file_t *F1,int lo,long t0,int hs1,file_t *F2,int ln,long t1,int hs2){
  lapx_clear(x);
  if(!F1||!F2||t0<0||t1<0||lo<0||lo>=F1->nlinks||ln<0||ln>=F2->nlinks) return 0;
  link_t *L1=F1->links[lo],*L2=F2->links[ln];
  float **r1=hs1?L1->refh:L1->ref, **r2=hs2?L2->refh:L2->ref; long nr1=hs1?L1->nrefh:L1->nref, nr2=hs2?L2->nrefh:L2->nref;
  if(!r1||!r2) return 0;
  long p0=t0-F1->start[lo], p1=t1-F2->start[ln];
  if(p0<0||p1<0||(hs1&&(p0&1))||(hs2&&(p1&1))) return 0;
  long q0=hs1?p0>>1:p0, q1=hs2?p1>>1:p1;
  int n1=(int)(L1->bs0>>(1+hs1)), n2=(int)(L2->bs0>>(1+hs2)), n=n1<n2?n1:n2;
  if(n<=0||nr1<n||nr2<n||q0>nr1-n||q1>nr2-n) return 0;   /* (positions on damaged files can be anywhere in 64 bits) */
  x->exp=calloc(L2->ch,sizeof(float*)); x->ch=L2->ch; x->n=n; x->hs=hs2; x->at=t1;
  for(int c=0;c<L2->ch;c++){
    x->exp[c]=malloc(n*sizeof(float));
    for(int i=0;i<n;i++){
      float w=(float)sin(M_PI/2.*sin((i+.5)/(2.*n)*M_PI)*sin((i+.5)/(2.*n)*M_PI));
      float wd=w*w, ws=1.f-wd;
      float d=r2[c][q1+i], s=(c<L1->ch)?r1[c][q0+i]:0.f;
      x->exp[c][i]=d*wd+s*ws;
    }
  }
  x->active=1;
  ev_i("lbn",n); ev_i("lbfrom",t0); ev_i("lblo",lo); ev_i("lbat",t1); ev_i("lbln",ln);
  return n;
}
/* compare a returned chunk (position ta, n samples per channel) with the expectation where the two overlap: lbk samples compared, lbbad of them off */
static void lapx_compare(lapx_t *x,int hs,long ta,float **pcm,int ch,long n){
  if(!x->active||hs!=x->hs||ch!=x->ch||!pcm) return;
  long k=0,bad=0;
  for(long i=0;i<n;i++){
    long p=ta+(i<<hs)-x->at; if(p<0||(hs&&(p&1))) continue; long idx=p>>hs; if(idx>=x->n) break;
    k++; int off=0;
    for(int c=0;c<ch;c++){ float e=x->exp[c][idx], g=pcm[c][i]; double tol=4e-6*(fabs(e)+fabs(g))+1e-9; if(!(fabs((double)e-g)<=tol)) off=1; }
    bad+=off;
  }
  if(k>0){ ev_i("lbk",k); ev_i("lbbad",bad); }
}
static int g_cblog=0;
static int g_sklog=0;
static int g_tw=0;

/* ---------------- callbacks ---------------- */
static size_t cb_read(void *ptr,size_t size,size_t nmemb,void *ds){
  src_t *s=ds; s->nread++;
  long want=(long)(size*nmemb); long avail=s->F->len-s->pos; if(avail<0)avail=0;
  long n=want<avail?want:avail;
  int faulty = s->f_on && (s->f_kind>=1 && s->f_kind<=3) && (s->f_persist ? s->nread>=s->f_at : s->nread==s->f_at);
  if(faulty){
    s->f_fired++;
    if(s->f_kind==1){ errno=EIO; if(s->cblog){ev_begin("CbRead");ev_i("want",want);ev_i("got",0);ev_i("fault",1);ev_end();} return 0; }
    if(s->f_kind==2){ errno=0; if(s->cblog){ev_begin("CbRead");ev_i("want",want);ev_i("got",0);ev_i("fault",2);ev_end();} return 0; }
    if(s->f_kind==3){ if(n>1)n=1; }
  } else {
    switch(s->sr_mode){
      case 1: if(n>1)n=1; break;
      case 2: if(n>1) n=1+rng_u32(&s->sr_rng)%n; break;
      case 3: if(n>s->sr_arg && s->sr_arg>0) n=s->sr_arg; break;
      case 4: { /* stop at next page boundary + arg */
        long b=-1; for(int i=0;i<s->F->npages;i++){ long o=s->F->pages[i].off; if(o+s->sr_arg>s->pos){ b=o+s->sr_arg; break; } }
        if(b>s->pos && b-s->pos<n) n=b-s->pos; if(n<1&&avail>0)n=1; } break;
      case 5: { /* stop inside page header: boundary + 27 + arg */
        long b=-1; for(int i=0;i<s->F->npages;i++){ long o=s->F->pages[i].off+27+s->sr_arg; if(o>s->pos){ b=o; break; } }
        if(b>s->pos && b-s->pos<n) n=b-s->pos; if(n<1&&avail>0)n=1; } break;
      default: break;
    }
  }
  if(n>0) memcpy(ptr,s->F->bytes+s->pos,n);
  s->pos+=n; errno=0;
  if(s->cblog){ev_begin("CbRead");ev_i("want",want);ev_i("got",n);ev_i("pos",s->pos);ev_end();}
  return (size_t)n;
}
static int cb_seek(void *ds,ogg_int64_t off,int whence){
  src_t *s=ds; s->nseek++;
  int faulty = s->f_on && s->f_kind==4 && (s->f_persist ? s->nseek>=s->f_at : s->nseek==s->f_at);
  if(faulty){ s->f_fired++; if(s->cblog){ev_begin("CbSeek");ev_i("off",off);ev_i("wh",whence);ev_i("ret",-1);ev_end();} return -1; }
  long np = whence==SEEK_SET? (long)off : whence==SEEK_CUR? s->pos+(long)off : s->F->len+(long)off;
  if(np<0) { if(s->cblog){ev_begin("CbSeek");ev_i("off",off);ev_i("wh",whence);ev_i("ret",-1);ev_end();} return -1; }
  s->pos=np; if(s->nskv<400) s->skv[s->nskv++]=np;
  if(s->cblog){ev_begin("CbSeek");ev_i("off",off);ev_i("wh",whence);ev_i("ret",0);ev_i("pos",s->pos);ev_end();}
  return 0;
}
static long cb_tell(void *ds){
  src_t *s=ds; s->ntell++;
  int faulty = s->f_on && s->f_kind==5 && (s->f_persist ? s->ntell>=s->f_at : s->ntell==s->f_at);
  if(faulty){ s->f_fired++; if(s->cblog){ev_begin("CbTell");ev_i("ret",-1);ev_end();} return -1; }
  if(s->cblog){ev_begin("CbTell");ev_i("ret",s->pos);ev_end();}
  return s->pos;
}
static int cb_close(void *ds){ src_t *s=ds; s->closes++; if(s->cblog){ev_begin("CbClose");ev_end();} return 0; }

/* ---------------- projection of a handle ---------------- */
static int is_zero(const void *p,size_t n){ const unsigned char *b=p; for(size_t i=0;i<n;i++) if(b[i]) return 0; return 1; }
static long cb0[MAXH][3];
static void call_begin(int h){ H[h].src.nskv=0; cb0[h][0]=H[h].src.nread; cb0[h][1]=H[h].src.nseek; cb0[h][2]=H[h].src.ntell; }
static void ev_state(int h){
  hnd_t *x=&H[h]; OggVorbis_File *vf=&x->vf;
  ev_i("h",h);
  if(g_tw){ ev_i("tw",1); g_tw=0; }      /* this call repeats, on a twin handle with another read schedule, the call logged just before */
  ev_i("rs",vf->ready_state); ev_i("sk",vf->seekable); ev_i("nl",vf->links); ev_i("cur",vf->current_link);
  ev_i("tell",vf->pcm_offset); ev_i("off",vf->offset);
  /* the decoder's sample bookkeeping, for the model of the decode path (meaningful while a decoder exists) */
  if(vf->ready_state==4){ ev_i("dr",vf->vd.pcm_returned); ev_i("dc",vf->vd.pcm_current); ev_i("dw",vf->vd.centerW); ev_i("dg",vf->vd.granulepos>2000000000LL?2000000000LL:vf->vd.granulepos); }
  ev_i("tella", vf->seekable? (long long)vf->pcm_offset : x->delivered);
  ev_i("hs", (vf->vi && vf->vi->codec_setup)? vorbis_synthesis_halfrate_p(vf->vi) : -1);
  ev_i("cl",x->src.closes); ev_b("z",is_zero(vf,sizeof *vf));
  ev_i("nrd",x->src.nread-cb0[h][0]); ev_i("nsk",x->src.nseek-cb0[h][1]); ev_i("ntl",x->src.ntell-cb0[h][2]);
  ev_i("ff",x->src.f_fired);
}

/* ---------------- symbolic targets ---------------- */
/* p:<link>:<i>:<d>  absolute pcm position of the i-th page end of link (i<0: link start) + d
   k:<link>:<i>:<d>  packet boundary i of link + d
   e:<d>             total + d
   f:<link>:<num>:<den>:<d>   start(link)+N*num/den + d
   o:<link>:<i>:<d>  byte offset of i-th page (all serials) inside link + d ;  oe:<d> file length + d ; od:<link>:<d> data offset + d
   plain integer */
static long resolve(file_t *F,const char *t){
  long a=0,b=0,c=0,d=0;
  if(!strncmp(t,"p:",2)){ sscanf(t+2,"%ld:%ld:%ld",&a,&b,&c); if(a<0)a=0; if(a>=F->nlinks)a=F->nlinks-1;
    long last=F->start[a]; long cnt=0; if(b<0) return F->start[a]+c;
    for(int j=0;j<F->npages;j++){ page_t *p=&F->pages[j]; if(p->link!=a||p->gp<0||p->off<F->dataoff[a]) continue; long q=(long)(p->gp-F->gpoff[a]); if(q<0)q=0; if(q>F->links[a]->nref)q=F->links[a]->nref; last=F->start[a]+q; if(cnt==b) return last+c; cnt++; }
    return last+c; }
  if(!strncmp(t,"k:",2)){ sscanf(t+2,"%ld:%ld:%ld",&a,&b,&c); if(a<0)a=0; if(a>=F->nlinks)a=F->nlinks-1; link_t *L=F->links[a]; int na=L->npk-3; if(b<0)b=0; if(b>na)b=na; long q=L->pstart[b]; if(q>L->nref)q=L->nref; return F->start[a]+q+c; }
  if(!strncmp(t,"e:",2)){ sscanf(t+2,"%ld",&a); return F->start[F->nlinks]+a; }
  if(!strncmp(t,"f:",2)){ sscanf(t+2,"%ld:%ld:%ld:%ld",&a,&b,&c,&d); if(a<0)a=0; if(a>=F->nlinks)a=F->nlinks-1; if(c<=0)c=1; return F->start[a]+(long)((double)F->links[a]->nref*b/c)+d; }
  if(!strncmp(t,"oe:",3)){ sscanf(t+3,"%ld",&a); return F->len+a; }
  if(!strncmp(t,"od:",3)){ sscanf(t+3,"%ld:%ld",&a,&b); if(a<0)a=0; if(a>=F->nlinks)a=F->nlinks-1; return F->dataoff[a]+b; }
  if(!strncmp(t,"o:",2)){ sscanf(t+2,"%ld:%ld:%ld",&a,&b,&c); if(a<0)a=0; if(a>=F->nlinks)a=F->nlinks-1; long cnt=0,last=F->lbeg[a];
    for(int j=0;j<F->npages;j++){ page_t *p=&F->pages[j]; if(p->off<F->lbeg[a]||p->off>=F->lend[a]) continue; last=p->off; if(cnt==b) return last+c; cnt++; }
    return last+c; }
  return atol(t);
}

/* ---------------- API call wrappers ---------------- */
static ov_callbacks mkcb(src_t *s){ ov_callbacks c; c.read_func=cb_read; c.seek_func=s->noseek?NULL:cb_seek; c.tell_func=(s->noseek||s->notell)?NULL:cb_tell; c.close_func=cb_close; return c; }

static void ev_linktable(int h){
  OggVorbis_File *vf=&H[h].vf;
  long n=ov_streams(vf);
  ev_i("streams",n); ev_i("seekable",ov_seekable(vf)); ev_i("ptot",ov_pcm_total(vf,-1)); ev_i("rtot",ov_raw_total(vf,-1));
  ev_arr_begin("lt");
  for(long i=0;i<n && i<64;i++){
    char t[256]; vorbis_info *vi=ov_info(vf,(int)i); vorbis_comment *vc=ov_comment(vf,(int)i);
    int cid=-1; if(vc){ char *v=vorbis_comment_query(vc,"TITLE",0); if(v&&!strncmp(v,"link",4)) cid=atoi(v+4); }
    snprintf(t,sizeof t,"{\"serial\":%ld,\"ch\":%d,\"rate\":%ld,\"N\":%lld,\"raw\":%lld,\"cid\":%d,\"nc\":%d}",
      ov_serialnumber(vf,(int)i), vi?vi->channels:-1, vi?vi->rate:-1, (long long)clamp31(ov_pcm_total(vf,(int)i)), (long long)clamp31(ov_raw_total(vf,(int)i)), cid, vc?vc->comments:-1);
    ev_arr_raw(t);
  }
  ev_arr_end();
}

static void do_open(int h,file_t *F,const char *mode,long init){
  hnd_t *x=&H[h]; src_t keep=x->src;
  memset(&x->src,0,sizeof x->src); x->src.F=F; x->src.cblog=g_cblog;
  x->src.sr_mode=keep.sr_mode; x->src.sr_arg=keep.sr_arg; x->src.sr_rng=keep.sr_rng;
  x->src.f_kind=keep.f_kind; x->src.f_at=keep.f_at; x->src.f_persist=keep.f_persist; x->src.f_on=keep.f_on;
  x->F=F; x->delivered=0; lapx_clear(&x->lx);
  if(!strcmp(mode,"stream")) x->src.noseek=1;
  if(!strcmp(mode,"notell")) x->src.notell=1;
  call_begin(h);
  int ret;
  if(init>F->len) init=F->len;
  x->src.pos=init>0?init:0;
  if(!strcmp(mode,"test")){
    ret=ov_test_callbacks(&x->src,&x->vf,init>0?(char*)F->bytes:NULL,init>0?init:0,mkcb(&x->src));
    if(ret==0) ret=ov_test_open(&x->vf);
  } else ret=ov_open_callbacks(&x->src,&x->vf,init>0?(char*)F->bytes:NULL,init>0?init:0,mkcb(&x->src));
  x->opened=(ret==0); x->live=1;
  ev_begin("Open"); ev_i("f",F->id); ev_s("mode",mode); ev_i("init",init); ev_i("ret",ret); ev_state(h);
  if(ret==0) ev_linktable(h);
  if(g_sklog){ char t[200]; ev_arr_begin("probes"); for(int k=0;k<x->src.nskv;k++){ snprintf(t,sizeof t,"%ld",x->src.skv[k]); ev_arr_raw(t); } ev_arr_end();
    /* the link table as the library built it (public fields of OggVorbis_File) */
    ev_arr_begin("tab"); if(ret==0&&x->vf.seekable&&x->vf.offsets&&x->vf.dataoffsets&&x->vf.pcmlengths&&x->vf.serialnos) for(int i=0;i<x->vf.links&&i<64;i++){
      snprintf(t,sizeof t,"{\"off\":%lld,\"ser\":%ld,\"doff\":%lld,\"first\":%lld,\"len\":%lld}",(long long)x->vf.offsets[i],x->vf.serialnos[i],(long long)x->vf.dataoffsets[i],(long long)clamp31(x->vf.pcmlengths[2*i]),(long long)clamp31(x->vf.pcmlengths[2*i+1])); ev_arr_raw(t); }
    ev_arr_end(); }
  ev_end();
}

static long do_readf(int h,long len){
  hnd_t *x=&H[h]; OggVorbis_File *vf=&x->vf; float **pcm=NULL; int bs=-7;
  long t0=vf->pcm_offset; int hs=0;
  call_begin(h);
  long n=ov_read_float(vf,&pcm,(int)len,&bs);
  ev_begin("ReadF"); ev_i("len",len); ev_i("ret",n); ev_i("bs",bs); ev_i("t0",t0);
  if(n>0 && vf->vi && vf->vi->codec_setup) hs=vorbis_synthesis_halfrate_p(vf->vi);
  if(n>0 && x->F && pcm){
    /* position at which the returned chunk actually lives: t1-n<<hs (vorbisfile updates pcm_offset while fetching) */
    long ta=vf->pcm_offset-((long)n<<hs);
    /* a non-seekable handle has no file-wide position: its position is the number of samples delivered so far */
    if(!vf->seekable) ta=x->delivered;
    x->delivered+=(long long)n<<hs;
    vorbis_info *vi=ov_info(vf,-1); int ch=vi?vi->channels:0;
    long id=-1, mf=n;
    if(ident_at(x->F,hs,ta,pcm,ch,n)){ id=ta; mf=0; }
    else { id=ident_search(x->F,hs,pcm,ch,n); mf=ident_matchfrom(x->F,hs,ta,pcm,ch,n); }
    ev_i("ta",ta); ev_i("id",id); ev_i("mf",mf); ev_i("ch",ch);
    lapx_compare(&x->lx,hs,ta,pcm,ch,n);
  }
  ev_state(h); ev_end();
  return n;
}

/* reference quantisation used only to *locate* integer reads; the conversion rule itself is decided in PcmPack.tla on sampled values */
static int qref(float f,int word,int sgned){
  double v=(double)f*(word==1?128.0:32768.0); long r=lrint(v);
  long lo=word==1?-128:-32768, hi=word==1?127:32767;
  if(!(v==v)) r=lo; if(v>=2147483648.0||v<-2147483648.0) r=lo; /* hardware behaviour is not assumed: only used for locating */
  if(r>hi)r=hi; if(r<lo)r=lo; if(!sgned) r+= (word==1?128:32768);
  return (int)r;
}
static void f32parts(float f,int *s,int *e,int *m){ uint32_t u; memcpy(&u,&f,4); *s=u>>31; *e=(u>>23)&255; *m=u&0x7fffff; }

static void halve_filter(float **pcm,long ch,long n,void *arg){ (void)arg; for(long c=0;c<ch;c++) for(long i=0;i<n;i++) pcm[c][i]*=0.5f; }
static long do_readi(int h,long len,int word,int sgned,int be,int gain){
  hnd_t *x=&H[h]; OggVorbis_File *vf=&x->vf; int bs=-7;
  static unsigned char buf[1<<20]; static unsigned char guard[64];
  if(len>(long)sizeof(buf)-64) len=sizeof(buf)-64;
  long gl = len>0?len:0;
  memset(buf,0xA5,gl+64);
  long t0=vf->pcm_offset; int hs=0;
  call_begin(h);
  long n=gain?ov_read_filter(vf,(char*)buf,(int)len,be,word,sgned,&bs,halve_filter,NULL):ov_read(vf,(char*)buf,(int)len,be,word,sgned,&bs);
  memset(guard,0xA5,64);
  ev_begin("ReadI"); ev_i("gain",gain); ev_i("len",len); ev_i("word",word); ev_i("sg",sgned); ev_i("be",be); ev_i("ret",n); ev_i("bs",bs); ev_i("t0",t0);
  ev_b("guard", memcmp(buf+(n>0?n:0),guard,64)==0 && (n>0 || is_zero(guard,0) ));
  /* untouched on error / eof? */
  { int untouched=1; if(n<=0) for(long i=0;i<gl;i++) if(buf[i]!=0xA5){untouched=0;break;} ev_b("untouched",untouched); }
  if(n>0 && vf->vi && vf->vi->codec_setup) hs=vorbis_synthesis_halfrate_p(vf->vi);
  if(n>0 && x->F){
    vorbis_info *vi=ov_info(vf,-1); int ch=vi?vi->channels:0; int w=(word==1)?1:2;
    long frames = ch>0? n/(w*ch) : 0;
    long ta=vf->pcm_offset-(frames<<hs);
    if(!vf->seekable) ta=x->delivered;
    x->delivered+=(long long)frames<<hs;
    ev_i("ch",ch); ev_i("frames",frames); ev_i("ta",ta);
    /* locate: compare with quantised reference at ta */
    int ok=0; file_t *F=x->F; int smp_done=0;
    if(ta>=0 && ta<F->start[F->nlinks]){
      int l=file_link_of_pos(F,ta); link_t *L=F->links[l]; float **ref=hs?L->refh:L->ref; long nr=hs?L->nrefh:L->nref; long p=ta-F->start[l]; long q=hs?p>>1:p;
      if(ref && ch==L->ch && q+frames<=nr && !(hs&&(p&1))){
        ok=1;
        for(long j=0;j<frames&&ok;j++) for(int c=0;c<ch;c++){
          int v=qref(gain?ref[c][q+j]*0.5f:ref[c][q+j],w,sgned); const unsigned char *b=buf+(j*ch+c)*w; int got;
          if(w==1) got=sgned?(signed char)b[0]:b[0];
          else { int u=be?(b[0]<<8|b[1]):(b[1]<<8|b[0]); got=sgned?(short)u:u; }
          if(got!=v){ ok=0; break; }
        }
        /* samples for PcmPack.tla: first, last and two interior frames, all channels up to 4 */
        ev_arr_begin("smp");
        long idx[4]={0,frames-1,frames/2,frames/3}; int nidx=frames>=4?4:(int)frames;
        for(int k=0;k<nidx;k++){ long j=idx[k]; for(int c=0;c<ch&&c<4;c++){
          int s,e,m; f32parts(gain?ref[c][q+j]*0.5f:ref[c][q+j],&s,&e,&m); const unsigned char *b=buf+(j*ch+c)*w; char t[160];
          snprintf(t,sizeof t,"{\"j\":%ld,\"c\":%d,\"s\":%d,\"ex\":%d,\"m\":%d,\"b0\":%d,\"b1\":%d}",j,c,s,e,m,b[0],w==2?b[1]:-1); ev_arr_raw(t); } }
        ev_arr_end(); smp_done=1;
      }
    }
    if(!smp_done){ ev_arr_begin("smp"); ev_arr_end(); }
    ev_i("id", ok?ta:-1); ev_i("mf", ok?0:frames);
  }
  ev_state(h); ev_end();
  return n;
}

/* ---- integer read with TLC-chosen float values injected through ov_read_filter ---- */
static uint32_t inj_vals[4096]; static int inj_n; static long inj_seen_samples; static int inj_seen_ch;
static void inj_filter(float **pcm,long channels,long samples,void *param){
  (void)param; inj_seen_samples=samples; inj_seen_ch=(int)channels;
  for(long j=0;j<samples;j++) for(long c=0;c<channels;c++){ uint32_t u=inj_vals[(j*channels+c)%inj_n]; memcpy(&pcm[c][j],&u,4); }
}
static void do_readi_inj(int h,long len,int word,int sgned,int be,const char *hexlist){
  hnd_t *x=&H[h]; OggVorbis_File *vf=&x->vf; int bs=-7;
  static unsigned char buf[1<<20];
  if(len>(long)sizeof(buf)-64) len=sizeof(buf)-64;
  long gl=len>0?len:0; memset(buf,0xA5,gl+64);
  inj_n=0; { const char *q=hexlist; while(*q&&inj_n<4096){ inj_vals[inj_n++]=(uint32_t)strtoul(q,NULL,16); while(*q&&*q!=',')q++; if(*q)q++; } }
  if(inj_n==0){ inj_vals[0]=0; inj_n=1; }
  long t0=vf->pcm_offset; int hs=0; inj_seen_samples=-1;
  call_begin(h);
  long n=ov_read_filter(vf,(char*)buf,(int)len,be,word,sgned,&bs,inj_filter,NULL);
  if(n>0 && vf->vi && vf->vi->codec_setup) hs=vorbis_synthesis_halfrate_p(vf->vi);
  ev_begin("ReadI"); ev_b("inj",1); ev_i("len",len); ev_i("word",word); ev_i("sg",sgned); ev_i("be",be); ev_i("ret",n); ev_i("bs",bs); ev_i("t0",t0);
  { int g=1; for(int i=0;i<64;i++) if(buf[(n>0?n:0)+i]!=0xA5) g=0; ev_b("guard",g); }
  { int untouched=1; if(n<=0) for(long i=0;i<gl;i++) if(buf[i]!=0xA5){untouched=0;break;} ev_b("untouched",untouched); }
  if(n>0){
    vorbis_info *vi=ov_info(vf,-1); int ch=vi?vi->channels:0; int w=(word==1)?1:2;
    long frames=ch>0?n/(w*ch):0; long ta=vf->pcm_offset-(frames<<hs);
    if(!vf->seekable) ta=x->delivered;
    x->delivered+=(long long)frames<<hs;
    ev_i("ch",ch); ev_i("frames",frames); ev_i("ta",ta); ev_i("fsamples",inj_seen_samples); ev_i("fch",inj_seen_ch);
    ev_arr_begin("smp");
    long lim=frames*ch; if(lim>96) lim=96;
    for(long k=0;k<lim;k++){ long j=k/ch; int c=(int)(k%ch); uint32_t u=inj_vals[(j*ch+c)%inj_n]; const unsigned char *b=buf+(j*ch+c)*w; char t[160];
      snprintf(t,sizeof t,"{\"j\":%ld,\"c\":%d,\"s\":%u,\"ex\":%u,\"m\":%u,\"b0\":%d,\"b1\":%d}",j,c,u>>31,(u>>23)&255,u&0x7fffff,b[0],w==2?b[1]:-1); ev_arr_raw(t); }
    ev_arr_end();
    ev_i("id",ta); ev_i("mf",0);     /* content was replaced on purpose: identity is not claimed for this read */
  }
  ev_state(h); ev_end();
}

/* 1 if the page a page-granularity seek to pos must settle on (the last page of the link's stream whose granule position is below the
   target) holds nothing but the tail of a packet begun on an earlier page: decoding cannot start there (known finding early_page_landing) */
static int best_is_lone_tail(file_t *F,long pos){
  if(!F||pos<0||pos>F->start[F->nlinks]) return 0;   /* pos == total is a legal target */
  int l=file_link_of_pos(F,pos); long long tg=(long long)pos-F->start[l]+F->gpoff[l]; page_t *best=NULL;
  for(int j=0;j<F->npages;j++){ page_t *p=&F->pages[j]; if(p->link!=l||p->off<F->dataoff[l]||p->gp<0) continue; if(p->gp<tg) best=p; }
  return best && best->cont && best->npk==1;
}
/* a lapping seek returned 0: what its lapped region must hold (old position t0, decode state rs0 / cur0 before the call) */
static void lap_expect_seek(hnd_t *x,long t0,int rs0,int cur0){
  OggVorbis_File *vf=&x->vf; file_t *F=x->F;
  if(!F||vf->ready_state!=4||!vf->vi||!vf->vi->codec_setup||t0<0||vf->pcm_offset<0){ lapx_clear(&x->lx); return; }
  int hs=vorbis_synthesis_halfrate_p(vf->vi);
  int lo = rs0>=3 ? cur0 : file_link_of_pos(F,t0);
  lapx_set(&x->lx,F,lo,t0,hs,F,vf->current_link,(long)vf->pcm_offset,hs);
}
static void do_seek(int h,const char *cmd,const char *targ){
  hnd_t *x=&H[h]; OggVorbis_File *vf=&x->vf;
  /* c:<d> = the handle's current byte position + d; the twin of a call gets the SAME argument as the call it repeats (its own cursor may stand elsewhere) */
  static long lastc=0; int tw=g_tw;
  long pos = !strncmp(targ,"c:",2)? (tw? lastc : (lastc=(long)ov_raw_tell(vf)+atol(targ+2))) : x->F? resolve(x->F,targ) : atol(targ);
  long t0=vf->pcm_offset; int rs0=vf->ready_state, cur0=vf->current_link; long off0=vf->offset;
  call_begin(h);
  int ret; const char *name;
  if(!strcmp(cmd,"ps")){ ret=ov_pcm_seek(vf,pos); name="PcmSeek"; }
  else if(!strcmp(cmd,"psp")){ ret=ov_pcm_seek_page(vf,pos); name="PcmSeekPage"; }
  else if(!strcmp(cmd,"rs")){ ret=ov_raw_seek(vf,pos); name="RawSeek"; }
  else if(!strcmp(cmd,"psl")){ ret=ov_pcm_seek_lap(vf,pos); name="PcmSeekLap"; }
  else if(!strcmp(cmd,"pspl")){ ret=ov_pcm_seek_page_lap(vf,pos); name="PcmSeekPageLap"; }
  else { ret=ov_raw_seek_lap(vf,pos); name="RawSeekLap"; }
  ev_begin(name); ev_i("pos",pos); ev_s("sym",targ); ev_i("ret",ret); ev_i("t0",t0); ev_i("rs0",rs0); ev_i("cur0",cur0); ev_i("off0",off0);
  if(!strcmp(cmd,"psp")||!strcmp(cmd,"pspl")) ev_i("bc",best_is_lone_tail(x->F,pos));
  if(ret==0&&strstr(name,"Lap")) lap_expect_seek(x,t0,rs0,cur0);
  if(g_sklog){ char t[32]; ev_arr_begin("probes"); for(int k=0;k<x->src.nskv;k++){ snprintf(t,sizeof t,"%ld",x->src.skv[k]); ev_arr_raw(t); } ev_arr_end(); }
  ev_state(h); ev_end();
}

static void do_tseek(int h,const char *cmd,long link,long rel,long q4){
  hnd_t *x=&H[h]; OggVorbis_File *vf=&x->vf; file_t *F=x->F;
  double sec; long expect=-1; int inrange=0;
  if(link<0||!F){ sec=rel/1000.0; }
  else {
    if(link>=F->nlinks) link=F->nlinks-1;
    double tt=0; for(int i=0;i<link;i++) tt+=(double)F->links[i]->nref/F->links[i]->rate;
    sec=tt+((double)rel+q4/4.0)/F->links[link]->rate;
  }
  if(F && sec>=0){
    /* containing link and expected position, straight from the property statement: t*rate in the containing link */
    double acc=0; int l;
    for(l=0;l<F->nlinks;l++){ double d=(double)F->links[l]->nref/F->links[l]->rate; if(sec<acc+d) break; acc+=d; }
    if(l<F->nlinks){ inrange=1; expect=F->start[l]+(long)floor((sec-acc)*F->links[l]->rate+1e-9); }
  }
  long t0=vf->pcm_offset; int rs0=vf->ready_state, cur0=vf->current_link;
  call_begin(h);
  int ret; const char *name;
  if(!strcmp(cmd,"ts")){ ret=ov_time_seek(vf,sec); name="TimeSeek"; }
  else if(!strcmp(cmd,"tsp")){ ret=ov_time_seek_page(vf,sec); name="TimeSeekPage"; }
  else if(!strcmp(cmd,"tsl")){ ret=ov_time_seek_lap(vf,sec); name="TimeSeekLap"; }
  else { ret=ov_time_seek_page_lap(vf,sec); name="TimeSeekPageLap"; }
  ev_begin(name); ev_i("link",link); ev_i("rel",rel); ev_i("q4",q4); ev_i("expect",expect); ev_b("inrange",inrange); ev_b("neg",sec<0);
  ev_i("ret",ret); ev_i("t0",t0); ev_i("rs0",rs0); ev_i("cur0",cur0);
  if((!strcmp(cmd,"tsp")||!strcmp(cmd,"tspl"))&&expect>=0) ev_i("bc",best_is_lone_tail(F,expect));
  if(ret==0&&strstr(name,"Lap")) lap_expect_seek(x,t0,rs0,cur0);
  ev_state(h); ev_end();
}

/* ---------------- damage ---------------- */
static void recrc(unsigned char *pg){ ogg_page t; t.header=pg; t.header_len=27+pg[26]; t.body=pg+t.header_len; long bl=0; for(int i=0;i<pg[26];i++) bl+=pg[27+i]; t.body_len=bl; ogg_page_checksum_set(&t); }
static void splice(file_t *F,long at,long del,const unsigned char *ins,long nins){
  if(at<0)at=0; if(at>F->len)at=F->len; if(del>F->len-at)del=F->len-at;
  unsigned char *nb=malloc(F->len-del+nins+1); memcpy(nb,F->bytes,at); if(nins)memcpy(nb+at,ins,nins); memcpy(nb+at+nins,F->bytes+at+del,F->len-at-del);
  free(F->bytes); F->bytes=nb; F->len=F->len-del+nins;
}
static void apply_damage(file_t *F,const char *kind,long a,long b){
  if(F->npages==0) return;
  if(a<0) a=0; if(a>=F->npages) a=F->npages-1;
  page_t P=F->pages[a];
  if(!F->pages0){ F->pages0=malloc(F->npages*sizeof(page_t)); memcpy(F->pages0,F->pages,F->npages*sizeof(page_t)); F->npages0=F->npages; }
  if(F->ndmg<8){ snprintf(F->dmgs[F->ndmg].kind,12,"%s",kind); F->dmgs[F->ndmg].a=a; F->dmgs[F->ndmg].b=b; } F->ndmg++;
  if(!strcmp(kind,"garbage")){ unsigned char *g=malloc(b>0?b:1); rng_t r; r.s=a*7919+b; for(long i=0;i<b;i++) g[i]=rng_u32(&r); splice(F,P.off,0,g,b); free(g); }
  else if(!strcmp(kind,"oggs")){ unsigned char g[8]="OggS\0\2\0"; splice(F,P.off,0,g,7); }
  else if(!strcmp(kind,"drop")){ splice(F,P.off,P.len,NULL,0); }
  else if(!strcmp(kind,"dup")){ unsigned char *c=malloc(P.len); memcpy(c,F->bytes+P.off,P.len); splice(F,P.off,0,c,P.len); free(c); }
  else if(!strcmp(kind,"dupbos")){ /* the a-th page (modulo their number) that begins a logical stream, of whatever stream, once more */
    int nb=0; for(int i=0;i<F->npages;i++) if(F->pages[i].bos) nb++;
    if(nb>0){ int want=(int)(a%nb), k=0; for(int i=0;i<F->npages;i++) if(F->pages[i].bos){ if(k==want){ page_t Q=F->pages[i]; unsigned char *c=malloc(Q.len); memcpy(c,F->bytes+Q.off,Q.len); splice(F,Q.off,0,c,Q.len); free(c); break; } k++; } } }
  else if(!strcmp(kind,"swap")){ if(a+1<F->npages){ page_t Q=F->pages[a+1]; unsigned char *c=malloc(P.len+Q.len); memcpy(c,F->bytes+Q.off,Q.len); memcpy(c+Q.len,F->bytes+P.off,P.len); memcpy(F->bytes+P.off,c,P.len+Q.len); free(c);} }
  else if(!strcmp(kind,"trunc")){ long at=P.off+b; if(at<0)at=0; if(at<F->len) F->len=at; }
  else if(!strcmp(kind,"setgp")){ long long g=b; unsigned char *pg=F->bytes+P.off; for(int i=0;i<8;i++) pg[6+i]=(unsigned char)((unsigned long long)g>>(8*i)); recrc(pg); }
  else if(!strcmp(kind,"endgp")){ /* the last page of link a that carries a granule position claims b samples more: the link table of the open believes it */
    int l=(int)a, j=-1; for(int i=0;i<F->npages;i++) if(F->pages[i].link==l&&F->pages[i].gp>=0) j=i;
    if(j>=0){ long long g=F->pages[j].gp+b; unsigned char *pg=F->bytes+F->pages[j].off; for(int i=0;i<8;i++) pg[6+i]=(unsigned char)((unsigned long long)g>>(8*i)); recrc(pg); } }
  else if(!strcmp(kind,"endpage")){ /* behind the last page of link a comes one more page of the same stream, holding nothing (no segments) and claiming b samples more */
    int l=(int)a, j=-1; for(int i=0;i<F->npages;i++) if(F->pages[i].link==l&&F->pages[i].gp>=0) j=i;
    if(j>=0){ page_t Q=F->pages[j]; unsigned char pg[27]; memcpy(pg,F->bytes+Q.off,27); pg[5]=0; long long g=Q.gp+b; for(int i=0;i<8;i++) pg[6+i]=(unsigned char)((unsigned long long)g>>(8*i));
      unsigned long sq=0; for(int i=0;i<4;i++) sq|=(unsigned long)pg[18+i]<<(8*i); sq++; for(int i=0;i<4;i++) pg[18+i]=(unsigned char)(sq>>(8*i)); pg[26]=0; recrc(pg); splice(F,Q.off+Q.len,0,pg,27); } }
  else if(!strcmp(kind,"gphuge")){ unsigned char *pg=F->bytes+P.off; for(int i=0;i<8;i++) pg[6+i]=0xff; pg[13]=0x7f; if(b) pg[6]=(unsigned char)b; recrc(pg); }
  else if(!strcmp(kind,"cleareos")){ unsigned char *pg=F->bytes+P.off; pg[5]&=~4; recrc(pg); }
  else if(!strcmp(kind,"seteos")){ unsigned char *pg=F->bytes+P.off; pg[5]|=4; recrc(pg); }
  else if(!strcmp(kind,"setbos")){ unsigned char *pg=F->bytes+P.off; pg[5]|=2; recrc(pg); }
  else if(!strcmp(kind,"setcont")){ unsigned char *pg=F->bytes+P.off; pg[5]|=1; recrc(pg); }      /* claims to begin with the rest of a packet */
  else if(!strcmp(kind,"clearcont")){ unsigned char *pg=F->bytes+P.off; pg[5]&=~1; recrc(pg); }
  else if(!strcmp(kind,"setseq")){ unsigned char *pg=F->bytes+P.off; for(int i=0;i<4;i++) pg[18+i]=(unsigned char)((unsigned long)b>>(8*i)); recrc(pg); }   /* page sequence number */
  else if(!strcmp(kind,"lacing")){ unsigned char *pg=F->bytes+P.off; int ns=pg[26]; if(ns>0){ int k=(int)(b%ns); long old=pg[27+k]; (void)old; /* the last lacing value: 255 <-> 254 flips "packet continues" */
      if(pg[27+ns-1]==255) pg[27+ns-1]=254; else if(pg[27+ns-1]>0) { /* body length changes are not wanted: only toggle between 255 and itself */ } recrc(pg); } }
  else if(!strcmp(kind,"setserial")){ unsigned char *pg=F->bytes+P.off; for(int i=0;i<4;i++) pg[14+i]=(unsigned char)((unsigned long)b>>(8*i)); recrc(pg); }
  else if(!strcmp(kind,"flip")){ long o=P.off+b; if(o>=0&&o<F->len) F->bytes[o]^=0x5a; }
  else if(!strcmp(kind,"flipfix")){ long o=P.off+b; if(o>=P.off+27&&o<P.off+P.len){ F->bytes[o]^=0x5a; recrc(F->bytes+P.off);} }
  else if(!strcmp(kind,"zero")){ long o=P.off+27+F->bytes[P.off+26]; long n=P.len-(o-P.off); if(b>0&&b<n)n=b; memset(F->bytes+o,0,n); recrc(F->bytes+P.off); }
  F->damaged=1;
  file_walk(F);
}

/* ---------------- script ---------------- */
static char *lines[1<<20]; static int nlines;
static int split(char *s,char **tok,int max){ int n=0; while(*s&&n<max){ while(*s&&isspace((unsigned char)*s))s++; if(!*s)break; tok[n++]=s; while(*s&&!isspace((unsigned char)*s))s++; if(*s)*s++=0; } return n; }

static void parse_layout(char *spec,layout_t *y,int *linkid,int defserial){
  memset(y,0,sizeof *y); y->serial=defserial;
  char *save; char *p=strtok_r(spec,":",&save); *linkid=atoi(p);
  while((p=strtok_r(NULL,":",&save))){
    if(!strncmp(p,"s=",2)) y->serial=atol(p+2);
    else if(!strncmp(p,"ppp=",4)){ char *q=p+4; while(*q&&y->nppp<16){ y->ppp[y->nppp++]=atoi(q); while(*q&&*q!=',')q++; if(*q)q++; } }
    else if(!strncmp(p,"pad=",4)){ int k; long b; if(sscanf(p+4,"%d=%ld",&k,&b)==2&&y->npad<8){ y->padpkt[y->npad]=k; y->padbytes[y->npad]=b; y->npad++; } }
    else if(!strncmp(p,"g=",2)) y->gpoff=atoll(p+2);
    else if(!strncmp(p,"mux=",4)) y->mux=atoi(p+4);
    else if(!strncmp(p,"hs=",3)) y->hdrsplit=atoi(p+3);
    else if(!strncmp(p,"noeos=",6)) y->noeos=atoi(p+6);
    else if(!strncmp(p,"noaud=",6)) y->noaud=atoi(p+6);
  }
}

static void sig_alarm(int s){ (void)s; _exit(97); }
void __wrap_exit(int code){ ev_begin("Exit"); ev_i("code",code); ev_end(); _exit(98); }

static int run_scenario(int from,int to,const char *name,int budget){
  /* in child */
  signal(SIGALRM,sig_alarm); alarm(budget);
  { struct rlimit rl; rl.rlim_cur=rl.rlim_max=budget+2; setrlimit(RLIMIT_CPU,&rl); }
  size_t live0=live_bytes();
  memset(H,0,sizeof H);
  for(int li=from;li<to;li++){
    char *ln=strdup(lines[li]); char *tok[16]; int nt=split(ln,tok,16); if(nt==0){free(ln);continue;}
    const char *c=tok[0];
    if(!strcmp(c,"use")&&nt>=2){ file_t *F=g_files[atoi(tok[1])]; if(F) file_emit_stream_event(F,"Stream"); }
    else if(!strcmp(c,"open")&&nt>=4){ long init=0; if(nt>=5&&!strncmp(tok[4],"init=",5)) init=atol(tok[4]+5); file_t *F=g_files[atoi(tok[2])]; if(F) do_open(atoi(tok[1]),F,tok[3],init); }
    else if(!strcmp(c,"rf")&&nt>=3) do_readf(atoi(tok[1]),atol(tok[2]));
    else if(!strcmp(c,"rfn")&&nt>=4){ int h=atoi(tok[1]); long cnt=atol(tok[3]); for(long i=0;(cnt<0||i<cnt)&&i<400000;i++){ long r=do_readf(h,atol(tok[2])); if(r<=0&&(cnt<0||r!=OV_HOLE)) break; } }
    else if(!strcmp(c,"rif")&&nt>=7) do_readi_inj(atoi(tok[1]),atol(tok[2]),atoi(tok[3]),atoi(tok[4]),atoi(tok[5]),tok[6]);
    else if(!strcmp(c,"ri")&&nt>=6) do_readi(atoi(tok[1]),atol(tok[2]),atoi(tok[3]),atoi(tok[4]),atoi(tok[5]),0);
    else if(!strcmp(c,"rin")&&nt>=7){ int h=atoi(tok[1]); long cnt=atol(tok[6]); for(long i=0;(cnt<0||i<cnt)&&i<400000;i++){ long r=do_readi(h,atol(tok[2]),atoi(tok[3]),atoi(tok[4]),atoi(tok[5]),0); if(r<=0&&(cnt<0||r!=OV_HOLE)) break; } }
    else if(!strcmp(c,"rig")&&nt>=6) do_readi(atoi(tok[1]),atol(tok[2]),atoi(tok[3]),atoi(tok[4]),atoi(tok[5]),1);   /* through ov_read_filter with a gain-1/2 filter */
    else if((!strcmp(c,"ps")||!strcmp(c,"psp")||!strcmp(c,"rs")||!strcmp(c,"psl")||!strcmp(c,"pspl")||!strcmp(c,"rsl"))&&nt>=3) do_seek(atoi(tok[1]),c,tok[2]);
    else if((!strcmp(c,"ts")||!strcmp(c,"tsp")||!strcmp(c,"tsl")||!strcmp(c,"tspl"))&&nt>=5) do_tseek(atoi(tok[1]),c,atol(tok[2]),atol(tok[3]),atol(tok[4]));
    else if(!strcmp(c,"hr")&&nt>=3){ int h=atoi(tok[1]); long t0=H[h].vf.pcm_offset; int rs0=H[h].vf.ready_state; call_begin(h); int ret=ov_halfrate(&H[h].vf,atoi(tok[2])); lapx_clear(&H[h].lx); ev_begin("HalfRate"); ev_i("flag",atoi(tok[2])); ev_i("ret",ret); ev_i("t0",t0); ev_i("rs0",rs0); ev_state(h); ev_end(); }
    else if(!strcmp(c,"xl")&&nt>=3){ int h1=atoi(tok[1]),h2=atoi(tok[2]); long t1=H[h1].vf.pcm_offset,t2=H[h2].vf.pcm_offset; int c10=H[h1].vf.current_link,r10=H[h1].vf.ready_state,c20=H[h2].vf.current_link,r20=H[h2].vf.ready_state; call_begin(h2); int ret=ov_crosslap(&H[h1].vf,&H[h2].vf); ev_begin("Crosslap"); ev_i("h1",h1); ev_i("h2",h2); ev_i("ret",ret); ev_i("t01",t1); ev_i("t02",t2); ev_i("t11",H[h1].vf.pcm_offset); ev_i("rs1",H[h1].vf.ready_state);
      /* the links whose decode state the two handles were in (a handle that sits exactly on a link boundary is still in the link that ends there) */
      ev_i("cur10",r10>=3?c10:-1); ev_i("cur20",r20>=3?c20:-1); ev_i("cur11",H[h1].vf.ready_state>=3?H[h1].vf.current_link:-1);
      if(ret==0){ OggVorbis_File *v1=&H[h1].vf,*v2=&H[h2].vf;
        if(H[h1].F&&H[h2].F&&v1->vi&&v2->vi&&v1->vi->codec_setup&&v2->vi->codec_setup&&v2->ready_state==4&&v1->ready_state>=3&&t1>=0&&t2>=0)
          lapx_set(&H[h2].lx,H[h1].F,v1->seekable?v1->current_link:-1,t1,vorbis_synthesis_halfrate_p(v1->vi),H[h2].F,v2->seekable?v2->current_link:-1,t2,vorbis_synthesis_halfrate_p(v2->vi));
        else lapx_clear(&H[h2].lx); }
      ev_state(h2); ev_end(); }
    else if(!strcmp(c,"q")&&nt>=2){ int h=atoi(tok[1]); call_begin(h); ev_begin("Query"); ev_linktable(h); ev_i("brall",ov_bitrate(&H[h].vf,-1)); ev_i("bri",ov_bitrate_instant(&H[h].vf)); ev_i("sn",ov_serialnumber(&H[h].vf,-1)); ev_i("hrp",ov_halfrate_p(&H[h].vf)); ev_state(h); ev_end(); }
    else if(!strcmp(c,"tell")&&nt>=2){ int h=atoi(tok[1]); OggVorbis_File *vf=&H[h].vf; call_begin(h); long long pt=ov_pcm_tell(vf), rt=ov_raw_tell(vf); double tt=ov_time_tell(vf); ev_begin("Tell"); ev_i("pt",pt); ev_i("rt",rt); ev_i("ttms",(long long)floor(tt*1000.0)); ev_state(h); ev_end(); }
    else if(!strcmp(c,"clear")&&nt>=2){ int h=atoi(tok[1]); call_begin(h); int ret=ov_clear(&H[h].vf); H[h].opened=0; lapx_clear(&H[h].lx); ev_begin("Clear"); ev_i("ret",ret); ev_state(h); ev_i("live",(long long)live_bytes()-(long long)live0); ev_end(); }
    else if(!strcmp(c,"fault")&&nt>=5){ src_t *s=&H[atoi(tok[1])].src; s->f_kind=atoi(tok[2]); s->f_at=atol(tok[3]); s->f_persist=atoi(tok[4]); s->f_on=1; s->f_fired=0; if(nt>=6&&!strcmp(tok[5],"rel")){ long base=(s->f_kind<=3)?s->nread:(s->f_kind==4?s->nseek:s->ntell); s->f_at+=base; } ev_begin("Fault"); ev_i("h",atoi(tok[1])); ev_i("kind",s->f_kind); ev_i("at",s->f_at); ev_i("persist",s->f_persist); ev_end(); }
    else if(!strcmp(c,"faultoff")&&nt>=2){ src_t *s=&H[atoi(tok[1])].src; s->f_on=0; ev_begin("FaultOff"); ev_i("h",atoi(tok[1])); ev_i("fired",s->f_fired); ev_end(); }
    else if(!strcmp(c,"tw")){ g_tw=1; }
    else if(!strcmp(c,"sr")&&nt>=4){ src_t *s=&H[atoi(tok[1])].src; s->sr_mode=atoi(tok[2]); s->sr_arg=atol(tok[3]); s->sr_rng.s=s->sr_arg*77+5; }
    else if(!strcmp(c,"sklog")&&nt>=2) g_sklog=atoi(tok[1]);
    else if(!strcmp(c,"pages")&&nt>=2){ file_t *F=g_files[atoi(tok[1])]; if(F){
        /* the page table as libogg sees it: offset, length, link (-1: a stream that is not one of the Vorbis links), granule position, continued flag */
        ev_begin("Pages"); ev_i("f",F->id); ev_i("len",F->len); ev_arr_begin("pg");
        { int cur=-1; long k=0,last=-1;     /* per link: running audio packet index and the previous block size, for the samples the packets of a page account for */
        page_t *PT=F->pages0?F->pages0:F->pages; int NP=F->pages0?F->npages0:F->npages;
        for(int j=0;j<NP&&j<4000;j++){ page_t *q=&PT[j]; char t[260]; long dur=0; char bl[2200]; size_t bo=0; bl[0]=0;
          if(q->link>=0){ if(q->link!=cur){ cur=q->link; k=0; last=-1; }
            if(q->off>=F->dataoff[cur]){ link_t *L=F->links[cur]; for(int n=0;n<q->npk&&3+k<L->npk;n++,k++){ long b=L->pk[3+k].W?L->bs1:L->bs0; if(last!=-1) dur+=(last+b)>>2; last=b; if(bo<sizeof bl-16) bo+=snprintf(bl+bo,sizeof bl-bo,"%s%ld",bo?",":"",b); } } }
          snprintf(t,sizeof t,"{\"o\":%ld,\"n\":%ld,\"l\":%d,\"g\":%lld,\"c\":%d,\"s\":%ld,\"b\":%d,\"k\":%d,\"d\":%ld,\"e\":%d,\"q\":%ld,\"t\":%d,\"bl\":[",q->off,q->len,q->link,(long long)(q->gp>2000000000LL?2000000000LL:q->gp<-2000000000LL?-2000000000LL:q->gp),q->cont,q->serial,q->bos,q->npk,dur,q->eos,q->pageno,q->tail);
          { char *u=malloc(strlen(t)+strlen(bl)+8); sprintf(u,"%s%s]}",t,bl); ev_arr_raw(u); free(u); } } }
        ev_arr_end();
        /* damages done to the file since (the table above is the one before them): the model applies them to the table */
        ev_arr_begin("dmg"); for(int i=0;i<F->ndmg&&i<8;i++){ char t[120]; long b=F->dmgs[i].b; if(b>2000000000L)b=2000000000L; if(b<-2000000000L)b=-2000000000L; snprintf(t,sizeof t,"{\"kind\":\"%s\",\"a\":%ld,\"b\":%ld}",F->dmgs[i].kind,F->dmgs[i].a,b); ev_arr_raw(t); } ev_arr_end();
        ev_i("ndmg",F->ndmg);
        ev_arr_begin("lk"); for(int i=0;i<F->nlinks;i++){ char t[400]; snprintf(t,sizeof t,"{\"doff\":%ld,\"end\":%ld,\"g0\":%lld,\"N\":%ld,\"start\":%ld,\"ser\":%ld,\"beg\":%ld,\"bs0\":%ld,\"bs1\":%ld,\"ch\":%d}",F->dataoff[i],F->lend[i],(long long)F->gpoff[i],F->links[i]->nref,F->start[i],F->serials[i],F->lbeg[i],F->links[i]->bs0,F->links[i]->bs1,F->links[i]->ch); ev_arr_raw(t); } ev_arr_end();
        ev_end(); } }
    else if(!strcmp(c,"cblog")&&nt>=2){ g_cblog=atoi(tok[1]); for(int h=0;h<MAXH;h++) H[h].src.cblog=g_cblog; }
    free(ln);
  }
  alarm(0);
  leak_report();
  ev_begin("End"); ev_s("scn",name); ev_i("live",(long long)live_bytes()-(long long)live0);
  { int lv=0; for(int h=0;h<MAXH;h++) if(H[h].opened) lv++; ev_i("openleft",lv); }
  ev_end();
  return 0;
}

int main(int argc,char **argv){
  if(argc<3){ fprintf(stderr,"usage: vfh script out.ndjson\n"); return 2; }
  FILE *f=fopen(argv[1],"r"); if(!f){ perror(argv[1]); return 2; }
  static char lb[65536];
  while(fgets(lb,sizeof lb,f)){ size_t n=strlen(lb); while(n&&(lb[n-1]=='\n'||lb[n-1]=='\r'))lb[--n]=0; lines[nlines++]=strdup(lb); if(nlines>=(1<<20)) break; }
  fclose(f);
  ev_fd=open(argv[2],O_WRONLY|O_CREAT|O_TRUNC|O_APPEND,0644); if(ev_fd<0){ perror(argv[2]); return 2; }
  int i=0;
  while(i<nlines){
    char *ln=strdup(lines[i]); char *tok[80]; int nt=split(ln,tok,80);
    if(nt==0||tok[0][0]=='#'){ free(ln); i++; continue; }
    if(!strcmp(tok[0],"link")&&nt>=7){
      int id=atoi(tok[1]); int sig=0,managed=0; long mx=-1,nm=-1,mn=-1;
      extern int g_bs0_patch, g_trim_k, g_trim_p; g_bs0_patch=0; g_trim_k=0; g_trim_p=0;
      for(int k=7;k<nt;k++){ if(!strncmp(tok[k],"sig=",4)) sig=atoi(tok[k]+4); if(!strncmp(tok[k],"bs0=",4)) g_bs0_patch=atoi(tok[k]+4); if(!strncmp(tok[k],"trim=",5)) sscanf(tok[k]+5,"%d,%d",&g_trim_k,&g_trim_p); if(!strncmp(tok[k],"managed=",8)){ managed=1; sscanf(tok[k]+8,"%ld,%ld,%ld",&mx,&nm,&mn); } }
      if(id>=0&&id<MAXLINK){ if(g_links[id]) link_free(g_links[id]); g_links[id]=link_make(id,atoi(tok[2]),atol(tok[3]),atoi(tok[4]),atol(tok[5]),(unsigned)atol(tok[6]),managed,mx,nm,mn,sig);
        if(!g_links[id]){ ev_begin("LinkFail"); ev_i("id",id); ev_end(); } }
      i++;
    } else if(!strcmp(tok[0],"file")&&nt>=3){
      int id=atoi(tok[1]); int n=nt-2; link_t *ls[64]; layout_t lay[64]; int ok=1; if(n>64)n=64;
      for(int k=0;k<n;k++){ int lid; parse_layout(tok[2+k],&lay[k],&lid,1000+id*100+k); if(lid<0||lid>=MAXLINK||!g_links[lid]) ok=0; else ls[k]=g_links[lid]; }
      if(ok&&id>=0&&id<MAXFILE){ if(g_files[id]) file_free(g_files[id]); g_files[id]=file_build(id,n,ls,lay); }
      i++;
    } else if(!strcmp(tok[0],"dmg")&&nt>=5){
      file_t *F=g_files[atoi(tok[1])]; if(F) apply_damage(F,tok[2],atol(tok[3]),atol(tok[4])); i++;
    } else if(!strcmp(tok[0],"scn")){
      char name[128]; snprintf(name,sizeof name,"%s",nt>=2?tok[1]:"?"); int budget=20;
      for(int k=2;k<nt;k++) if(!strncmp(tok[k],"budget=",7)) budget=atoi(tok[k]+7);
      int j=i+1; while(j<nlines&&strncmp(lines[j],"end",3)) j++;
      ev_begin("Reset"); ev_s("scn",name); ev_end();
      fflush(NULL);
      pid_t pid=fork();
      if(pid==0){ run_scenario(i+1,j,name,budget); _exit(0); }
      int st=0; waitpid(pid,&st,0);
      if(WIFSIGNALED(st)){ ev_begin("Crash"); ev_s("scn",name); ev_i("sig",WTERMSIG(st)); ev_end(); }
      else if(WEXITSTATUS(st)==97){ ev_begin("Hang"); ev_s("scn",name); ev_i("budget",budget); ev_end(); }
      else if(WEXITSTATUS(st)==98){ /* Exit event already written by child */ ev_begin("Crash"); ev_s("scn",name); ev_i("sig",-98); ev_end(); }
      else if(WEXITSTATUS(st)!=0){ ev_begin("Crash"); ev_s("scn",name); ev_i("sig",-WEXITSTATUS(st)); ev_end(); }
      i=j+1;
    } else i++;
    free(ln);
  }
  close(ev_fd);
  return 0;
}

/* scn.h — generic scenario runner shared by the packet/encoder harnesses.
 * A script is a sequence of global lines and "scn <name> [budget=<s>] ... end" blocks.
 * Each block runs in a forked child with a CPU/wall budget and an exit() trap;
 * Reset / Crash / Hang / Exit / End events frame the scenario's trace. */
#ifndef VERIF_SCN_H
#define VERIF_SCN_H
#include "common.h"
typedef struct {
  int  (*global_line)(char **tok,int nt);            /* return 1 if consumed */
  void (*scn_begin)(const char *name);
  void (*scn_line)(char **tok,int nt);
  void (*scn_end)(const char *name);                 /* may add fields to the End event via ev_i etc. (called inside End) */
} scn_ops;
int scn_main(int argc,char **argv,const scn_ops *ops);
int scn_split(char *s,char **tok,int max);
long long scn_live(void);                            /* live heap bytes relative to scenario start (ASan), else 0 */
#endif

#include "scn.h"
#include <signal.h>
#include <sys/wait.h>
#include <sys/time.h>
#include <sys/resource.h>
#include <ctype.h>
#include <fcntl.h>
#ifdef __has_feature
# if __has_feature(address_sanitizer)
#  define HAVE_ASAN 1
# endif
#endif
#ifdef HAVE_ASAN
#include <sanitizer/allocator_interface.h>
static size_t live_bytes(void){ return __sanitizer_get_current_allocated_bytes(); }
#include <sanitizer/lsan_interface.h>
static void leak_report(void){ if(getenv("VERIF_LSAN")) __lsan_do_recoverable_leak_check(); }
#else
static void leak_report(void){}
static size_t live_bytes(void){ return 0; }
#endif
static size_t live0;
long long scn_live(void){ return (long long)live_bytes()-(long long)live0; }

static char **lines; static int nlines, caplines;
int scn_split(char *s,char **tok,int max){ int n=0; while(*s&&n<max){ while(*s&&isspace((unsigned char)*s))s++; if(!*s)break; tok[n++]=s; while(*s&&!isspace((unsigned char)*s))s++; if(*s)*s++=0; } return n; }
static void sig_alarm(int s){ (void)s; _exit(97); }
void __wrap_exit(int code){ ev_begin("Exit"); ev_i("code",code); ev_end(); _exit(98); }
#define MAXTOK 4096
int scn_main(int argc,char **argv,const scn_ops *ops){
  if(argc<3){ fprintf(stderr,"usage: %s script out.ndjson\n",argv[0]); return 2; }
  FILE *f=fopen(argv[1],"r"); if(!f){ perror(argv[1]); return 2; }
  size_t cap=1<<20; char *lb=malloc(cap);
  while(fgets(lb,cap,f)){ size_t n=strlen(lb); while(n&&(lb[n-1]=='\n'||lb[n-1]=='\r'))lb[--n]=0;
    if(nlines==caplines){ caplines=caplines*2+1024; lines=realloc(lines,caplines*sizeof(char*)); } lines[nlines++]=strdup(lb); }
  fclose(f); free(lb);
  ev_fd=open(argv[2],O_WRONLY|O_CREAT|O_TRUNC|O_APPEND,0644); if(ev_fd<0){ perror(argv[2]); return 2; }
  static char *tok[MAXTOK];
  int i=0;
  while(i<nlines){
    char *ln=strdup(lines[i]); int nt=scn_split(ln,tok,MAXTOK);
    if(nt==0||tok[0][0]=='#'){ free(ln); i++; continue; }
    if(!strcmp(tok[0],"scn")){
      char name[160]; snprintf(name,sizeof name,"%s",nt>=2?tok[1]:"?"); int budget=20;
      for(int k=2;k<nt;k++) if(!strncmp(tok[k],"budget=",7)) budget=atoi(tok[k]+7);
      int j=i+1; while(j<nlines&&strcmp(lines[j],"end")) j++;
      ev_begin("Reset"); ev_s("scn",name); ev_end();
      fflush(NULL);
      pid_t pid=fork();
      if(pid==0){
        signal(SIGALRM,sig_alarm); alarm(budget);
        { struct rlimit rl; rl.rlim_cur=rl.rlim_max=budget+2; setrlimit(RLIMIT_CPU,&rl); }
        live0=live_bytes();
        if(ops->scn_begin) ops->scn_begin(name);
        for(int li=i+1;li<j;li++){ char *l2=strdup(lines[li]); int n2=scn_split(l2,tok,MAXTOK); if(n2>0&&tok[0][0]!='#') ops->scn_line(tok,n2); free(l2); }
        alarm(0);
        leak_report();
        ev_begin("End"); ev_s("scn",name); if(ops->scn_end) ops->scn_end(name); ev_i("live",scn_live()); ev_end();
        _exit(0);
      }
      int st=0; waitpid(pid,&st,0);
      if(WIFSIGNALED(st)){ ev_begin("Crash"); ev_s("scn",name); ev_i("sig",WTERMSIG(st)); ev_end(); }
      else if(WEXITSTATUS(st)==97){ ev_begin("Hang"); ev_s("scn",name); ev_i("budget",budget); ev_end(); }
      else if(WEXITSTATUS(st)==98){ ev_begin("Crash"); ev_s("scn",name); ev_i("sig",-98); ev_end(); }
      else if(WEXITSTATUS(st)!=0){ ev_begin("Crash"); ev_s("scn",name); ev_i("sig",-WEXITSTATUS(st)); ev_end(); }
      i=j+1;
    } else {
      /* set-up lines run in this process; when asked (after a run that died in one) each is first tried in a child so that a
         library fault while preparing shared material becomes a Crash / Hang event of a scenario of its own instead of a lost run */
      int skip=0;
      if(ops->global_line&&getenv("VERIF_PRELUDE_PROBE")){
        fflush(NULL); pid_t pid=fork();
        if(pid==0){ signal(SIGALRM,sig_alarm); alarm(120); int fd=ev_fd; ev_fd=open("/dev/null",O_WRONLY); (void)fd; ops->global_line(tok,nt); _exit(0); }
        int st=0; waitpid(pid,&st,0);
        if(WIFSIGNALED(st)||WEXITSTATUS(st)!=0){
          char name[64]; snprintf(name,sizeof name,"prelude-line-%d",i+1); skip=1;
          ev_begin("Reset"); ev_s("scn",name); ev_end();
          if(!WIFSIGNALED(st)&&WEXITSTATUS(st)==97){ ev_begin("Hang"); ev_s("scn",name); ev_i("budget",120); ev_end(); }
          else { ev_begin("Crash"); ev_s("scn",name); ev_i("sig",WIFSIGNALED(st)?WTERMSIG(st):-WEXITSTATUS(st)); ev_end(); }
        }
      }
      if(!skip&&ops->global_line) ops->global_line(tok,nt);
      i++; }
    free(ln);
  }
  close(ev_fd);
  return 0;
}

/* insth.c — independent instances under a dictated interleaving (C18).
 * Five programs with disjoint state, each a fixed sequence of steps (one step = a few API calls on its own objects):
 *   0 encoder, stereo VBR      1 encoder, mono managed      2 packet decoder      3 vorbisfile (float reads + seeks)
 *   4 vorbisfile (integer reads through ov_read: the FPU control path, half rate)
 * Script (inside scn ... end):
 *   solo                 every program alone, one after the other (reference hashes)
 *   sched <ids...>       one thread per program; a baton makes them take steps in exactly the given order (then the rest in id order)
 *   free <reps>          one thread per program, free running (used with the TSan build)
 */
#include "scn.h"
#include <pthread.h>
#include <fenv.h>
#include <math.h>

#define NP 5
typedef struct { uint64_t h; int steps; } out_t;
static void hmix(out_t *o,const void *p,size_t n){ const unsigned char *b=p; uint64_t h=o->h; for(size_t i=0;i<n;i++){ h^=b[i]; h*=1099511628211ULL; } o->h=h; }
static void hmixi(out_t *o,long long v){ hmix(o,&v,sizeof v); }

static link_t *gL[3]; static file_t *gF[2];
static unsigned mxcsr(void){ unsigned v=0; __asm__ __volatile__("stmxcsr %0":"=m"(v)); return v&0xffc0; }

/* ---- program state ---- */
typedef struct {
  int id; out_t out; int pc, nsteps;
  vorbis_info vi; vorbis_comment vc; vorbis_dsp_state vd; vorbis_block vb; rng_t r; long done;
  OggVorbis_File vf; struct { file_t *F; long pos; } src; int k;
  int fpu_bad;
} prog_t;

static size_t m_read(void *p,size_t sz,size_t nm,void *ds){ prog_t *g=ds; long w=(long)(sz*nm),a=g->src.F->len-g->src.pos; if(w>a)w=a; if(w>0)memcpy(p,g->src.F->bytes+g->src.pos,w); g->src.pos+=w; return (size_t)w; }
static int m_seek(void *ds,ogg_int64_t off,int wh){ prog_t *g=ds; long np=wh==SEEK_SET?(long)off:wh==SEEK_CUR?g->src.pos+(long)off:g->src.F->len+(long)off; if(np<0)return -1; g->src.pos=np; return 0; }
static long m_tell(void *ds){ return ((prog_t*)ds)->src.pos; }

static void enc_drain(prog_t *g){
  while(vorbis_analysis_blockout(&g->vd,&g->vb)==1){ ogg_packet op; vorbis_analysis(&g->vb,NULL); vorbis_bitrate_addblock(&g->vb);
    while(vorbis_bitrate_flushpacket(&g->vd,&op)){ hmix(&g->out,op.packet,op.bytes); hmixi(&g->out,op.granulepos); hmixi(&g->out,op.bytes); } }
}
static void enc_step(prog_t *g,int managed){
  int s=g->pc;
  if(s==0){ vorbis_info_init(&g->vi); int r=managed?vorbis_encode_init(&g->vi,1,22050,-1,48000,-1):vorbis_encode_init_vbr(&g->vi,2,44100,0.4f); hmixi(&g->out,r);
    vorbis_comment_init(&g->vc); vorbis_comment_add_tag(&g->vc,"ENCODER","inst"); vorbis_analysis_init(&g->vd,&g->vi); vorbis_block_init(&g->vd,&g->vb); g->r.s=managed?99:77; }
  else if(s==1){ ogg_packet h[3]; vorbis_analysis_headerout(&g->vd,&g->vc,&h[0],&h[1],&h[2]); for(int i=0;i<3;i++) hmix(&g->out,h[i].packet,h[i].bytes); }
  else if(s>=2&&s<=7){ int n=3000; float **b=vorbis_analysis_buffer(&g->vd,n); int ch=g->vi.channels; for(int i=0;i<n;i++) for(int c=0;c<ch;c++){ double u=rng_unit(&g->r)*2-1; b[c][i]=(float)(u*(((g->done+i)/2500)&1?0.6:0.03));
      /* the VBR encoder starts, the managed one ends, on a stretch far below one 16-bit step but not digitally silent: the linear predictor that
         extrapolates before the first and behind the last sample stops early there and must leave no tap to chance */
      if((!managed&&g->done+i<4096)||(managed&&s==7)) b[c][i]=(float)(u*1e-7); }
    vorbis_analysis_wrote(&g->vd,n); g->done+=n; enc_drain(g); }
  else if(s==8){ vorbis_analysis_wrote(&g->vd,0); enc_drain(g); }
  else if(s==9){ vorbis_block_clear(&g->vb); vorbis_dsp_clear(&g->vd); vorbis_comment_clear(&g->vc); vorbis_info_clear(&g->vi); }
}
static void dec_step(prog_t *g){
  link_t *L=gL[0]; int s=g->pc;
  if(s==0){ vorbis_info_init(&g->vi); vorbis_comment_init(&g->vc); for(int i=0;i<3;i++){ ogg_packet op; memset(&op,0,sizeof op); op.packet=L->pk[i].data; op.bytes=L->pk[i].bytes; op.b_o_s=(i==0); op.packetno=i; hmixi(&g->out,vorbis_synthesis_headerin(&g->vi,&g->vc,&op)); }
    vorbis_synthesis_init(&g->vd,&g->vi); vorbis_block_init(&g->vd,&g->vb); g->k=3; }
  else if(s>=1&&s<=8){ int upto=g->k+(L->npk-3+7)/8; if(s==8||upto>L->npk) upto=L->npk;
    for(;g->k<upto;g->k++){ pkt_t *p=&L->pk[g->k]; ogg_packet op; memset(&op,0,sizeof op); op.packet=p->data; op.bytes=p->bytes; op.packetno=p->no; op.granulepos=p->gp; op.e_o_s=p->eos;
      if(vorbis_synthesis(&g->vb,&op)==0) vorbis_synthesis_blockin(&g->vd,&g->vb);
      float **pcm; int n; while((n=vorbis_synthesis_pcmout(&g->vd,&pcm))>0){ for(int c=0;c<L->ch;c++) hmix(&g->out,pcm[c],n*sizeof(float)); vorbis_synthesis_read(&g->vd,n); } } }
  else if(s==9){ vorbis_block_clear(&g->vb); vorbis_dsp_clear(&g->vd); vorbis_comment_clear(&g->vc); vorbis_info_clear(&g->vi); }
}
static void vf_read_f(prog_t *g,int times){ for(int i=0;i<times;i++){ float **pcm; int bs; long n=ov_read_float(&g->vf,&pcm,1024,&bs); hmixi(&g->out,n); if(n<=0) break; int ch=ov_info(&g->vf,-1)->channels; for(int c=0;c<ch;c++) hmix(&g->out,pcm[c],n*sizeof(float)); hmixi(&g->out,ov_pcm_tell(&g->vf)); } }
static void vf_read_i(prog_t *g,int times,int word,int sg){ static __thread char buf[8192]; for(int i=0;i<times;i++){ int bs; long n=ov_read(&g->vf,buf,sizeof buf,0,word,sg,&bs); hmixi(&g->out,n); if(n<=0) break; hmix(&g->out,buf,n); hmixi(&g->out,ov_pcm_tell(&g->vf)); } }
static void vf_step(prog_t *g,int which){
  int s=g->pc; ov_callbacks cb={m_read,m_seek,NULL,m_tell};
  if(s==0){ g->src.F=gF[which]; g->src.pos=0; hmixi(&g->out,ov_open_callbacks(g,&g->vf,NULL,0,cb)); hmixi(&g->out,ov_pcm_total(&g->vf,-1)); hmixi(&g->out,ov_streams(&g->vf)); }
  else if(which==0){
    long T=(long)ov_pcm_total(&g->vf,-1);
    switch(s){ case 1: vf_read_f(g,6); break; case 2: hmixi(&g->out,ov_pcm_seek(&g->vf,T/2)); vf_read_f(g,3); break; case 3: hmixi(&g->out,ov_raw_seek(&g->vf,g->src.F->len/3)); vf_read_f(g,3); break;
      case 4: hmixi(&g->out,ov_time_seek(&g->vf,0.05)); vf_read_i(g,3,2,1); break; case 5: hmixi(&g->out,ov_pcm_seek_lap(&g->vf,T-700)); vf_read_f(g,4); break;
      case 6: hmixi(&g->out,ov_pcm_seek_page(&g->vf,T/3)); vf_read_f(g,2); break; case 7: hmixi(&g->out,ov_pcm_seek(&g->vf,1)); vf_read_f(g,30); break; case 8: vf_read_f(g,100000); break; }
  } else {
    switch(s){ case 1: vf_read_i(g,5,2,1); break; case 2: vf_read_i(g,5,1,0); break; case 3: hmixi(&g->out,ov_halfrate(&g->vf,1)); vf_read_i(g,4,2,1); break; case 4: hmixi(&g->out,ov_pcm_seek(&g->vf,3001)); vf_read_i(g,4,2,0); break;
      case 5: hmixi(&g->out,ov_halfrate(&g->vf,0)); vf_read_i(g,3,2,1); break; case 6: hmixi(&g->out,ov_raw_seek(&g->vf,0)); vf_read_i(g,8,2,1); break;
      /* a lapping seek here too, so that two handles lap at the same time (the lap data of one call must not live where another handle's call can reach it) */
      case 7: hmixi(&g->out,ov_time_seek_lap(&g->vf,0.02)); vf_read_i(g,6,1,1); hmixi(&g->out,ov_pcm_seek_page_lap(&g->vf,2000)); vf_read_i(g,2,2,1); break; case 8: vf_read_i(g,100000,2,1); break; }
  }
  if(s==9) hmixi(&g->out,ov_clear(&g->vf));
}
/* what an earlier, unrelated call left on the stack must not matter: with VERIF_FILL set, every step starts on a stack painted with that byte */
static int g_paint=-1;
static __attribute__((noinline)) void stack_paint(int v){ volatile char buf[1<<19]; memset((void*)buf,v,sizeof buf); __asm__ volatile(""::"r"(buf):"memory"); }
static void prog_step(prog_t *g){
  if(g_paint>=0) stack_paint(g_paint);
  int r0=fegetround(); unsigned m0=mxcsr();
  switch(g->id){ case 0: enc_step(g,0); break; case 1: enc_step(g,1); break; case 2: dec_step(g); break; case 3: vf_step(g,0); break; default: vf_step(g,1); break; }
  if(fegetround()!=r0||mxcsr()!=m0) g->fpu_bad=g->pc+1;
  g->pc++;
}
static void prog_init(prog_t *g,int id){ memset(g,0,sizeof *g); g->id=id; g->out.h=1469598103934665603ULL; g->nsteps=10; }

/* ---- baton ---- */
static pthread_mutex_t mu=PTHREAD_MUTEX_INITIALIZER; static pthread_cond_t cv=PTHREAD_COND_INITIALIZER;
static int sched[4096], nsched, spos; static int finished[NP]; static int use_baton;
static prog_t G[NP];
static int next_owner(void){ /* whose turn: follow the schedule, skipping finished programs; afterwards lowest unfinished id */
  while(spos<nsched&&(sched[spos]<0||sched[spos]>=NP||finished[sched[spos]])) spos++;
  if(spos<nsched) return sched[spos];
  for(int i=0;i<NP;i++) if(!finished[i]) return i;
  return -1;
}
static void *runner(void *arg){
  prog_t *g=arg;
  while(g->pc<g->nsteps){
    if(use_baton){ pthread_mutex_lock(&mu); while(next_owner()!=g->id) pthread_cond_wait(&cv,&mu); pthread_mutex_unlock(&mu); }
    prog_step(g);
    if(use_baton){ pthread_mutex_lock(&mu); if(spos<nsched&&sched[spos]==g->id) spos++; if(g->pc>=g->nsteps) finished[g->id]=1; pthread_cond_broadcast(&cv); pthread_mutex_unlock(&mu); }
  }
  return NULL;
}
static void ev_hash(const char *k,uint64_t h){ char t[32]; snprintf(t,sizeof t,"%016llx",(unsigned long long)h); ev_s(k,t); }
static void report(const char *ename,prog_t *g){ ev_begin(ename); ev_i("p",g->id); ev_hash("hash",g->out.h); ev_i("steps",g->pc); ev_i("fpu",g->fpu_bad); ev_end(); }

static void cmd(char **tok,int nt){
  const char *c=tok[0];
  if(!strcmp(c,"solo")){ for(int i=0;i<NP;i++){ prog_t g; prog_init(&g,i); while(g.pc<g.nsteps) prog_step(&g); report("Solo",&g); } }
  else if(!strcmp(c,"sched")||!strcmp(c,"free")){
    int reps=1; use_baton=!strcmp(c,"sched"); nsched=0; if(use_baton){ for(int i=1;i<nt&&nsched<4096;i++) sched[nsched++]=atoi(tok[i]); } else if(nt>=2) reps=atoi(tok[1]);
    for(int rep=0;rep<reps;rep++){
      spos=0; memset(finished,0,sizeof finished); pthread_t th[NP];
      if(use_baton){ ev_begin("Sched"); ev_arr_begin("order"); for(int i=0;i<nsched;i++) ev_arr_i(sched[i]); ev_arr_end(); ev_end(); }
      for(int i=0;i<NP;i++){ prog_init(&G[i],i); }
      for(int i=0;i<NP;i++) pthread_create(&th[i],NULL,runner,&G[i]);
      for(int i=0;i<NP;i++) pthread_join(th[i],NULL);
      for(int i=0;i<NP;i++) report("Done",&G[i]);
    } }
}
static int global_line(char **tok,int nt){
  if(!strcmp(tok[0],"prepare")){ (void)nt;
    gL[0]=link_make(0,2,44100,40,16000,16,0,-1,-1,-1,5);   /* second channel goes exactly silent at times: its residue vector is only ever cleared explicitly */ gL[1]=link_make(1,1,22050,10,9000,8,0,-1,-1,-1,0); gL[2]=link_make(2,2,32000,50,12000,9,0,-1,-1,-1,3);
    if(!gL[0]||!gL[1]||!gL[2]){ ev_begin("LinkFail"); ev_end(); return 1; }
    layout_t la[2]; memset(la,0,sizeof la); la[0].serial=11; la[1].serial=12; la[1].nppp=1; la[1].ppp[0]=2; link_t *a[2]={gL[0],gL[1]}; gF[0]=file_build(0,2,a,la);
    layout_t lb[2]; memset(lb,0,sizeof lb); lb[0].serial=21; lb[1].serial=22; lb[0].nppp=1; lb[0].ppp[0]=3; link_t *b[2]={gL[2],gL[1]}; gF[1]=file_build(1,2,b,lb);
    const char *fill=getenv("VERIF_FILL"); if(fill) g_paint=(int)strtol(fill,NULL,16)&255; ev_begin("Prepared"); ev_s("fill",fill?fill:"none"); ev_end();
    return 1; }
  return 0;
}
static void scn_begin(const char *name){ (void)name; }
static void scn_end(const char *name){ (void)name; ev_i("objleft",0); }
int main(int argc,char **argv){ scn_ops ops={global_line,scn_begin,cmd,scn_end}; return scn_main(argc,argv,&ops); }

/* cmh.c — comment header scenario runner (vorbis_comment_* / header round trip / tag queries).
 * Byte strings are given as run lists "b*n,b*n,..." (b = byte value 0..255, n = repeat count) so that very long comments stay small in
 * scripts and traces; events report strings in the same canonical run-length form.
 *
 * Script (inside scn ... end):
 *   cnew                         vorbis_comment_init of the source comment set
 *   cadd <runs>                  vorbis_comment_add            (C string: no zero bytes)
 *   ctag <runs-tag> <runs-val>   vorbis_comment_add_tag
 *   craw <runs>                  append by filling the arrays directly with an explicit length (may contain zero bytes)
 *   crt <e|s>                    round trip: e = vorbis_analysis_headerout of an encoder, s = vorbis_commentheader_out; then vorbis_synthesis_headerin
 *   ctr <k>                      the stand-alone comment header cut short by k >= 1 bytes, fed to vorbis_synthesis_headerin: must be refused, nothing kept
 *   cq <runs-tag> <n> [src]      vorbis_comment_query on the decoded set (or the source set if "src" is given)
 *   cqc <runs-tag> [src]         vorbis_comment_query_count
 *   cclr                         clear both sets (and the encoder)
 */
#include "scn.h"
#include <ctype.h>
#include <strings.h>

/* a hostile locale, served if the library ever asks libc for case mapping (Turkish dotless i + Latin-1 folding) */
int __wrap_toupper(int c){ if(c=='i') return 0xDD; if(c>=0xE0&&c<=0xFE) return c-32; if(c>='a'&&c<='z') return c-32; return c; }
int __wrap_tolower(int c){ if(c=='I') return 0xFD; if(c>=0xC0&&c<=0xDE) return c+32; if(c>='A'&&c<='Z') return c+32; return c; }
int __wrap_strncasecmp(const char *a,const char *b,size_t n){ for(size_t i=0;i<n;i++){ int x=__wrap_toupper((unsigned char)a[i]),y=__wrap_toupper((unsigned char)b[i]); if(x!=y) return x-y; if(!a[i]) break; } return 0; }
int __wrap_strcasecmp(const char *a,const char *b){ return __wrap_strncasecmp(a,b,(size_t)-1); }

static vorbis_comment src, dec; static int src_on, dec_on;
static vorbis_info evi; static vorbis_dsp_state evd; static int enc_on;

static unsigned char *parse_runs(const char *s,long *len){
  long cap=64,n=0; unsigned char *b=malloc(cap);
  if(strcmp(s,"-")) while(*s){ long v=strtol(s,(char**)&s,10), c=1; if(*s=='*'){ s++; c=strtol(s,(char**)&s,10); } if(*s==',') s++;
    if(n+c+1>cap){ cap=(n+c+1)*2; b=realloc(b,cap); } memset(b+n,(int)v,c); n+=c; }
  b[n]=0; *len=n; return b;
}
static void ev_runs(const char *key,const unsigned char *b,long n){
  ev_arr_begin(key); long i=0; while(i<n){ long j=i; while(j<n&&b[j]==b[i]) j++; char t[64]; snprintf(t,sizeof t,"[%d,%ld]",b[i],j-i); ev_arr_raw(t); i=j; } ev_arr_end();
}
static void ev_set(const char *key,vorbis_comment *vc){
  /* a list of run lists */
  char *buf=NULL; size_t cap=0,len=0;
  #define APP(...) do{ char t_[96]; int k_=snprintf(t_,sizeof t_,__VA_ARGS__); if(len+k_+2>cap){ cap=(len+k_+2)*2+256; buf=realloc(buf,cap);} memcpy(buf+len,t_,k_); len+=k_; buf[len]=0; }while(0)
  APP("[");
  for(int i=0;i<vc->comments;i++){ const unsigned char *b=(const unsigned char*)vc->user_comments[i]; long n=vc->comment_lengths[i]; APP("%s[",i?",":""); long p=0; int first=1;
    while(b&&p<n){ long q=p; while(q<n&&b[q]==b[p]) q++; APP("%s[%d,%ld]",first?"":",",b[p],q-p); first=0; p=q; } APP("]"); }
  APP("]"); ev_raw(key,buf); free(buf);
}
static int which_comment(vorbis_comment *vc,const char *p,long *off){ if(!p) return 0; for(int i=0;i<vc->comments;i++){ const char *b=vc->user_comments[i]; if(p>=b&&p<=b+vc->comment_lengths[i]){ *off=p-b; return i+1; } } *off=-1; return -1; }

static void cmd(char **tok,int nt){
  const char *c=tok[0];
  if(!strcmp(c,"cnew")){ if(src_on) return; vorbis_comment_init(&src); src_on=1; ev_begin("CNew"); ev_end(); }
  else if(!strcmp(c,"cadd")&&nt>=2&&src_on){ long n; unsigned char *b=parse_runs(tok[1],&n); vorbis_comment_add(&src,(char*)b); ev_begin("CAdd"); ev_runs("s",b,strlen((char*)b)); ev_i("n",src.comments); ev_end(); free(b); }
  else if(!strcmp(c,"ctag")&&nt>=3&&src_on){ long n1,n2; unsigned char *t=parse_runs(tok[1],&n1),*v=parse_runs(tok[2],&n2); vorbis_comment_add_tag(&src,(char*)t,(char*)v);
    ev_begin("CTag"); ev_runs("t",t,strlen((char*)t)); ev_runs("v",v,strlen((char*)v)); ev_i("n",src.comments); ev_end(); free(t); free(v); }
  else if(!strcmp(c,"craw")&&nt>=2&&src_on){ long n; unsigned char *b=parse_runs(tok[1],&n);
    if(n==0){ free(b); b=(unsigned char*)strdup("\x7f\x7f\x7f\x7f");   /* (no '=' in it: a query, which relies on termination, cannot mistake it for a tag) */ }      /* an explicit length of 0 on a pointer that does not sit on a zero byte */
    src.user_comments=realloc(src.user_comments,(src.comments+2)*sizeof(char*)); src.comment_lengths=realloc(src.comment_lengths,(src.comments+2)*sizeof(int));
    src.user_comments[src.comments]=(char*)b; src.comment_lengths[src.comments]=(int)n; src.comments++; src.user_comments[src.comments]=NULL;
    ev_begin("CRaw"); ev_runs("s",b,n); ev_i("n",src.comments); ev_end(); }
  else if(!strcmp(c,"crt")&&nt>=2&&src_on){
    if(dec_on){ vorbis_comment_clear(&dec); dec_on=0; }
    ogg_packet h[3]; memset(h,0,sizeof h); int ro=-1, own=0;
    if(tok[1][0]=='e'){ if(!enc_on){ vorbis_info_init(&evi); if(vorbis_encode_init_vbr(&evi,1,8000,0.1f)==0&&vorbis_analysis_init(&evd,&evi)==0) enc_on=1; }
      if(enc_on) ro=vorbis_analysis_headerout(&evd,&src,&h[0],&h[1],&h[2]); }
    else { ro=vorbis_commentheader_out(&src,&h[1]); own=1; }
    int ri=-9999; vorbis_info vi; vorbis_info_init(&vi); vorbis_comment_init(&dec); dec_on=1;
    if(ro==0){
      if(own){ /* the stand-alone header needs an identification header in front of it: take the encoder's */
        if(!enc_on){ vorbis_info_init(&evi); if(vorbis_encode_init_vbr(&evi,1,8000,0.1f)==0&&vorbis_analysis_init(&evd,&evi)==0) enc_on=1; }
        vorbis_comment tmp; vorbis_comment_init(&tmp); ogg_packet a,b2,c2; if(enc_on&&vorbis_analysis_headerout(&evd,&tmp,&a,&b2,&c2)==0){ a.b_o_s=1; ri=vorbis_synthesis_headerin(&vi,&dec,&a); } vorbis_comment_clear(&tmp);
        if(ri==0) ri=vorbis_synthesis_headerin(&vi,&dec,&h[1]);
      } else { ri=vorbis_synthesis_headerin(&vi,&dec,&h[0]); if(ri==0) ri=vorbis_synthesis_headerin(&vi,&dec,&h[1]); }
    }
    ev_begin("RoundTrip"); ev_s("via",tok[1]); ev_i("ro",ro); ev_i("ri",ri); ev_i("bytes",ro==0?h[1].bytes:-1); ev_i("ns",src.comments); ev_i("nd",dec.comments);
    ev_set("src",&src); ev_set("dec",&dec);
    if(dec.vendor) ev_runs("vendor",(unsigned char*)dec.vendor,strlen(dec.vendor)); else ev_raw("vendor","[]");
    ev_end();
    if(own&&ro==0) ogg_packet_clear(&h[1]);
    vorbis_info_clear(&vi);
  }
  else if(!strcmp(c,"ctr")&&nt>=2&&src_on){
    /* the comment header of the source set cut short by <k> bytes (k >= 1: at least the framing byte is gone), behind a valid identification header */
    long cut=atol(tok[1]); if(cut<1) cut=1;
    if(dec_on){ vorbis_comment_clear(&dec); dec_on=0; }
    ogg_packet h; memset(&h,0,sizeof h); int ro=vorbis_commentheader_out(&src,&h); int ri=-9999; long full=ro==0?h.bytes:-1;
    vorbis_info vi; vorbis_info_init(&vi); vorbis_comment_init(&dec); dec_on=1;
    if(ro==0){
      if(!enc_on){ vorbis_info_init(&evi); if(vorbis_encode_init_vbr(&evi,1,8000,0.1f)==0&&vorbis_analysis_init(&evd,&evi)==0) enc_on=1; }
      vorbis_comment tmp; vorbis_comment_init(&tmp); ogg_packet a,b2,c2; int r0=-1; if(enc_on&&vorbis_analysis_headerout(&evd,&tmp,&a,&b2,&c2)==0){ a.b_o_s=1; r0=vorbis_synthesis_headerin(&vi,&dec,&a); } vorbis_comment_clear(&tmp);
      if(r0==0){ if(cut>h.bytes) cut=h.bytes; h.bytes-=cut; ri=vorbis_synthesis_headerin(&vi,&dec,&h); h.bytes+=cut; }
    }
    ev_begin("Truncated"); ev_i("ro",ro); ev_i("ri",ri); ev_i("bytes",full); ev_i("cut",cut); ev_i("ns",src.comments); ev_i("nd",dec.comments); ev_i("ven",dec.vendor!=NULL); ev_i("arr",dec.user_comments!=NULL||dec.comment_lengths!=NULL); ev_end();
    if(ro==0) ogg_packet_clear(&h);
    vorbis_info_clear(&vi);
  }
  else if((!strcmp(c,"cq")||!strcmp(c,"cqc"))&&nt>=2){
    int isq=!strcmp(c,"cq"); int usesrc=(nt>=(isq?4:3)&&!strcmp(tok[isq?3:2],"src")); vorbis_comment *vc=usesrc?&src:&dec; if(usesrc?!src_on:!dec_on) return;
    long n; unsigned char *t=parse_runs(tok[1],&n);
    if(isq){ int k=atoi(tok[2]); char *r=vorbis_comment_query(vc,(char*)t,k); long off=-1; int idx=which_comment(vc,r,&off);
      ev_begin("Query"); ev_runs("t",t,strlen((char*)t)); ev_i("k",k); ev_i("idx",idx); ev_i("off",off); ev_b("src",usesrc); ev_end(); }
    else { int cnt=vorbis_comment_query_count(vc,(char*)t); ev_begin("QueryCount"); ev_runs("t",t,strlen((char*)t)); ev_i("cnt",cnt); ev_b("src",usesrc); ev_end(); }
    free(t); }
  else if(!strcmp(c,"cclr")){ if(src_on){ vorbis_comment_clear(&src); src_on=0; } if(dec_on){ vorbis_comment_clear(&dec); dec_on=0; } if(enc_on){ vorbis_dsp_clear(&evd); vorbis_info_clear(&evi); enc_on=0; } ev_begin("CClear"); ev_end(); }
}
static void scn_begin(const char *name){ (void)name; src_on=dec_on=enc_on=0; }
static void scn_end(const char *name){ (void)name; ev_i("objleft",src_on+dec_on+enc_on); }
int main(int argc,char **argv){ scn_ops ops={NULL,scn_begin,cmd,scn_end}; return scn_main(argc,argv,&ops); }

/* ench.c — encoder-side scenario runner (set-up, blocking, rate manager, round trip).
 * One ndjson event per API call; nothing here interprets Vorbis syntax beyond the first
 * bits of an audio packet (packet type, mode number, window flags).
 *
 * Script (inside "scn <name> ... end"; <e> is an encoder slot 0..3):
 *   einit <e>                                  vorbis_info_init
 *   evbr <e> <ch> <rate> <q1000>               vorbis_encode_setup_vbr
 *   eman <e> <ch> <rate> <max> <nom> <min>     vorbis_encode_setup_managed
 *   eivbr <e> <ch> <rate> <q1000>              vorbis_encode_init_vbr   (one step)
 *   eiman <e> <ch> <rate> <max> <nom> <min>    vorbis_encode_init       (one step)
 *   ectl <e> <what> [args]                     vorbis_encode_ctl: rm2get | rm2set act min max avg damp1000 resbits bias1000 | rm2null
 *                                              | lowget | lowset <hz> | ibget | ibset <x10> | cpget | cpset <0|1> | raw <number>
 *   esetup <e>                                 vorbis_encode_setup_init
 *   eainit <e>                                 vorbis_analysis_init + vorbis_block_init
 *   ehdr <e>                                   vorbis_analysis_headerout
 *   ewrite <e> <n> <sig> [chunk]               submit n samples (in pieces of chunk), draining packets after each piece
 *   eeof <e>                                   vorbis_analysis_wrote(0) + drain
 *   eclear <e> <order>                         order: string over b(lock) d(sp) c(omment) i(nfo), e.g. bdci
 *   brunit <e> <minb> <maxb> <avgb> <spl> <R> <fill>    poke the rate manager of a managed encoder (unit driver)
 *   ab <e> <W> <s0> ... <s14>                  one vorbis_bitrate_addblock on candidate packets of the given byte sizes
 *   dec <e> p <hs> <keep>                      decode the packets of encoder e through the packet API (half rate hs; only every keep-th audio packet and the last keep their granule position)
 *   dec <e> f <ppp>                            paginate (ppp packets per page, 0 = libogg default), open through vorbisfile, total + linear read count
 */
#include "scn.h"
#include <math.h>
#include "codec_internal.h"
#include "bitrate.h"

#define NE 4
typedef struct {
  vorbis_info vi; vorbis_comment vc; vorbis_dsp_state vd; vorbis_block vb;
  int s_vi, s_vc, s_vd, s_vb;      /* 0 = never initialised, 1 = initialised, 2 = cleared */
  int setup_ok, stone;
  pkt_t *pk; int npk, cap;          /* header + audio packets produced */
  long submitted; rng_t r; double env; long envleft;
  int ch; long rate; int managed;
  int eos_seen;
  int brinit_logged;
  int ready;                        /* analysis_init + block_init succeeded and not cleared */
  int fed;                          /* end of input already signalled */
  int dumppk;                       /* audio packets still to be dumped byte by byte */
} enc_t;
static enc_t E[NE];

static long gcd_l(long a,long b){ while(b){ long t=a%b; a=b; b=t; } return a<0?-a:a; }
static int ilog(unsigned v){ int r=0; while(v){ r++; v>>=1; } return r; }

static void pk_add(enc_t *x,ogg_packet *op,int W){
  if(x->npk==x->cap){ x->cap=x->cap*2+64; x->pk=realloc(x->pk,x->cap*sizeof(pkt_t)); }
  pkt_t *d=&x->pk[x->npk++];
  d->data=malloc(op->bytes>0?op->bytes:1); memcpy(d->data,op->packet,op->bytes); d->bytes=op->bytes;
  d->gp=op->granulepos; d->eos=op->e_o_s; d->bos=op->b_o_s; d->no=op->packetno; d->W=W;
}

/* ---------- signal families ---------- */
static void gen(enc_t *x,float **b,long n,int sig){
  for(long i=0;i<n;i++){
    if(x->envleft<=0){ x->envleft=1500+rng_u32(&x->r)%5000; x->env=(rng_u32(&x->r)&1)?0.6:0.02; }
    x->envleft--;
    long t=x->submitted+i;
    for(int c=0;c<x->ch;c++){
      double u=rng_unit(&x->r)*2.0-1.0, v;
      switch(sig){
        case 1: v=u*0.5; break;                       /* steady noise */
        case 2: v=0.0; break;                         /* silence */
        case 3: v=u*x->env; if(rng_u32(&x->r)%4000==0) v=0.95; break;   /* noise + impulses */
        case 4: v=((t/37)&1)?1.0:-1.0; break;         /* full-scale square */
        case 5: v=0.7; break;                         /* DC */
        case 6: v=u*1e-40; break;                     /* denormals */
        case 7: v=u*8.0; break;                       /* far beyond +-1 */
        case 8: v=0.4*sin(t*0.05*(c+1))+0.2*sin(t*0.31); break;
        case 9: v=((t/3000)&1)?u*0.7:0.0; break;      /* noise / silence alternation */
        case 10: v=0.9*sin(2*M_PI*(300.+170.*c)*t/(double)x->vi.rate)+0.045*u; break;   /* a loud tone per channel with a little noise: vectors far from the noise books' centre */
        case 11: v=(c==x->ch-1)?0.0:0.5*sin(2*M_PI*(220.+90.*c)*t/(double)x->vi.rate)+0.2*u; break;     /* last channel (the LFE of 5.1) digitally silent, the rest active */
        case 12: v=(c==x->ch-1)?0.8*sin(2*M_PI*60.*t/(double)x->vi.rate):0.0; break;                    /* only the last channel active */
        case 13: v=(c==0)?0.0:(c==x->ch-1)?0.8*sin(2*M_PI*60.*t/(double)x->vi.rate):0.4*u; break;       /* first channel silent, the rest active */
        default: v=u*x->env; break;                   /* loud/quiet noise */
      }
      b[c][i]=(float)v;
    }
  }
}

/* ---------- rate manager projection ---------- */
static bitrate_manager_state *bms_of(enc_t *x){ return &((private_state*)x->vd.backend_state)->bms; }
static void log_brinit(enc_t *x,int unit){
  codec_setup_info *ci=x->vi.codec_setup; bitrate_manager_state *bm=bms_of(x); bitrate_manager_info *bi=&ci->bi;
  long fill=bi->reservoir_bits*bi->reservoir_bias;
  ev_begin("BrInit"); ev_i("x",(int)(x-E)); ev_i("unit",unit); ev_i("K",PACKETBLOBS); ev_i("managed",bm->managed);
  ev_i("minb",bm->min_bitsper); ev_i("maxb",bm->max_bitsper); ev_i("avgb",bm->avg_bitsper); ev_i("spl",bm->short_per_long);
  ev_i("R",bi->reservoir_bits); ev_i("fill",fill); ev_i("res",bm->minmax_reservoir);
  ev_i("rate",x->vi.rate); ev_i("bs0",ci->blocksizes[0]); ev_i("bs1",ci->blocksizes[1]);
  ev_i("minrate",bi->min_rate); ev_i("maxrate",bi->max_rate); ev_i("avgrate",bi->avg_rate);
  { /* real units, reduced by the common divisor so that TLC's 32-bit integers suffice */
    long g=x->vi.rate>0?x->vi.rate:1; if(bi->max_rate>0) g=gcd_l(g,bi->max_rate); if(bi->min_rate>0) g=gcd_l(g,bi->min_rate);
    long rn=x->vi.rate/g, mxn=bi->max_rate>0?bi->max_rate/g:0, mnn=bi->min_rate>0?bi->min_rate/g:0;
    double big=(double)(bi->reservoir_bits+8.0*70000)*rn, big2=(double)(mxn>mnn?mxn:mnn)*ci->blocksizes[1];
    int ok=!unit && x->vi.rate>0 && big<1.0e9 && big2<1.0e9;
    ev_i("rn",rn); ev_i("mxn",mxn); ev_i("mnn",mnn); ev_i("realok",ok); }
  ev_end(); x->brinit_logged=1;
}

/* first bits of an audio packet: type, mode, window flags */
static void pkt_flags(enc_t *x,ogg_packet *op,int *type,int *mode,int *W,int *lW,int *nW){
  codec_setup_info *ci=x->vi.codec_setup; oggpack_buffer o; oggpack_readinit(&o,op->packet,op->bytes);
  *type=oggpack_read(&o,1); *mode=oggpack_read(&o,ilog(ci->modes-1)); *W=-1; *lW=-1; *nW=-1;
  if(*type==0 && *mode>=0 && *mode<ci->modes){ *W=ci->mode_param[*mode]->blockflag; if(*W){ *lW=oggpack_read(&o,1); *nW=oggpack_read(&o,1); } }
}

static void ev_est(enc_t *x){
  vorbis_dsp_state *v=&x->vd; ev_i("cur",v->pcm_current); ev_i("cw",v->centerW); ev_i("slW",v->lW); ev_i("sW",v->W); ev_i("snW",v->nW);
  ev_i("eof",v->eofflag); ev_i("sgp",v->granulepos); ev_i("sseq",v->sequence); ev_i("pre",v->preextrapolate);
}
static void drain(enc_t *x){
  int r;
  while((r=vorbis_analysis_blockout(&x->vd,&x->vb))==1){
    bitrate_manager_state *bm=bms_of(x); vorbis_block_internal *vbi=x->vb.internal;
    int ra=vorbis_analysis(&x->vb,NULL);
    long sz[PACKETBLOBS]; long res0=bm->minmax_reservoir, avg0=bm->avg_reservoir;
    for(int i=0;i<PACKETBLOBS;i++) sz[i]=oggpack_bytes(vbi->packetblob[i]);
    int rb=vorbis_bitrate_addblock(&x->vb);
    if(bm->managed){
      if(!x->brinit_logged) log_brinit(x,0);
      ev_begin("AddBlock"); ev_i("W",x->vb.W); ev_arr_begin("sz"); for(int i=0;i<PACKETBLOBS;i++) ev_arr_i(sz[i]); ev_arr_end();
      ev_i("res0",res0); ev_i("avg0",avg0); ev_i("ret",rb); ev_i("ra",ra); ev_i("choice",bm->choice);
      ev_i("bytes",oggpack_bytes(vbi->packetblob[bm->choice])); ev_i("res",bm->minmax_reservoir); ev_i("avgres",bm->avg_reservoir);
      ev_end();
    }
    ogg_packet op;
    while(vorbis_bitrate_flushpacket(&x->vd,&op)){
      int type,mode,W,lW,nW; pkt_flags(x,&op,&type,&mode,&W,&lW,&nW);
      pk_add(x,&op,W);
      ev_begin("Pkt"); ev_i("type",type); ev_i("mode",mode); ev_i("W",W); ev_i("lW",lW); ev_i("nW",nW);
      ev_i("gp",op.granulepos); ev_i("eos",op.e_o_s); ev_i("no",op.packetno); ev_i("bytes",op.bytes); ev_i("managed",bm->managed);
      ev_i("k",x->npk-3-1); ev_i("x",(int)(x-E));
      if(x->dumppk>0 && op.bytes<=30000){ x->dumppk--; /* the packet byte by byte for the strict reader; cut = the rate manager changed the size of the candidate it chose */
        ev_i("cut",bm->managed&&bm->choice>=0&&bm->choice<PACKETBLOBS&&op.bytes!=sz[bm->choice]?1:0); ev_arr_begin("pbytes"); for(long i=0;i<op.bytes;i++) ev_arr_i(op.packet[i]); ev_arr_end(); }
      ev_est(x); ev_end();
      if(op.e_o_s) x->eos_seen=1;
    }
  }
  if(r<0){ ev_begin("Blockout"); ev_i("ret",r); ev_end(); }
}

/* ---------- unit driver of the rate manager ---------- */
static void fill_blob(oggpack_buffer *b,long bytes){ oggpack_reset(b); for(long i=0;i<bytes;i++) oggpack_write(b,0xA5,8); }

static void ev_vi(enc_t *x){
  ev_i("vch",x->vi.channels); ev_i("vrate",x->vi.rate); ev_i("vcs",x->vi.codec_setup!=NULL);
  ev_i("bru",x->vi.bitrate_upper); ev_i("brn",x->vi.bitrate_nominal); ev_i("brl",x->vi.bitrate_lower);
  if(x->vi.codec_setup){ codec_setup_info *ci=x->vi.codec_setup; ev_i("stone",ci->hi.set_in_stone); ev_i("hman",ci->hi.managed); ev_i("hcpl",ci->hi.coupling_p); ev_i("bs0",ci->blocksizes[0]); ev_i("bs1",ci->blocksizes[1]); }
}

static void cmd(char **tok,int nt){
  const char *c=tok[0]; if(nt<2) return; int e=atoi(tok[1]); if(e<0||e>=NE) return; enc_t *x=&E[e];
  /* the caller honours the documented contract: no analysis calls without a successful set-up and analysis_init */
  if((!strcmp(c,"einit")&&x->s_vi==1) ||      /* vorbis_info_init on a live struct would orphan it: not a legal use */
     (!strcmp(c,"eainit")&&(!(x->s_vi==1&&x->stone)||x->s_vd==1)) ||
     ((!strcmp(c,"ehdr")||!strcmp(c,"ewrite")||!strcmp(c,"eeof")||!strcmp(c,"brunit")||!strcmp(c,"ab"))&&!x->ready) ||
     ((!strcmp(c,"ewrite")||!strcmp(c,"eeof"))&&x->fed) ||          /* end of input is signalled once; nothing may be submitted after it */
     ((!strcmp(c,"esetup")||!strcmp(c,"ectl")||!strcmp(c,"evbr")||!strcmp(c,"eman")||!strcmp(c,"eivbr")||!strcmp(c,"eiman"))&&x->s_vi!=1)){
    ev_begin("Skip"); ev_i("x",e); ev_s("cmd",c); ev_end(); return; }
  if(!strcmp(c,"einit")){ vorbis_info_init(&x->vi); x->s_vi=1; x->setup_ok=0; x->stone=0; ev_begin("InfoInit"); ev_i("x",e); ev_vi(x); ev_end(); }
  else if((!strcmp(c,"evbr")||!strcmp(c,"eivbr"))&&nt>=5){
    int one=c[1]=='i'; long ch=atol(tok[2]),rate=atol(tok[3]); float q=atoi(tok[4])/1000.f;
    if(!strcmp(tok[4],"nan")) q=NAN; else if(!strcmp(tok[4],"inf")) q=INFINITY; else if(!strcmp(tok[4],"-inf")) q=-INFINITY;
    int ret=one?vorbis_encode_init_vbr(&x->vi,ch,rate,q):vorbis_encode_setup_vbr(&x->vi,ch,rate,q);
    x->ch=(int)ch; x->rate=rate; x->setup_ok=(ret==0); x->stone=(one&&ret==0); if(one&&ret) x->s_vi=2;
    ev_begin(one?"InitVbr":"SetupVbr"); ev_i("x",e); ev_i("ch",ch); ev_i("rate",rate); ev_s("q",tok[4]); ev_i("ret",ret); ev_vi(x); ev_end(); }
  else if((!strcmp(c,"eman")||!strcmp(c,"eiman"))&&nt>=7){
    int one=c[1]=='i'; long ch=atol(tok[2]),rate=atol(tok[3]),mx=atol(tok[4]),nm=atol(tok[5]),mn=atol(tok[6]);
    int ret=one?vorbis_encode_init(&x->vi,ch,rate,mx,nm,mn):vorbis_encode_setup_managed(&x->vi,ch,rate,mx,nm,mn);
    x->ch=(int)ch; x->rate=rate; x->setup_ok=(ret==0); x->stone=(one&&ret==0); if(one&&ret) x->s_vi=2;
    ev_begin(one?"InitManaged":"SetupManaged"); ev_i("x",e); ev_i("ch",ch); ev_i("rate",rate); ev_i("max",mx); ev_i("nom",nm); ev_i("min",mn); ev_i("ret",ret); ev_vi(x); ev_end(); }
  else if(!strcmp(c,"ectl")&&nt>=3){
    const char *w=tok[2]; int ret=-9999; ev_begin("Ctl"); ev_i("x",e); ev_s("what",w);
    if(!strcmp(w,"rm2get")){ struct ovectl_ratemanage2_arg a; memset(&a,0,sizeof a); ret=vorbis_encode_ctl(&x->vi,OV_ECTL_RATEMANAGE2_GET,&a);
      ev_i("act",a.management_active); ev_i("min",a.bitrate_limit_min_kbps); ev_i("max",a.bitrate_limit_max_kbps); ev_i("avg",a.bitrate_average_kbps);
      ev_i("damp1000",(long long)floor(a.bitrate_average_damping*1000+.5)); ev_i("resbits",a.bitrate_limit_reservoir_bits); ev_i("bias1000",(long long)floor(a.bitrate_limit_reservoir_bias*1000+.5)); }
    else if(!strcmp(w,"rm2set")&&nt>=10){ struct ovectl_ratemanage2_arg a; a.management_active=atoi(tok[3]); a.bitrate_limit_min_kbps=atol(tok[4]); a.bitrate_limit_max_kbps=atol(tok[5]); a.bitrate_average_kbps=atol(tok[6]);
      a.bitrate_average_damping=atoi(tok[7])/1000.0; a.bitrate_limit_reservoir_bits=atol(tok[8]); a.bitrate_limit_reservoir_bias=atoi(tok[9])/1000.0;
      ret=vorbis_encode_ctl(&x->vi,OV_ECTL_RATEMANAGE2_SET,&a);
      ev_i("act",a.management_active); ev_i("min",a.bitrate_limit_min_kbps); ev_i("max",a.bitrate_limit_max_kbps); ev_i("avg",a.bitrate_average_kbps); ev_i("damp1000",atoi(tok[7])); ev_i("resbits",a.bitrate_limit_reservoir_bits); ev_i("bias1000",atoi(tok[9])); }
    else if(!strcmp(w,"rm2null")){ ret=vorbis_encode_ctl(&x->vi,OV_ECTL_RATEMANAGE2_SET,NULL); }
    else if(!strcmp(w,"lowget")){ double d=-1; ret=vorbis_encode_ctl(&x->vi,OV_ECTL_LOWPASS_GET,&d); ev_i("hz",(long long)floor(d*1000+.5)); }
    else if(!strcmp(w,"lowset")&&nt>=4){ double d=atol(tok[3])/1000.0; ret=vorbis_encode_ctl(&x->vi,OV_ECTL_LOWPASS_SET,&d); ev_i("hz",atol(tok[3])); }
    else if(!strcmp(w,"ibget")){ double d=-99; ret=vorbis_encode_ctl(&x->vi,OV_ECTL_IBLOCK_GET,&d); ev_i("x10",(long long)floor(d*10+.5)); }
    else if(!strcmp(w,"ibset")&&nt>=4){ double d=atol(tok[3])/10.0; ret=vorbis_encode_ctl(&x->vi,OV_ECTL_IBLOCK_SET,&d); ev_i("x10",atol(tok[3])); }
    else if(!strcmp(w,"cpget")){ int v=-9; ret=vorbis_encode_ctl(&x->vi,OV_ECTL_COUPLING_GET,&v); ev_i("v",v); }
    else if(!strcmp(w,"cpset")&&nt>=4){ int v=atoi(tok[3]); ret=vorbis_encode_ctl(&x->vi,OV_ECTL_COUPLING_SET,&v); ev_i("v",v); }
    else if(!strcmp(w,"raw")&&nt>=4){ long long buf[16]; memset(buf,0,sizeof buf); ret=vorbis_encode_ctl(&x->vi,atoi(tok[3]),buf); ev_i("number",atoi(tok[3])); }
    ev_i("ret",ret); ev_vi(x); ev_end(); }
  else if(!strcmp(c,"esetup")){ int ret=vorbis_encode_setup_init(&x->vi); if(ret==0) x->stone=1; ev_begin("SetupInit"); ev_i("x",e); ev_i("ret",ret); ev_vi(x); ev_end(); }
  else if(!strcmp(c,"eainit")){
    int ret=vorbis_analysis_init(&x->vd,&x->vi); x->s_vd=1; int rb=-1; if(ret==0){ rb=vorbis_block_init(&x->vd,&x->vb); x->s_vb=1; }
    x->r.s=(uint64_t)(e+1)*2654435761ULL+777; x->env=0.5; x->envleft=0; x->submitted=0; x->eos_seen=0; x->brinit_logged=0;
    ev_begin("AnalysisInit"); ev_i("x",e); ev_i("ret",ret); ev_i("rb",rb); ev_vi(x); ev_end();
    x->ready=(ret==0&&rb==0); x->fed=0;
    if(ret==0){ x->managed=bms_of(x)->managed; if(x->managed) log_brinit(x,0); } }
  else if(!strcmp(c,"ehdr")){
    if(x->s_vc!=1){ vorbis_comment_init(&x->vc); x->s_vc=1; vorbis_comment_add_tag(&x->vc,"ENCODER","verif"); }
    ogg_packet h[3]; int ret=vorbis_analysis_headerout(&x->vd,&x->vc,&h[0],&h[1],&h[2]);
    if(ret==0) for(int i=0;i<3;i++) pk_add(x,&h[i],-1);
    ev_begin("HeaderOut"); ev_i("x",e); ev_i("ret",ret);
    if(ret==0){ ev_i("b0",h[0].bytes); ev_i("b1",h[1].bytes); ev_i("b2",h[2].bytes); ev_i("bos",h[0].b_o_s);
      /* identification header fields by fixed offsets (Vorbis I 4.2.2) */
      unsigned char *p=h[0].packet; if(h[0].bytes>=30){ ev_i("idver",p[7]|p[8]<<8|p[9]<<16|(long long)p[10]<<24); ev_i("idch",p[11]); ev_i("idrate",p[12]|p[13]<<8|p[14]<<16|(long long)p[15]<<24);
        ev_i("idmax",(int32_t)(p[16]|p[17]<<8|p[18]<<16|(uint32_t)p[19]<<24)); ev_i("idnom",(int32_t)(p[20]|p[21]<<8|p[22]<<16|(uint32_t)p[23]<<24)); ev_i("idmin",(int32_t)(p[24]|p[25]<<8|p[26]<<16|(uint32_t)p[27]<<24));
        ev_i("idbs0",1<<(p[28]&15)); ev_i("idbs1",1<<(p[28]>>4)); ev_i("idframe",p[29]&1); } }
    if(ret==0&&nt>=3&&!strcmp(tok[2],"dump")){ x->dumppk=nt>=4?atoi(tok[3]):0; /* the identification and setup packets byte by byte, for the strict reader (SetupParse.tla) */
      for(int k=0;k<3;k+=2){ ev_arr_begin(k==0?"idbytes":"setupbytes"); for(long i=0;i<h[k].bytes;i++) ev_arr_i(h[k].packet[i]); ev_arr_end(); } }
    ev_vi(x); ev_end(); }
  else if(!strcmp(c,"ewrite")&&nt>=4){
    long n=atol(tok[2]); int sig=atoi(tok[3]); long chunk=nt>=5?atol(tok[4]):n; if(chunk<=0) chunk=n>0?n:1;
    long done=0;
    do{ long m=n-done; if(m>chunk) m=chunk;
      float **b=vorbis_analysis_buffer(&x->vd,(int)m); if(m>0) gen(x,b,m,sig);
      int ret=vorbis_analysis_wrote(&x->vd,(int)m);
      ev_begin("Wrote"); ev_i("x",e); ev_i("n",m); ev_i("ret",ret); ev_i("sig",sig); ev_est(x); ev_end();
      if(m>0){ x->submitted+=m; done+=m; } else x->fed=1;
      drain(x);
      if(m==0) break;
    }while(done<n);
  }
  else if(!strcmp(c,"eeof")){ int ret=vorbis_analysis_wrote(&x->vd,0); x->fed=1; ev_begin("Wrote"); ev_i("x",e); ev_i("n",0); ev_i("ret",ret); ev_i("sig",-1); ev_est(x); ev_end(); drain(x); ev_begin("EncDone"); ev_i("x",e); ev_i("N",x->submitted); ev_i("eos",x->eos_seen); ev_i("npk",x->npk); ev_end(); }
  else if(!strcmp(c,"eclear")&&nt>=3){
    for(const char *o=tok[2];*o;o++){
      if(*o=='b'||*o=='d'||*o=='i') x->ready=0;
      if(*o=='b'){ int r=vorbis_block_clear(&x->vb); x->s_vb=2; ev_begin("BlockClear"); ev_i("x",e); ev_i("ret",r); ev_end(); }
      else if(*o=='d'){ vorbis_dsp_clear(&x->vd); x->s_vd=2; ev_begin("DspClear"); ev_i("x",e); ev_end(); }
      else if(*o=='c'){ vorbis_comment_clear(&x->vc); x->s_vc=2; ev_begin("CommentClear"); ev_i("x",e); ev_end(); }
      else if(*o=='i'){ vorbis_info_clear(&x->vi); x->s_vi=2; ev_begin("InfoClear"); ev_i("x",e); ev_vi(x); ev_end(); }
    }
    for(int i=0;i<x->npk;i++) free(x->pk[i].data); free(x->pk); x->pk=NULL; x->npk=x->cap=0;
  }
  else if(!strcmp(c,"brunit")&&nt>=8){
    /* needs: a managed encoder after eainit */
    codec_setup_info *ci=x->vi.codec_setup; bitrate_manager_state *bm=bms_of(x); bitrate_manager_info *bi=&ci->bi;
    long R=atol(tok[6]), fill=atol(tok[7]);
    bm->managed=1; bm->min_bitsper=atol(tok[2]); bm->max_bitsper=atol(tok[3]); bm->avg_bitsper=atol(tok[4]); bm->short_per_long=atol(tok[5]);
    bi->reservoir_bits=R; bi->reservoir_bias=R>0?(fill+0.5)/R:0.0; if(bi->reservoir_bias>1.0) bi->reservoir_bias=1.0;
    bm->minmax_reservoir=bi->reservoir_bits*bi->reservoir_bias; bm->avg_reservoir=bm->minmax_reservoir; bm->avgfloat=PACKETBLOBS/2; bm->vb=0;
    log_brinit(x,1);
  }
  else if(!strcmp(c,"ab")&&nt>=3+PACKETBLOBS){
    bitrate_manager_state *bm=bms_of(x); vorbis_block_internal *vbi=x->vb.internal; long sz[PACKETBLOBS];
    x->vb.W=atoi(tok[2]); for(int i=0;i<PACKETBLOBS;i++){ sz[i]=atol(tok[3+i]); fill_blob(vbi->packetblob[i],sz[i]); }
    long res0=bm->minmax_reservoir, avg0=bm->avg_reservoir;
    int rb=vorbis_bitrate_addblock(&x->vb);
    ev_begin("AddBlock"); ev_i("W",x->vb.W); ev_arr_begin("sz"); for(int i=0;i<PACKETBLOBS;i++) ev_arr_i(sz[i]); ev_arr_end();
    ev_i("res0",res0); ev_i("avg0",avg0); ev_i("ret",rb); ev_i("ra",0); ev_i("choice",bm->choice);
    ev_i("bytes",oggpack_bytes(vbi->packetblob[bm->choice])); ev_i("res",bm->minmax_reservoir); ev_i("avgres",bm->avg_reservoir); ev_end();
    ogg_packet op; int nf=0; while(vorbis_bitrate_flushpacket(&x->vd,&op)){ nf++; ev_begin("Flush"); ev_i("bytes",op.bytes); ev_end(); } (void)nf;
  }
}

/* ---------- decoding what an encoder produced ---------- */
typedef struct { unsigned char *b; long len,pos; } mem_t;
static size_t m_read(void *p,size_t sz,size_t nm,void *ds){ mem_t *m=ds; long w=(long)(sz*nm), a=m->len-m->pos; if(w>a)w=a; if(w>0)memcpy(p,m->b+m->pos,w); m->pos+=w; return (size_t)w; }
static int m_seek(void *ds,ogg_int64_t off,int wh){ mem_t *m=ds; long np=wh==SEEK_SET?(long)off:wh==SEEK_CUR?m->pos+(long)off:m->len+(long)off; if(np<0)return -1; m->pos=np; return 0; }
static long m_tell(void *ds){ return ((mem_t*)ds)->pos; }

static void dec_packets(enc_t *x,int e,int hs,int keep){
  vorbis_info vi; vorbis_comment vc; vorbis_dsp_state vd; vorbis_block vb; int inited=0;
  vorbis_info_init(&vi); vorbis_comment_init(&vc);
  long total=0;
  for(int i=0;i<x->npk;i++){
    pkt_t *p=&x->pk[i]; ogg_packet op; memset(&op,0,sizeof op); op.packet=p->data; op.bytes=p->bytes; op.b_o_s=(i==0); op.e_o_s=p->eos; op.packetno=p->no;
    int k=i-3; int kept=(i<3)||p->eos||keep<=1||((k+1)%keep==0); op.granulepos=kept?p->gp:-1;
    if(i<3){ int r=vorbis_synthesis_headerin(&vi,&vc,&op); ev_begin("DecHdr"); ev_i("x",e); ev_i("i",i); ev_i("ret",r); ev_i("dch",vi.channels); ev_i("drate",vi.rate);
      ev_i("dbru",vi.bitrate_upper); ev_i("dbrn",vi.bitrate_nominal); ev_i("dbrl",vi.bitrate_lower);
      if(i==2&&r==0){ ev_i("dbs0",vorbis_info_blocksize(&vi,0)); ev_i("dbs1",vorbis_info_blocksize(&vi,1)); } ev_end();
      if(r) break;
      if(i==2){ int rh=0; if(hs) rh=vorbis_synthesis_halfrate(&vi,1); int ri=vorbis_synthesis_init(&vd,&vi); if(ri==0){ vorbis_block_init(&vd,&vb); inited=1; }
        ev_begin("DecInit"); ev_i("x",e); ev_i("ret",ri); ev_i("hs",hs); ev_i("rh",rh); ev_i("hsp",vorbis_synthesis_halfrate_p(&vi)); ev_end(); if(ri) break; }
      continue; }
    int rs=vorbis_synthesis(&vb,&op); long used=oggpack_bits(&vb.opb); int rb=-9999; if(rs==0) rb=vorbis_synthesis_blockin(&vd,&vb);
    int n=vorbis_synthesis_pcmout(&vd,NULL);
    ev_begin("DecPkt"); ev_i("x",e); ev_i("k",k); ev_i("W",p->W); ev_i("no",op.packetno); ev_i("gp",op.granulepos); ev_i("eos",op.e_o_s); ev_i("bytes",op.bytes);
    ev_i("rs",rs); ev_i("used",used); ev_i("rb",rb); ev_i("n",n); ev_i("managed",x->managed);
    ev_i("dlW",vd.lW); ev_i("dW",vd.W); ev_i("dcw",vd.centerW); ev_i("dcur",vd.pcm_current); ev_i("dret",vd.pcm_returned); ev_i("dgp",vd.granulepos); ev_i("dseq",vd.sequence);
    ev_i("dsc",((private_state*)vd.backend_state)->sample_count); ev_i("deof",vd.eofflag); ev_end();
    if(n>0){ vorbis_synthesis_read(&vd,n); total+=n; }
  }
  ev_begin("DecDone"); ev_i("x",e); ev_i("total",total); ev_i("hs",hs); ev_i("N",x->submitted); ev_end();
  if(inited){ vorbis_block_clear(&vb); vorbis_dsp_clear(&vd); }
  vorbis_comment_clear(&vc); vorbis_info_clear(&vi);
}
static void dec_file(enc_t *x,int e,int ppp){
  /* paginate with libogg, open through vorbisfile, report total and count what a linear read delivers */
  ogg_stream_state os; ogg_stream_init(&os,4711+e); ogg_page og; mem_t m={0,0,0}; long cap=0; int onpage=0;
  #define ADDPG do{ long l=og.header_len+og.body_len; if(m.len+l>cap){ cap=(m.len+l)*2+4096; m.b=realloc(m.b,cap);} memcpy(m.b+m.len,og.header,og.header_len); memcpy(m.b+m.len+og.header_len,og.body,og.body_len); m.len+=l; }while(0)
  for(int i=0;i<x->npk;i++){ pkt_t *p=&x->pk[i]; ogg_packet op; memset(&op,0,sizeof op); op.packet=p->data; op.bytes=p->bytes; op.b_o_s=(i==0); op.e_o_s=p->eos; op.packetno=p->no; op.granulepos=p->gp;
    ogg_stream_packetin(&os,&op);
    if(i==0||i==2){ while(ogg_stream_flush(&os,&og)) ADDPG; }
    else if(i>2){ if(ppp>0){ onpage++; if(onpage>=ppp||p->eos){ while(ogg_stream_flush(&os,&og)) ADDPG; onpage=0; } } else { while(ogg_stream_pageout(&os,&og)) ADDPG; } } }
  while(ogg_stream_flush(&os,&og)) ADDPG;
  ogg_stream_clear(&os);
  OggVorbis_File vf; ov_callbacks cb={m_read,m_seek,NULL,m_tell};
  int r=ov_open_callbacks(&m,&vf,NULL,0,cb); long long tot=-1,cnt=0; int holes=0; long last=0;
  if(r==0){ tot=ov_pcm_total(&vf,-1); float **pcm; int bs; while(1){ long n=ov_read_float(&vf,&pcm,4096,&bs); if(n==OV_HOLE){ holes++; continue; } if(n<=0){ last=n; break; } cnt+=n; } }
  ev_begin("VfTotal"); ev_i("x",e); ev_i("ret",r); ev_i("total",tot); ev_i("read",cnt); ev_i("holes",holes); ev_i("last",last); ev_i("N",x->submitted); ev_i("ppp",ppp); ev_i("bytes",m.len);
  if(r==0){ ev_i("vch",ov_info(&vf,-1)->channels); ev_i("vrate",ov_info(&vf,-1)->rate); ov_clear(&vf); }
  ev_end(); free(m.b);
}
static void cmd2(char **tok,int nt){
  if(!strcmp(tok[0],"dec")&&nt>=3){ int e=atoi(tok[1]); if(e<0||e>=NE) return; enc_t *x=&E[e]; if(x->npk<3){ ev_begin("Skip"); ev_i("x",e); ev_s("cmd","dec"); ev_end(); return; }
    const char *m=tok[2]; int a=nt>=4?atoi(tok[3]):0, b=nt>=5?atoi(tok[4]):1;
    if(m[0]=='p') dec_packets(x,e,a,b); else if(m[0]=='f') dec_file(x,e,a); return; }
  cmd(tok,nt);
}
static void scn_begin(const char *name){ (void)name; memset(E,0,sizeof E); }
static void scn_end(const char *name){ (void)name; int left=0; for(int e=0;e<NE;e++){ enc_t *x=&E[e]; if(x->s_vi==1||x->s_vd==1||x->s_vb==1||x->s_vc==1) left++; } ev_i("objleft",left); }
int main(int argc,char **argv){ scn_ops ops={NULL,scn_begin,cmd2,scn_end}; return scn_main(argc,argv,&ops); }

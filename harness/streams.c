/* streams.c — stream factory and identity projection for the harnesses.
 * Encodes with the real encoder, paginates with libogg, walks with libogg,
 * builds per-link reference decodes through the packet-level API. */
#include "common.h"
#include <math.h>

int ev_fd = 1;
static char evbuf[1<<22]; static size_t evlen; static int ev_first_in_arr;
static void evp(const char *fmt,...){ va_list ap; va_start(ap,fmt); int n=vsnprintf(evbuf+evlen,sizeof(evbuf)-evlen,fmt,ap); va_end(ap); if(n>0){ evlen+=n; if(evlen>=sizeof(evbuf)-1) evlen=sizeof(evbuf)-2; } }
long long clamp31(long long v){ if(v>2147483647LL) return 2147483647LL; if(v<-2147483647LL) return -2147483647LL; return v; }
void ev_begin(const char *name){ evlen=0; evp("{\"e\":\"%s\"",name); }
void ev_i(const char *k,long long v){ evp(",\"%s\":%lld",k,clamp31(v)); }
void ev_s(const char *k,const char *v){ evp(",\"%s\":\"%s\"",k,v); }
void ev_b(const char *k,int v){ evp(",\"%s\":%s",k,v?"true":"false"); }
void ev_raw(const char *k,const char *json){ evp(",\"%s\":%s",k,json); }
void ev_arr_begin(const char *k){ evp(",\"%s\":[",k); ev_first_in_arr=1; }
void ev_arr_i(long long v){ evp("%s%lld",ev_first_in_arr?"":",",clamp31(v)); ev_first_in_arr=0; }
void ev_arr_raw(const char *json){ evp("%s%s",ev_first_in_arr?"":",",json); ev_first_in_arr=0; }
void ev_arr_end(void){ evp("]"); ev_first_in_arr=0; }
void ev_end(void){ evp("}\n"); size_t o=0; while(o<evlen){ ssize_t w=write(ev_fd,evbuf+o,evlen-o); if(w<=0) break; o+=w; } evlen=0; }

/* ------------------------------------------------------------------ */
static void pkt_copy(pkt_t *d, ogg_packet *op, int W){
  d->data=malloc(op->bytes>0?op->bytes:1); memcpy(d->data,op->packet,op->bytes); d->bytes=op->bytes;
  d->gp=op->granulepos; d->eos=op->e_o_s; d->bos=op->b_o_s; d->no=op->packetno; d->W=W;
}

static void gen_signal(link_t *L, rng_t *r, float **buf, long pos, long n, double *env, long *envleft){
  for(long i=0;i<n;i++){
    if(*envleft<=0){
      *envleft = 1500 + rng_u32(r)%5000;
      if(L->sigkind==1) *env=0.5;
      else if(L->sigkind==2) *env=0.0;
      else *env = (rng_u32(r)&1)? 0.6 : 0.02;
    }
    (*envleft)--;
    for(int c=0;c<L->ch;c++){
      double v=(rng_unit(r)*2.0-1.0)*(*env);
      if(L->sigkind==3 && (rng_u32(r)%4000)==0) v = 0.95;
      if(L->sigkind==4 && c==1 && (((pos+i)/3000)&1)) v = 0.0;
      if(L->sigkind==5 && c==1 && !(((pos+i)/3000)&1)) v = 0.0;    /* same, but the stream STARTS with the silent channel: its work vector is first used uncleared */     /* one channel of the pair goes exactly silent: its floor is flagged unused */
      buf[c][i]=(float)v;
    }
  }
  (void)pos;
}

int g_trim_k=0, g_trim_p=0;   /* begin-trimmed link: only every p-th audio packet (and the last) keeps its granule position, lowered by k */
int g_bs0_patch=0;   /* if 6..13: rewrite the short-blocksize exponent of the id header (synthetic small-block stream), restamp granule positions */
link_t *link_make(int id,int ch,long rate,int q100,long nsamp,unsigned seed,int managed,long brmax,long brnom,long brmin,int sigkind){
  link_t *L=calloc(1,sizeof(*L));
  L->id=id; L->ch=ch; L->rate=rate; L->q100=q100; L->nsamp=nsamp; L->seed=seed; L->managed=managed;
  L->brmax=brmax; L->brnom=brnom; L->brmin=brmin; L->sigkind=sigkind;
  vorbis_info vi; vorbis_comment vc; vorbis_dsp_state vd; vorbis_block vb;
  vorbis_info_init(&vi);
  int ret;
  if(managed) ret=vorbis_encode_init(&vi,ch,rate,brmax,brnom,brmin);
  else ret=vorbis_encode_init_vbr(&vi,ch,rate,q100/100.f);
  if(ret){ vorbis_info_clear(&vi); free(L); return NULL; }
  vorbis_comment_init(&vc);
  { char t[64]; snprintf(t,sizeof t,"link%d",id); vorbis_comment_add_tag(&vc,"TITLE",t); vorbis_comment_add_tag(&vc,"ENCODER","verif"); }
  vorbis_analysis_init(&vd,&vi); vorbis_block_init(&vd,&vb);
  L->bs0=vorbis_info_blocksize(&vi,0); L->bs1=vorbis_info_blocksize(&vi,1);
  int cap=64; L->pk=malloc(cap*sizeof(pkt_t)); L->npk=0;
  ogg_packet h[3];
  vorbis_analysis_headerout(&vd,&vc,&h[0],&h[1],&h[2]);
  for(int i=0;i<3;i++) pkt_copy(&L->pk[L->npk++],&h[i],-1);
  rng_t r; r.s=seed*2654435761ULL+12345; double env=0.5; long envleft=0;
  long done=0; int eos=0;
  while(!eos){
    long n=nsamp-done; if(n>1024) n=1024;
    if(n>0){ float **b=vorbis_analysis_buffer(&vd,(int)n); gen_signal(L,&r,b,done,n,&env,&envleft); vorbis_analysis_wrote(&vd,(int)n); done+=n; }
    else { vorbis_analysis_wrote(&vd,0); }
    while(vorbis_analysis_blockout(&vd,&vb)==1){
      ogg_packet op;
      vorbis_analysis(&vb,NULL); vorbis_bitrate_addblock(&vb);
      while(vorbis_bitrate_flushpacket(&vd,&op)){
        if(L->npk==cap){ cap*=2; L->pk=realloc(L->pk,cap*sizeof(pkt_t)); }
        int W = vorbis_packet_blocksize(&vi,&op)==L->bs1 ? 1:0;
        pkt_copy(&L->pk[L->npk++],&op,W);
        if(op.e_o_s) eos=1;
      }
    }
    if(n<=0 && !eos){ /* encoder produced no eos?  should not happen */ break; }
  }
  vorbis_block_clear(&vb); vorbis_dsp_clear(&vd); vorbis_comment_clear(&vc); vorbis_info_clear(&vi);
  if(g_bs0_patch>=6 && g_bs0_patch<=13){
    /* id header byte 28: low nibble = log2(bs0), high nibble = log2(bs1) */
    unsigned char *h=L->pk[0].data; h[28]=(unsigned char)((h[28]&0xf0)|g_bs0_patch);
    L->bs0=1L<<g_bs0_patch;
    /* restamp granule positions so that the stream is self-consistent: gp = end of the packet's sample range, no end trim */
    long P=0; int na0=L->npk-3;
    for(int k=0;k<na0;k++){ if(k>0){ long bp=L->pk[3+k-1].W?L->bs1:L->bs0, bk=L->pk[3+k].W?L->bs1:L->bs0; P+=(bp+bk)/4; } L->pk[3+k].gp=P; }
  }
  if(g_trim_p>0){
    /* the granule position of a page is that of its last packet: keep only those, lowered by k, so that the first page announces
       fewer samples than it decodes to (the decoder must drop the surplus from the BEGINNING, Vorbis I A.2) */
    int na0=L->npk-3;
    for(int k=0;k<na0;k++){ pkt_t *q=&L->pk[3+k]; int keep=((k+1)%g_trim_p==0)||q->eos; if(!keep||q->gp<0) q->gp=-1; else { q->gp-=g_trim_k; if(q->gp<0) q->gp=0; } }
  }
  /* packet sample ranges */
  int na=L->npk-3; L->pstart=calloc(na+2,sizeof(long));
  long P=0;
  for(int k=1;k<na;k++){ { long tk=g_trim_p>0?g_trim_k:0; L->pstart[k]=P>tk?P-tk:0; } long bp=L->pk[3+k-1].W?L->bs1:L->bs0, bk=L->pk[3+k].W?L->bs1:L->bs0; P+=(bp+bk)/4; }
  L->pstart[na]=P-(g_trim_p>0?g_trim_k:0);
  if(link_decode_ref(L)){ link_free(L); return NULL; }
  return L;
}

static int decode_all(link_t *L,int half,float ***out,long *nout){
  vorbis_info vi; vorbis_comment vc; vorbis_dsp_state vd; vorbis_block vb;
  vorbis_info_init(&vi); vorbis_comment_init(&vc);
  for(int i=0;i<3;i++){
    ogg_packet op; memset(&op,0,sizeof op); op.packet=L->pk[i].data; op.bytes=L->pk[i].bytes; op.b_o_s=(i==0); op.packetno=i; op.granulepos=L->pk[i].gp;
    if(vorbis_synthesis_headerin(&vi,&vc,&op)){ vorbis_info_clear(&vi); vorbis_comment_clear(&vc); return -1; }
  }
  if(half){ if(vorbis_synthesis_halfrate(&vi,1)){ vorbis_info_clear(&vi); vorbis_comment_clear(&vc); *out=NULL; *nout=0; return 1; } }
  if(vorbis_synthesis_init(&vd,&vi)){ vorbis_info_clear(&vi); vorbis_comment_clear(&vc); return -1; }
  vorbis_block_init(&vd,&vb);
  long cap=L->nsamp+16384; float **ref=malloc(L->ch*sizeof(float*)); for(int c=0;c<L->ch;c++) ref[c]=malloc(cap*sizeof(float));
  long n=0;
  for(int i=3;i<L->npk;i++){
    ogg_packet op; memset(&op,0,sizeof op); op.packet=L->pk[i].data; op.bytes=L->pk[i].bytes; op.packetno=L->pk[i].no; op.granulepos=L->pk[i].gp; op.e_o_s=L->pk[i].eos;
    if(vorbis_synthesis(&vb,&op)==0) vorbis_synthesis_blockin(&vd,&vb);
    float **pcm; int s;
    while((s=vorbis_synthesis_pcmout(&vd,&pcm))>0){
      if(n+s>cap){ cap=(n+s)*2; for(int c=0;c<L->ch;c++) ref[c]=realloc(ref[c],cap*sizeof(float)); }
      for(int c=0;c<L->ch;c++) memcpy(ref[c]+n,pcm[c],s*sizeof(float));
      n+=s; vorbis_synthesis_read(&vd,s);
    }
  }
  vorbis_block_clear(&vb); vorbis_dsp_clear(&vd); vorbis_comment_clear(&vc); vorbis_info_clear(&vi);
  *out=ref; *nout=n; return 0;
}

int link_decode_ref(link_t *L){
  if(decode_all(L,0,&L->ref,&L->nref)) return -1;
  int r=decode_all(L,1,&L->refh,&L->nrefh);
  if(r<0) return -1;
  return 0;
}

void link_free(link_t *L){
  if(!L) return;
  for(int i=0;i<L->npk;i++) free(L->pk[i].data);
  free(L->pk); free(L->pstart);
  if(L->ref){ for(int c=0;c<L->ch;c++) free(L->ref[c]); free(L->ref); }
  if(L->refh){ for(int c=0;c<L->ch;c++) free(L->refh[c]); free(L->refh); }
  free(L);
}

/* ------------------------------------------------------------------ */
typedef struct { unsigned char *b; long len, cap; } bytes_t;
static void bytes_add(bytes_t *B,const void *p,long n){ if(B->len+n>B->cap){ B->cap=(B->len+n)*2+4096; B->b=realloc(B->b,B->cap); } memcpy(B->b+B->len,p,n); B->len+=n; }
typedef struct { unsigned char *b; long len; int hdr; } rawpage_t;
typedef struct { rawpage_t *p; int n, cap; } pagelist_t;
static void pl_add(pagelist_t *P, ogg_page *og, int hdr){
  if(P->n==P->cap){ P->cap=P->cap*2+16; P->p=realloc(P->p,P->cap*sizeof(rawpage_t)); }
  rawpage_t *r=&P->p[P->n++]; r->len=og->header_len+og->body_len; r->b=malloc(r->len); memcpy(r->b,og->header,og->header_len); memcpy(r->b+og->header_len,og->body,og->body_len); r->hdr=hdr;
}

file_t *file_build(int id,int nlinks,link_t **links,layout_t *lay){
  file_t *F=calloc(1,sizeof(*F)); F->id=id; F->nlinks=nlinks;
  F->links=malloc(nlinks*sizeof(link_t*)); F->serials=malloc(nlinks*sizeof(long)); F->gpoff=malloc(nlinks*sizeof(ogg_int64_t));
  F->start=calloc(nlinks+1,sizeof(long)); F->lbeg=calloc(nlinks,sizeof(long)); F->lend=calloc(nlinks,sizeof(long)); F->dataoff=calloc(nlinks,sizeof(long));
  bytes_t B={0,0,0};
  for(int li=0;li<nlinks;li++){
    link_t *L=links[li]; layout_t *y=&lay[li];
    F->links[li]=L; F->serials[li]=y->serial; F->gpoff[li]=y->gpoff; F->start[li+1]=F->start[li]+L->nref;
    F->lbeg[li]=B.len;
    ogg_stream_state os; ogg_stream_init(&os,(int)y->serial);
    pagelist_t V={0,0,0}; ogg_page og;
    int cyc=0, onpage=0; int natural=(y->nppp==0 || (y->nppp==1 && y->ppp[0]==0));
    for(int i=0;i<L->npk;i++){
      pkt_t *p=&L->pk[i];
      if(i>=3 && y->noaud && L->nref==0) break;     /* headers only: no audio packet at all */
      ogg_packet op; memset(&op,0,sizeof op);
      unsigned char *tmp=NULL; op.packet=p->data; op.bytes=p->bytes;
      if(i>=3) for(int k=0;k<y->npad;k++) if(y->padpkt[k]==i-3 && y->padbytes[k]>p->bytes){ tmp=calloc(1,y->padbytes[k]); memcpy(tmp,p->data,p->bytes); op.packet=tmp; op.bytes=y->padbytes[k]; }
      op.b_o_s=(i==0); op.e_o_s=p->eos; op.packetno=i; op.granulepos=p->gp;
      if(i>=3 && p->gp>=0) op.granulepos=p->gp+y->gpoff;
      ogg_stream_packetin(&os,&op); free(tmp);
      if(i<3){
        if(i==0 || i==2 || y->hdrsplit) while(ogg_stream_flush(&os,&og)) pl_add(&V,&og,1);
        continue;
      }
      if(natural){
        while(ogg_stream_pageout(&os,&og)) pl_add(&V,&og,0);
        if(p->eos) while(ogg_stream_flush(&os,&og)) pl_add(&V,&og,0);
      }else{
        onpage++;
        int want=y->ppp[cyc%y->nppp]; if(want<=0) want=1;
        if(onpage>=want || p->eos){ while(ogg_stream_flush(&os,&og)) pl_add(&V,&og,0); onpage=0; cyc++; }
      }
    }
    while(ogg_stream_flush(&os,&og)) pl_add(&V,&og,0);
    ogg_stream_clear(&os);
    if(y->noeos && V.n>0){ rawpage_t *r=&V.p[V.n-1]; r->b[5]&=~4; ogg_page t; t.header=r->b; t.header_len=27+r->b[26]; t.body=r->b+t.header_len; t.body_len=r->len-t.header_len; ogg_page_checksum_set(&t); }
    /* optional foreign multiplexed stream */
    pagelist_t X={0,0,0};
    if(y->mux){
      ogg_stream_state fs; ogg_stream_init(&fs,(int)(y->serial+1000003));
      int nd=0; for(int i=0;i<V.n;i++) if(!V.p[i].hdr) nd++;
      int nfd=nd/2+1;
      for(int j=0;j<nfd+1;j++){
        unsigned char body[64]; memset(body,0,sizeof body); memcpy(body,j==0?"fishead":"foreign",8); body[9]=(unsigned char)j;
        ogg_packet op; memset(&op,0,sizeof op); op.packet=body; op.bytes=(j==0?40:33+(j%7)); op.b_o_s=(j==0); op.e_o_s=(j==nfd); op.packetno=j; op.granulepos=j*1000;
        ogg_stream_packetin(&fs,&op); while(ogg_stream_flush(&fs,&og)) pl_add(&X,&og,j==0);
      }
      ogg_stream_clear(&fs);
    }
    /* merge */
    int xi=0, dcount=0;
    if(y->mux==2 && X.n) { bytes_add(&B,X.p[0].b,X.p[0].len); xi=1; }
    for(int i=0;i<V.n;i++){
      if(y->mux && !V.p[i].hdr && i==V.n-1) while(xi<X.n){ bytes_add(&B,X.p[xi].b,X.p[xi].len); xi++; }
      bytes_add(&B,V.p[i].b,V.p[i].len);
      if(y->mux==1 && i==0 && X.n){ bytes_add(&B,X.p[0].b,X.p[0].len); xi=1; }
      if(y->mux && !V.p[i].hdr){ dcount++; if((dcount%2)==0 && xi<X.n-1){ bytes_add(&B,X.p[xi].b,X.p[xi].len); xi++; } }
    }
    while(xi<X.n){ bytes_add(&B,X.p[xi].b,X.p[xi].len); xi++; }
    for(int i=0;i<V.n;i++) free(V.p[i].b); free(V.p);
    for(int i=0;i<X.n;i++) free(X.p[i].b); free(X.p);
    F->lend[li]=B.len;
  }
  F->bytes=B.b; F->len=B.len;
  file_walk(F);
  return F;
}

void file_walk(file_t *F){
  free(F->pages); F->pages=NULL; F->npages=0; int cap=0;
  ogg_sync_state oy; ogg_sync_init(&oy);
  char *buf=ogg_sync_buffer(&oy,F->len>0?F->len:1); memcpy(buf,F->bytes,F->len); ogg_sync_wrote(&oy,F->len);
  long off=0; int curlink=-1; int hdrpk=0; ogg_page og;
  while(1){
    long r=ogg_sync_pageseek(&oy,&og);
    if(r==0) break;
    if(r<0){ off-=r; continue; }
    if(F->npages==cap){ cap=cap*2+64; F->pages=realloc(F->pages,cap*sizeof(page_t)); }
    page_t *p=&F->pages[F->npages++]; memset(p,0,sizeof *p);
    p->off=off; p->len=r; p->serial=ogg_page_serialno(&og); p->gp=ogg_page_granulepos(&og); p->bos=ogg_page_bos(&og)?1:0; p->eos=ogg_page_eos(&og)?1:0; p->cont=ogg_page_continued(&og)?1:0; p->npk=ogg_page_packets(&og); p->pageno=ogg_page_pageno(&og); p->tail=(og.header[26]>0&&og.header[27+og.header[26]-1]==255); p->crcok=1;
    if(!F->damaged){
      if(curlink+1<F->nlinks && off>=F->lbeg[curlink+1]){ curlink++; hdrpk=0; }
      p->link = (curlink>=0 && p->serial==F->serials[curlink]) ? curlink : -1;
      if(p->link>=0 && hdrpk<3){ hdrpk+=p->npk; if(hdrpk>=3) F->dataoff[curlink]=off+r; }
    } else p->link=-1;
    off+=r;
  }
  ogg_sync_clear(&oy);
}

void file_free(file_t *F){ if(!F) return; free(F->bytes); free(F->links); free(F->serials); free(F->gpoff); free(F->start); free(F->pages); free(F->pages0); free(F->lbeg); free(F->lend); free(F->dataoff); free(F); }

static int cmp_long(const void *a,const void *b){ long x=*(const long*)a,y=*(const long*)b; return x<y?-1:x>y; }

void file_emit_stream_event(file_t *F,const char *ename){
  ev_begin(ename); ev_i("f",F->id); ev_i("len",F->len); ev_i("nl",F->nlinks); ev_i("total",F->start[F->nlinks]); ev_b("damaged",F->damaged);
  ev_arr_begin("links");
  for(int i=0;i<F->nlinks;i++){
    link_t *L=F->links[i]; char t[512];
    snprintf(t,sizeof t,"{\"id\":%d,\"serial\":%ld,\"ch\":%d,\"rate\":%ld,\"bs0\":%ld,\"bs1\":%ld,\"N\":%ld,\"Nh\":%ld,\"start\":%ld,\"gp0\":%lld,\"beg\":%ld,\"end\":%ld,\"doff\":%ld,\"npk\":%d,\"hrok\":%s}",
      L->id,F->serials[i],L->ch,L->rate,L->bs0,L->bs1,L->nref,L->refh?L->nrefh:-1,F->start[i],(long long)F->gpoff[i],F->lbeg[i],F->lend[i],F->dataoff[i],L->npk-3,L->refh?"true":"false");
    ev_arr_raw(t);
  }
  ev_arr_end();
  /* page-end boundaries (absolute pcm positions), per link, sorted, for the page-seek bound B(p) */
  ev_arr_begin("pb");
  for(int i=0;i<F->nlinks;i++){
    long *v=malloc((F->npages+1)*sizeof(long)); int n=0;
    for(int j=0;j<F->npages;j++){ page_t *p=&F->pages[j]; if(p->link!=i||p->gp<0||p->off<F->dataoff[i]) continue; long q=(long)(p->gp-F->gpoff[i]); if(q<0)q=0; if(q>F->links[i]->nref) q=F->links[i]->nref; v[n++]=F->start[i]+q; }
    qsort(v,n,sizeof(long),cmp_long);
    char *t=malloc(n*12+16); size_t o=0; o+=sprintf(t+o,"["); for(int k=0;k<n;k++) o+=sprintf(t+o,"%s%ld",k?",":"",v[k]); sprintf(t+o,"]");
    ev_arr_raw(t); free(t); free(v);
  }
  ev_arr_end();
  ev_i("npages",F->npages);
  ev_end();
}

/* ------------------------------------------------------------------ */
int file_link_of_pos(file_t *F,long t){
  for(int i=0;i<F->nlinks;i++) if(t<F->start[i+1]) return i;
  return F->nlinks-1;
}
static int eq_at(link_t *L,int hs,long p,float **pcm,int ch,long n,long skip){
  float **ref=hs?L->refh:L->ref; long nr=hs?L->nrefh:L->nref;
  if(!ref||ch!=L->ch) return 0;
  long q=hs?(p>>1):p; if(hs && (p&1)) return 0;
  if(q<0||q+n>nr) return 0;
  for(int c=0;c<ch;c++) if(memcmp(ref[c]+q+skip,pcm[c]+skip,(n-skip)*sizeof(float))) return 0;
  return 1;
}
int ident_at(file_t *F,int hs,long t,float **pcm,int ch,long n){
  if(t<0||t>=F->start[F->nlinks]) return 0;
  int l=file_link_of_pos(F,t);
  return eq_at(F->links[l],hs,t-F->start[l],pcm,ch,n,0);
}
long ident_search(file_t *F,int hs,float **pcm,int ch,long n){
  for(int l=0;l<F->nlinks;l++){
    link_t *L=F->links[l]; float **ref=hs?L->refh:L->ref; long nr=hs?L->nrefh:L->nref;
    if(!ref||ch!=L->ch) continue;
    for(long q=0;q+n<=nr;q++){
      if(memcmp(&ref[0][q],&pcm[0][0],sizeof(float))) continue;
      int ok=1; for(int c=0;c<ch&&ok;c++) if(memcmp(ref[c]+q,pcm[c],n*sizeof(float))) ok=0;
      if(ok) return F->start[l]+(hs?q*2:q);
    }
  }
  return -1;
}
long ident_matchfrom(file_t *F,int hs,long t,float **pcm,int ch,long n){
  if(t<0||t>=F->start[F->nlinks]) return n;
  int l=file_link_of_pos(F,t); link_t *L=F->links[l];
  float **ref=hs?L->refh:L->ref; long nr=hs?L->nrefh:L->nref;
  if(!ref||ch!=L->ch) return n;
  long p=t-F->start[l]; if(hs&&(p&1)) return n; long q=hs?(p>>1):p;
  if(q<0||q+n>nr) return n;
  long j=n;
  while(j>0){ int ok=1; for(int c=0;c<ch&&ok;c++) if(memcmp(ref[c]+q+j-1,pcm[c]+j-1,sizeof(float))) ok=0; if(!ok) break; j--; }
  return j;
}

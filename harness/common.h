/* common.h — shared pieces of the conformance harnesses (verification side only).
 * Nothing in here interprets Vorbis syntax: streams are made by the real
 * encoder, paginated by libogg, decoded by the real decoder. */
#ifndef VERIF_COMMON_H
#define VERIF_COMMON_H
#include <stdio.h>
#include <stdlib.h>
#include <string.h>
#include <stdint.h>
#include <stdarg.h>
#include <errno.h>
#include <unistd.h>
#include <ogg/ogg.h>
#include <vorbis/codec.h>
#include <vorbis/vorbisenc.h>
#include <vorbis/vorbisfile.h>

/* ---------- event output (ndjson) ---------- */
extern int ev_fd;                       /* output fd */
void ev_begin(const char *name);        /* {"e":"name" */
void ev_i(const char *k, long long v);  /* ,"k":v   (must fit 31 bits for TLC; caller's duty) */
void ev_s(const char *k, const char *v);
void ev_b(const char *k, int v);        /* boolean */
void ev_raw(const char *k, const char *json);
void ev_arr_begin(const char *k);
void ev_arr_i(long long v);
void ev_arr_raw(const char *json);
void ev_arr_end(void);
void ev_end(void);                      /* }\n, written with one write() */
long long clamp31(long long v);         /* clamp into [-2^31+1, 2^31-1] */

/* ---------- deterministic rng ---------- */
typedef struct { uint64_t s; } rng_t;
static inline uint32_t rng_u32(rng_t *r){ r->s = r->s*6364136223846793005ULL + 1442695040888963407ULL; return (uint32_t)(r->s>>33) ^ (uint32_t)(r->s>>11); }
static inline double rng_unit(rng_t *r){ return (rng_u32(r)>>8)*(1.0/16777216.0); }

/* ---------- packets, links, files ---------- */
typedef struct {
  unsigned char *data; long bytes;
  ogg_int64_t gp; int eos; int bos; ogg_int64_t no;
  int W;                 /* block flag of an audio packet, -1 for headers */
} pkt_t;

typedef struct {
  int id;
  int ch; long rate; int q100; long nsamp; unsigned seed; int managed; long brmax, brnom, brmin;
  int sigkind;
  pkt_t *pk; int npk;    /* 3 headers + audio */
  long bs0, bs1;
  /* reference decodes through the packet API (full rate and half rate) */
  float **ref;  long nref;      /* ch x nref */
  float **refh; long nrefh;     /* half-rate, may be NULL if refused */
  long *pstart;                 /* pstart[k] = first sample position contributed by audio packet k (k>=1), npk-3+1 entries */
} link_t;

typedef struct {
  long off, len; long serial; ogg_int64_t gp; int bos, eos, cont; int npk; int link; /* link index in file or -1 */
  long pageno; int tail;   /* tail: the page ends in the middle of a packet (last lacing value 255) */
  int crcok;
} page_t;

typedef struct {
  int id;
  unsigned char *bytes; long len;
  int nlinks; link_t **links; long *serials; ogg_int64_t *gpoff; long *start; /* start[i]=pcm start of link i; start[nlinks]=total */
  page_t *pages; int npages;
  int damaged;
  page_t *pages0; int npages0;      /* the page table before the first damage, and the damages in order (for the model of the open, which is run on the damaged table) */
  struct { char kind[12]; long a, b; } dmgs[8]; int ndmg;
  long *lbeg, *lend;    /* byte range of each link */
  long *dataoff;        /* byte offset of first audio page of each link */
} file_t;

link_t *link_make(int id,int ch,long rate,int q100,long nsamp,unsigned seed,int managed,long brmax,long brnom,long brmin,int sigkind);
int link_decode_ref(link_t *L);   /* fills ref/refh */
void link_free(link_t *L);

/* layout of one link inside a file */
typedef struct {
  int ppp[16]; int nppp;         /* packets per page cycle; 0 = natural libogg paging */
  int padpkt[8]; long padbytes[8]; int npad;   /* audio packet index -> pad to this many bytes (trailing zeros) */
  ogg_int64_t gpoff;             /* added to every granule position */
  long serial;
  int mux;                       /* interleave a foreign logical stream: 0 none, 1 bos-after, 2 bos-before */
  int hdrsplit;                  /* 0: comment+setup share pages (default libogg), 1: each header packet flushed on own page */
  int noeos;                     /* clear the eos flag on the last page */
  int noaud;                     /* the link consists of its three headers only: no audio packet, no audio page (for links of zero samples) */
} layout_t;

file_t *file_build(int id,int nlinks,link_t **links,layout_t *lay);
void file_walk(file_t *F);       /* (re)compute page table from bytes with libogg only */
void file_free(file_t *F);
void file_emit_stream_event(file_t *F, const char *ename);

/* identity helpers */
/* returns 1 if chunk (ch x n floats) equals reference of file F at absolute position t (full-rate units), hs=0/1 */
int ident_at(file_t *F,int hs,long t,float **pcm,int ch,long n);
long ident_search(file_t *F,int hs,float **pcm,int ch,long n);   /* absolute position or -1 */
long ident_matchfrom(file_t *F,int hs,long t,float **pcm,int ch,long n); /* smallest j s.t. chunk[j..n) == ref[t+j<<hs ..), n if none */
int file_link_of_pos(file_t *F,long t);   /* link containing absolute position t (last link for t==total) */

#endif

"""Behaviour generation from the TLA+ models (spec -> code direction)."""
import os, re, json, random
import vlib

def _parse_hists(out, tag='HIST'):
    hs = []
    for m in re.finditer(r'"%s (\[.*\])"' % tag, out):
        try: hs.append(json.loads(m.group(1).replace('\\"','"')))
        except Exception: pass
    return hs

def vf_histories(seed, n=60, depth=9, mode='seek'):
    """Model-check VFApi_MC exhaustively (abstract-state view) and generate caller histories by TLC simulation."""
    stats = {}
    mc = vlib.run_tlc('VFApi_MC.tla', 'VFApi_MC.cfg' if mode=='seek' else 'VFApi_MCs.cfg', workers=4, timeout=600)
    stats['mc_ok'] = bool(mc['ok']); stats['mc_states'] = mc['distinct']; stats['mc_transitions'] = mc['generated']
    if not mc['ok']:
        raise SystemExit('VFApi_MC failed:\n' + mc['out'][-2000:])
    cfg = os.path.join(vlib.SPEC, f'.VFApi_Gen_{os.getpid()}.cfg')
    open(cfg,'w').write(f'SPECIFICATION Spec\nCONSTANTS MaxLen = {depth}\n Gen = TRUE\n Mode = "{mode}"\nINVARIANT RulesSatisfiable\nINVARIANT Export\nCHECK_DEADLOCK FALSE\n')
    hists = []; seen = set(); rounds = 0; rng = random.Random(seed)
    try:
        while len(hists) < n and rounds < 8:
            r = vlib.run_tlc('VFApi_MC.tla', os.path.basename(cfg), workers=4, simulate=max(4, n//20), depth=depth+3, seed=seed*131+rounds, timeout=600)
            if not r['ok'] and r['violated']:
                raise SystemExit('VFApi_MC simulation found a violation:\n' + r['out'][-2000:])
            hs = _parse_hists(r['out'])
            rng.shuffle(hs)
            # keep histories that contain at least one read after a seek; dedupe; cap siblings sharing a prefix
            pref = {}
            for h in hs:
                k = json.dumps(h)
                if k in seen: continue
                ops = [x[0] for x in h]
                if not any(o in ('rf','ri') for o in ops): continue
                p = json.dumps(h[:-2]); pref[p] = pref.get(p,0)+1
                if pref[p] > 2: continue
                seen.add(k); hists.append(h)
                if len(hists) >= n: break
            rounds += 1
    finally:
        try: os.remove(cfg)
        except OSError: pass
    stats['generated'] = len(hists); stats['sim_rounds'] = rounds
    return dict(hists=hists, stats=stats)

"""C15 — encoder set-up succeeds completely or fails cleanly for all arguments (EncSetup.tla).
   C13 — clear functions release everything (encoder / packet decoder part; uses the same harness and trace spec)."""
import os, re, json, time, random
from concurrent.futures import ThreadPoolExecutor
import vlib
from checks.pipeline import Scn, run_batch, finish
from checks.pipeline import replay as _replay

TRACE = ('Enc_Trace.tla', 'Enc_Trace.cfg')
CHECKER = 'java -cp tla2tools.jar tlc2.TLC -workers 1 -config Enc_Trace.cfg Enc_Trace.tla (TRACE=<ndjson>); design level: EncSetup_MC.tla / EncSetup_MC.cfg'
C15_RULES = {'SetupReturnsDocumentedCode', 'OneStepFailureClearsInfo', 'SuccessReportsChannelsAndRate', 'OneStepSuccessFreezesSettings', 'SetupInitNeedsAChosenMode',
             'SetupInitFreezesSettings', 'CtlReturnsDocumentedCode', 'NoChangeAfterSetupInit', 'UnknownRequestIsRefused', 'GetReturnsWhatWasSet', 'InconsistentRateRequestRefused',
             'AnalysisInitSucceedsAfterSetup', 'HeaderOutSucceeds', 'IdHeaderMatchesInfo', 'WroteSucceeds', 'InfoClearEmptiesInfo', 'InfoInitGivesEmptyInfo',
             'PacketDecodes', 'HeadersAccepted', 'NoCrash', 'CallsTerminate', 'LibraryNeverExits', 'UnknownEvent'}

CH = [-1, 0, 1, 2, 3, 4, 5, 6, 7, 8, 9, 16, 17, 64, 255, 256, 257, 300]
RATES = [-1, 0, 1, 100, 3999, 4000, 7999, 8000, 8001, 8999, 9000, 9001, 11025, 14999, 15000, 15001, 16000, 18999, 19000, 19001, 22050, 25999, 26000, 26001,
         32000, 39999, 40000, 40001, 44100, 48000, 49999, 50000, 50001, 96000, 192000, 199999, 200000, 200001, 2147483647]
QUAL = ['-1000', '-200', '-101', '-100', '-99', '0', '50', '100', '299', '300', '500', '800', '999', '1000', '1001', '2000', 'nan', 'inf', '-inf']
BR = [-1, 0, 1, 8000, 16000, 32000, 45000, 64000, 96000, 128000, 256000, 500000, 2147483647]
CTLS_SET = ['rm2set 1 0 0 64 1500 128000 100', 'rm2set 1 64 64 64 1500 1000 500', 'rm2set 1 100 50 0 1500 1000 500', 'rm2set 1 0 0 0 0 1000 500', 'rm2set 0 0 0 0 1500 0 0',
            'rm2set 1 0 64 0 1500 -5 500', 'rm2set 1 0 64 0 1500 100 1500', 'rm2null', 'lowset 1000', 'lowset 2000', 'lowset 15500', 'lowset 99000', 'lowset 150000', 'lowset -5',
            'ibset -200', 'ibset -150', 'ibset -37', 'ibset 0', 'ibset 55', 'cpset 0', 'cpset 1', 'cpset 7']
CTLS_GET = ['rm2get', 'lowget', 'ibget', 'cpget']
CTLS_RAW = ['raw 0', 'raw 1', 'raw 22', 'raw 23', 'raw 80', 'raw 81', 'raw 255', 'raw 16', 'raw 18', 'raw 19', 'raw 17']

def model_check():
    r = vlib.run_tlc('EncSetup_MC.tla', 'EncSetup_MC.cfg', workers=4, timeout=600)
    return dict(states=r['distinct'], transitions=r['generated'], ok=bool(r['ok'])), ([('design' if r['violated'] else 'infra', 'EncSetup_MC', r['out'][-2500:])] if not r['ok'] else [])

def gen_histories(seed, n, depth):
    cfg = os.path.join(vlib.SPEC, f'.es_gen_{os.getpid()}.cfg')
    open(cfg, 'w').write(f'SPECIFICATION Spec\nCONSTANTS MaxLen = {depth}\n Gen = TRUE\nINVARIANT RulesSatisfiable\nINVARIANT Export\nCHECK_DEADLOCK FALSE\n')
    out = []; seen = set()
    for rnd in range(4):
        r = vlib.run_tlc('EncSetup_MC.tla', os.path.basename(cfg), workers=4, simulate=max(4, n // 8), depth=depth + 2, seed=seed * 101 + rnd, timeout=300)
        for m in re.findall(r'"HIST (\[.*\])"', r['out']):
            try: h = json.loads(m.replace('\\"', '"'))
            except Exception: continue
            k = json.dumps(h)
            if k not in seen and len(h) >= 4: seen.add(k); out.append(h)
        if len(out) >= n: break
    os.remove(cfg)
    random.Random(seed).shuffle(out)
    return out[:n]

def good_args(rng, kind):
    ch = rng.choice([1, 2, 2, 3, 6]); rate = rng.choice([8000, 16000, 22050, 32000, 44100, 48000])
    if kind == 'vbr': return f'{ch} {rate} {rng.choice([0, 300, 500, 900])}'
    nom = {8000: 16000, 16000: 32000, 22050: 48000, 32000: 64000, 44100: 96000, 48000: 112000}[rate] * (1 if ch < 3 else 2)
    return f'{ch} {rate} {rng.choice([-1, nom * 2])} {nom} {rng.choice([-1, nom // 2])}'
def bad_args(rng, kind):
    ch = rng.choice(CH); rate = rng.choice(RATES)
    if kind == 'vbr': return f'{ch} {rate} {rng.choice(QUAL)}'
    return f'{ch} {rate} {rng.choice(BR)} {rng.choice(BR)} {rng.choice(BR)}'

def scn_from_hist(rng, i, h):
    ls = []
    for st in h:
        op = st[0]
        if op == 'einit': ls.append('einit 0')
        elif op in ('vbr', 'man', 'ivbr', 'iman'):
            kind = op[-3:]; args = good_args(rng, kind) if st[1] == 'ok' else bad_args(rng, kind)
            ls.append(('e' if len(op) == 3 else 'ei') + kind + ' 0 ' + args)
        elif op == 'esetup': ls.append('esetup 0')
        elif op == 'ectl':
            w = st[1]
            pool = [c for c in CTLS_SET + CTLS_GET + CTLS_RAW if c.split()[0] == w]
            ls.append('ectl 0 ' + rng.choice(pool))
        elif op == 'eainit': ls.append('eainit 0')
        elif op == 'ehdr': ls.append('ehdr 0')
        elif op == 'ewrite': ls.append(f'ewrite 0 {rng.choice([1, 700, 5000])} {rng.choice([0, 1, 2])} 1024')
        elif op == 'eeof': ls.append('eeof 0')
        elif op == 'eclear': ls.append(f'eclear 0 {rng.choice(["bdci", "cbdi", "bdic", "bbddccii", "bdcii"])}')
    ls.append('eclear 0 bdci')
    return Scn(f'tla-{i}', ls, 'tla-lifecycle', budget=60, cost=len(ls) + 30)

def fam_args(rng, n, dense=False):
    """one-step and three-step set-up over the argument grid; on success: analysis_init, headers, some audio, decode of the result, clears"""
    out = []
    for i in range(n):
        managed = rng.random() < .4; one = rng.random() < .5
        ch = rng.choice(CH if rng.random() < .6 else [1, 2, 6]); rate = rng.choice(RATES if rng.random() < .8 else [44100, 8000])
        if managed:
            trip = [rng.choice(BR) for _ in range(3)]
            if rng.random() < .5:   # plausible triple around a nominal value
                nom = rng.choice([16000, 32000, 64000, 128000, 256000]); trip = [rng.choice([-1, nom, nom * 2]), nom, rng.choice([-1, nom, nom // 2])]
            setup = f"{'eiman' if one else 'eman'} 0 {ch} {rate} {trip[0]} {trip[1]} {trip[2]}"
        else:
            setup = f"{'eivbr' if one else 'evbr'} 0 {ch} {rate} {rng.choice(QUAL)}"
        ls = ['einit 0']
        ls.append(setup)
        if not one:
            for _ in range(rng.choice([0, 0, 1, 2, 4])): ls.append('ectl 0 ' + rng.choice(CTLS_SET + CTLS_GET + CTLS_RAW))
            ls.append('esetup 0')
        for _ in range(rng.choice([0, 1, 2])): ls.append('ectl 0 ' + rng.choice(CTLS_SET + CTLS_GET + CTLS_RAW))   # after set in stone
        if rng.random() < .1: ls.append('esetup 0')                                                            # second setup_init
        amount = rng.choice([0, 1, 5000]) if ch <= 17 else rng.choice([0, 1, 600])
        ls += ['eainit 0', 'ehdr 0'] + ([f'ewrite 0 {amount} {rng.choice([0, 1, 2, 3, 9, 9])} 2048'] if amount else []) + ['eeof 0']
        if rng.random() < .5: ls.append('dec 0 p 0 1')
        ls.append('eclear 0 ' + rng.choice(['bdci', 'bdcii', 'cbdi', 'bdic', 'bbddii']))
        out.append(Scn(f'arg-{i}', ls, 'argument-grid', budget=90, cost=40 + (amount * max(ch, 1)) // 100))
    return out

def fam_big(rng):
    ls = ['einit 0', 'eivbr 0 1 44100 300', 'eainit 0', 'ehdr 0', 'ewrite 0 3000000 2', 'eeof 0', 'eclear 0 bdci']
    return [Scn('one-piece-3000000', ls, 'large-piece', budget=120, cost=3000)]

def check_c15(pid, tier, seed, replay=None):
    if replay: return _replay(pid, replay, 'ench', *TRACE)
    t0 = time.time(); rng = random.Random(seed); q = tier == 'quick'
    bindir = vlib.build('asan')
    with ThreadPoolExecutor(max_workers=2) as ex:
        f1 = ex.submit(model_check); f2 = ex.submit(gen_histories, seed, 80 if q else 4000, 10 if q else 14)
        (mc, problems), hists = f1.result(), f2.result()
    extra_viol = []
    for kind, name, txt in problems:
        if kind == 'design':
            os.makedirs(vlib.REPLAY, exist_ok=True); p = os.path.join(vlib.REPLAY, f'{pid}-design-{name}.txt'); open(p, 'w').write(txt)
            extra_viol.append(dict(replay=p, what=f'design-level invariant violated in {name}'))
    scns = [scn_from_hist(rng, i, h) for i, h in enumerate(hists)] + fam_args(rng, 1200 if q else 160000) + fam_big(rng)
    res = run_batch(pid, scns, bindir, 'ench', *TRACE)
    if any(k == 'infra' for k, _, _ in problems): res['infra'].append('TLC failed on EncSetup_MC')
    def nontrivial(s, evs): return any(e.get('e') in ('SetupVbr', 'SetupManaged', 'InitVbr', 'InitManaged') for e in evs)
    nok = sum(1 for s in scns for e in res['scn_events'].get(s.name, []) if e.get('e') in ('InitVbr', 'InitManaged', 'SetupInit') and e.get('ret') == 0)
    nfail = sum(1 for s in scns for e in res['scn_events'].get(s.name, []) if e.get('e') in ('InitVbr', 'InitManaged', 'SetupVbr', 'SetupManaged', 'SetupInit') and e.get('ret') != 0)
    return finish(pid, tier, seed, 'exploration', scns, res, C15_RULES, t0,
                  'scenarios = TLC-simulated life-cycle histories of EncSetup_MC concretised with valid / boundary arguments + an argument grid (channels -1..300, rates around every template boundary up to 2^31-1, qualities incl. NaN/inf, bitrate triples, ctl requests before and after setup_init); on success analysis_init, headerout, 0/1/5000 samples, end of input, decode, clears in several orders; one single piece of 3,000,000 samples; non-trivial = a mode-selection call was made; distinct by script hash',
                  nontrivial, ['caller contract taken from the documentation: ctl only after a setup call; objects are cleared before the object they were initialised from (block, dsp, info), any number of times', 'sanitizers (ASan + UBSan subset), CPU budget and exit trap are observers inside the conformance run', 'argument values are drawn from boundary pools, not enumerated densely'],
                  CHECKER, extra_cov=dict(design_model=mc, setups_succeeded=nok, setups_refused=nfail, tla_histories=len(hists)), extra_viol=extra_viol,
                  sample_keys={'e', 'ch', 'rate', 'q', 'max', 'nom', 'min', 'ret', 'what', 'vch', 'vrate', 'vcs', 'stone', 'n'})

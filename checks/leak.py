"""C13 — clear functions release everything on success and on every error path (Own_MC + the three harness families)."""
import os, re, json, time, random
from concurrent.futures import ThreadPoolExecutor
import vlib
from checks import pipeline as P
from checks.pipeline import Scn
import checks.vfcommon as VC
import checks.vf as VF
import checks.pkt as PK
import checks.encsetup as ES
import checks.com as CM

RULES = {'ClearReleasesEverything', 'InfoClearEmptiesInfo', 'ClearReturnsZero', 'ClearZeroesHandle', 'CloseRunsExactlyOnceAtClear', 'CloseOnlyForOpenedHandles',
         'NoCloseBehindCaller', 'FailedOpenMustNotClose', 'OpenMustNotClose', 'FailedOpenLeavesHandleCleared', 'NoCrash', 'CallsTerminate', 'LibraryNeverExits', 'UnknownEvent'}
CHECKER = 'java -cp tla2tools.jar tlc2.TLC -workers 1 with Enc_Trace / Pkt_Trace / VFApi_Trace (TRACE=<ndjson>); design level: Own_MC.tla'

def model_and_orders(seed, n):
    r = vlib.run_tlc('Own_MC.tla', 'Own_MC.cfg', workers=2, timeout=300)
    mc = dict(states=r['distinct'], transitions=r['generated'], ok=bool(r['ok'])); problems = [] if r['ok'] else [('design' if r['violated'] else 'infra', 'Own_MC', r['out'][-2000:])]
    cfg = os.path.join(vlib.SPEC, f'.own_gen_{os.getpid()}.cfg')
    open(cfg, 'w').write('SPECIFICATION Spec\nCONSTANTS MaxLen = 12\n Gen = TRUE\nINVARIANT Export\nINVARIANT Released\nINVARIANT NoDoubleFree\nCHECK_DEADLOCK FALSE\n')
    g = vlib.run_tlc('Own_MC.tla', os.path.basename(cfg), workers=2, simulate=max(10, n // 2), depth=14, seed=seed * 13 + 1, timeout=300); os.remove(cfg)
    hs = []; seen = set()
    for m in re.findall(r'"HIST (\[.*\])"', g['out']):
        try: h = json.loads(m.replace('\\"', '"'))
        except Exception: continue
        k = json.dumps(h)
        if k not in seen: seen.add(k); hs.append(h)
    random.Random(seed).shuffle(hs)
    return mc, problems, hs[:n]

TEMPLATES = [  # every template family: mono, stereo, 5.1, uncoupled (ch 3,4,7,8 / coupling off), each rate band, VBR and managed
  (1, 8000, 'q', 300), (2, 8000, 'q', 0), (1, 11025, 'q', 500), (2, 11025, 'q', 100), (1, 16000, 'q', 400), (2, 16000, 'q', 900), (1, 22050, 'q', 200), (2, 22050, 'q', 700),
  (1, 32000, 'q', 300), (2, 32000, 'q', 1000), (1, 44100, 'q', -100), (2, 44100, 'q', 500), (6, 44100, 'q', 300), (6, 48000, 'q', 800), (3, 44100, 'q', 300), (4, 48000, 'q', 500),
  (7, 44100, 'q', 200), (8, 32000, 'q', 400), (2, 96000, 'q', 300), (2, 44100, 'm', (-1, 128000, -1)), (1, 44100, 'm', (-1, 64000, -1)), (6, 48000, 'm', (-1, 256000, -1)),
  (2, 22050, 'm', (64000, 48000, 32000)), (2, 8000, 'm', (-1, 16000, -1)), (5, 44100, 'q', 300), (255, 44100, 'q', 100),
]
BAD = ['eivbr 0 0 44100 300', 'eivbr 0 2 0 300', 'eivbr 0 2 44100 2000', 'eiman 0 2 44100 -1 -1 -1', 'eiman 0 2 44100 1 1 1', 'eivbr 0 256 44100 300', 'eiman 0 2 44100 32000 64000 128000',
       'eivbr 0 2 1 300', 'eiman 0 6 8000 -1 500000 -1', 'evbr 0 2 44100 300', 'eman 0 0 0 0 0 0']

def enc_from_order(rng, i, h):
    """an Own_MC history concretised on the encoder objects"""
    cfg = rng.choice(TEMPLATES); ls = []; stage = 0
    for st in h:
        if st[0] == 'init':
            o, ok = st[1], st[2]
            if o == 'i': ls += ['einit 0', (ES_setup(cfg) if ok else rng.choice(BAD))]
            elif o == 'd' and ok: ls += ['eainit 0']        # (a failing analysis_init cannot be provoked on a valid set-up: skipped)
            elif o == 'c': ls += ['ehdr 0']
            elif o == 'b' and rng.random() < .5: ls += [f'ewrite 0 {rng.choice([1, 600, 3000])} {rng.choice([0, 1, 2])} 1024'] + (['eeof 0'] if rng.random() < .5 else [])
        else: ls.append('eclear 0 bd' if st[1] == 'd' else f'eclear 0 {st[1]}')      # eainit initialises the block together with the dsp state: tear both down, block first
    ls.append('eclear 0 bdci')
    return Scn(f'enc-order-{i}', ls, 'encoder-clear-orders', budget=60, cost=len(ls) + 20)
def ES_setup(cfg):
    ch, rate, kind, a = cfg
    return f'eivbr 0 {ch} {rate} {a}' if kind == 'q' else f'eiman 0 {ch} {rate} {a[0]} {a[1]} {a[2]}'

def fam_templates(rng, full):
    out = []
    for i, cfg in enumerate(TEMPLATES):
        for variant in range(4 if full else 2):
            ls = ['einit 0']
            three = variant % 2 == 1
            if three: ls += [ES_setup(cfg).replace('eivbr', 'evbr').replace('eiman', 'eman')] + ([rng.choice(['ectl 0 cpset 0', 'ectl 0 lowset 12000', 'ectl 0 rm2null', 'ectl 0 ibset -50'])] if rng.random() < .6 else []) + ['esetup 0']
            else: ls += [ES_setup(cfg)]
            depth = rng.choice([0, 1, 2, 3])          # how far the encoder gets before it is torn down
            if depth >= 1: ls.append('eainit 0')
            if depth >= 2: ls.append('ehdr 0')
            if depth >= 3:
                amount = rng.choice([0, 1, 2500]) if cfg[0] < 100 else 300
                ls += ([f'ewrite 0 {amount} {rng.choice([0, 2, 3])} 1024'] if amount else []) + (['eeof 0'] if rng.random() < .7 else [])
            ls.append('eclear 0 ' + rng.choice(['bdci', 'bdcii', 'cbdi', 'bbddccii']))
            out.append(Scn(f'tmpl-{i}-{variant}-{cfg[0]}ch-{cfg[1]}-{cfg[2]}', ls, 'encoder-templates', budget=90, cost=30 + cfg[0]))
    for j, b in enumerate(BAD):
        out.append(Scn(f'rejected-{j}', ['einit 0', b, 'esetup 0', 'eclear 0 i', 'eclear 0 bdci'], 'encoder-rejected', budget=30))
    return out

def fam_pdh(rng, n, orders):
    out = []; HD = PK.HDRS
    muts = ['m=trunc:5', 'm=trunc:29', 'm=trunc:100', 'm=trunc:1500', 'm=flip:60', 'm=flip:220', 'm=flip:4000', 'm=flips:7:5', 'm=zero:20', 'm=zero:900', 'm=flip:9000', 'm=trunc:3000']
    for i in range(n):
        l = rng.choice([0, 1, 2, 4]); npre = rng.choice([0, 1, 2, 3, 3, 3]); ls = [f'pnew 0 {l}']
        bad = rng.randrange(0, 3) if rng.random() < .7 else -1
        for j in range(npre):
            ls.append(HD[j] + (' ' + rng.choice(muts) if j == bad else ''))
        if rng.random() < .8: ls.append('pinit 0')
        if rng.random() < .6: ls += ['psyn 0 0', 'psyn 0 1', 'pout 0', 'pread 0 -1', 'psyn 0 2 m=trunc:3', 'psyn 0 3']
        if orders and rng.random() < .7:
            h = rng.choice(orders)
            done = set()
            for st in h:
                if st[0] != 'clear': continue
                o = st[1]
                # keep the order legal for THIS scenario's objects: dependents go first
                if o == 'i' and 'd' not in done: ls.append('pclr 0 bd'); done |= {'b', 'd'}
                if o == 'd' and 'b' not in done: ls.append('pclr 0 b'); done.add('b')
                ls.append(f'pclr 0 {o}'); done.add(o)
        ls.append('pclr 0 ' + rng.choice(['bdci', 'bdcii', 'cbdi', 'bbddccii']))
        out.append(Scn(f'dec-{i}-L{l}-pre{npre}-bad{bad}', ls, 'decoder-header-prefixes', budget=30))
    return out

def fam_vf(rng, seed, quick):
    """failed and successful opens, failed seeks, double clears (vorbisfile): damaged streams, I/O faults during open, out-of-range seeks"""
    scs = []; C = VC
    base = ['B', 'C', 'D', 'E', 'I', 'N', 'K', 'T']
    npg = {'B': 45, 'C': 9, 'D': 9, 'E': 40, 'I': 9, 'N': 12, 'K': 60, 'T': 12}
    for i in range(120 if quick else 2400):
        b = base[i % len(base)]; key = f'L{i}'; C.FILES[key] = C.FILES[b]
        pre = VF.damage_lines(rng, key, npg[b], rng.choice([1, 1, 2, 3]))
        s = VF.fam_damaged(rng, key, f'leak-dmg{i}-{b}', rng.choice(['seek', 'seek', 'stream', 'test'])); s.pre = pre
        scs.append(s)
    # I/O faults at every callback position of an open (fault-free count is not needed: positions beyond the end simply never fire)
    for f in (['B', 'O'] if quick else ['B', 'O', 'E', 'K']):
        for kind in (1, 2, 4, 5):
            for k in (range(1, 40, 3) if quick else range(1, 120)):
                for persist in ((0,) if quick else (0, 1)):
                    ls = [f'fault 0 {kind} {k} {persist}', f'open 0 {VC.fid(f)} seek', 'rf 0 4096', 'ps 0 e:5', 'ps 0 f:0:1:2:0', 'rf 0 64', 'clear 0', 'clear 0']
                    scs.append(VC.Scenario(f'leak-flt-{f}-k{kind}-at{k}-p{persist}', [f], ls, 'open-fault', budget=10, tags=('fault',)))
    return scs

def check_c13(pid, tier, seed, replay=None):
    if replay:
        prog = 'vfh' if 'open ' in open(replay).read() else ('pdh' if 'pnew ' in open(replay).read() else 'ench')
        tr = {'vfh': ('VFApi_Trace.tla', 'VFApi_Trace.cfg'), 'pdh': PK.TRACE, 'ench': ES.TRACE}[prog]
        return P.replay(pid, replay, prog, *tr)
    t0 = time.time(); rng = random.Random(seed); q = tier == 'quick'
    bindir = vlib.build('asan')
    mc, problems, orders = model_and_orders(seed, 60 if q else 1500)
    extra_viol = []
    for kind, name, txt in problems:
        if kind == 'design':
            os.makedirs(vlib.REPLAY, exist_ok=True); p = os.path.join(vlib.REPLAY, f'{pid}-design-{name}.txt'); open(p, 'w').write(txt)
            extra_viol.append(dict(replay=p, what='design-level invariant violated in Own_MC'))
    enc = [enc_from_order(rng, i, h) for i, h in enumerate(orders)] + fam_templates(rng, not q)
    dec = fam_pdh(rng, 150 if q else 20000, orders)
    import checks.syn as SY
    syn_cases, _, _ = SY.gen_cases(('mutations', 'shapes'))       # set-up headers refused (or accepted) at every part of the syntax, written by TLC from Setup.tla
    dec += SY.build_scenarios(rng, syn_cases, 1)
    vfs = fam_vf(rng, seed, q)
    cms = CM.fam_random(rng, 30 if q else 600) + CM.fam_random(rng, 1 if q else 10, big=True)
    with ThreadPoolExecutor(max_workers=4) as ex:
        f4 = ex.submit(P.run_batch, pid + 'c', cms, bindir, 'cmh', *CM.TRACE, nproc=3)
        f1 = ex.submit(P.run_batch, pid + 'e', enc, bindir, 'ench', *ES.TRACE, nproc=6)
        f2 = ex.submit(P.run_batch, pid + 'd', dec, bindir, 'pdh', *PK.TRACE, prelude=PK.prelude([0, 1, 2, 4]), nproc=5)
        f3 = ex.submit(VC.run_batch, pid + 'v', tier, vfs, bindir, nproc=5 if q else 12)
        r1, r2, r3, r4 = f1.result(), f2.result(), f3.result(), f4.result()
    res = dict(events=0, viols=[], drifts=[], states=0, transitions=0, infra=[], scn_events={}, traces=0, harness_s=0, tlc_s=0)
    for r in (r1, r2, r3, r4):
        for k in ('events', 'states', 'transitions', 'traces', 'harness_s', 'tlc_s'): res[k] += r[k]
        res['viols'] += r['viols']; res['infra'] += r['infra']; res['scn_events'].update(r['scn_events']); res['drifts'] += r.get('drifts', [])
    if any(k == 'infra' for k, _, _ in problems): res['infra'].append('TLC failed on Own_MC')
    scns = enc + dec + vfs + cms
    for s_ in dec: s_.prelude = PK.prelude([0, 1, 2, 4])
    for s in vfs:                      # vorbisfile scenarios carry their file definitions
        s.prelude = VC.bind_ids('\n'.join(VC.prelude(s.files) + list(getattr(s, 'pre', None) or [])), s.files).split('\n')
    def nontrivial(s, evs):   # something was allocated and everything was cleared at the end
        end = [e for e in evs if e.get('e') == 'End']
        return bool(end) and (end[-1].get('objleft', end[-1].get('openleft', 1)) == 0) and len(evs) >= 4
    nfail = sum(1 for s in scns for e in res['scn_events'].get(s.name, []) if (e.get('e') in ('Open', 'InitVbr', 'InitManaged', 'SetupInit', 'HeaderIn', 'SynthInit') and e.get('ret', 0) != 0))
    return P.finish(pid, tier, seed, 'exploration', scns, res, RULES, t0,
                    'scenarios = (a) encoder: every template family (mono, stereo, 5.1, uncoupled, every rate band, VBR and managed, 255 channels) torn down after set-up / analysis_init / headerout / some audio, rejected set-ups, and clear orders generated by TLC from Own_MC; (b) packet decoder: header prefixes of length 0..3 with a corruption in one header, synthetic set-up headers with one field across its boundary in every part of the syntax (Setup.tla), optional init and decode, TLC-generated clear orders, repeated clears; (c) comment sets of up to 3000 entries built, written, read back and cleared; (d) vorbisfile: damaged streams opened seekable / streaming / via ov_test, I/O faults at successive callback positions of an open, failed seeks, double clear; the ASan allocator reports the bytes still live after the last clear, the close callback is counted; non-trivial = the scenario ended with every object cleared; distinct by script hash',
                    nontrivial, ['live bytes = __sanitizer_get_current_allocated_bytes() delta over the scenario (child process)', 'objects are cleared before the object they were initialised from (block, dsp, info); any number of repeats',
                                 'double frees are ASan reports (NoCrash)'],
                    CHECKER, extra_cov=dict(design_model=mc, clear_orders_from_tla=len(orders), failing_calls_observed=nfail, encoder_scenarios=len(enc), decoder_scenarios=len(dec), vorbisfile_scenarios=len(vfs)),
                    extra_viol=extra_viol, sample_keys={'e', 'ret', 'live', 'objleft', 'openleft', 'cl', 'mode', 'which', 'mut', 'ch', 'rate'})

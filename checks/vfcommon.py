"""Common pipeline of the vorbisfile-family checks:
   scenario scripts -> harness (real code, ASan/UBSan) -> ndjson traces -> TLC (VFApi_Trace) -> verdict + evidence."""
import os, sys, json, time, hashlib, random, re, shutil, subprocess
from concurrent.futures import ThreadPoolExecutor
import vlib

# ---------------------------------------------------------------- catalogue
LINKS = {
  0:  '2 44100 30 20000 1',
  1:  '1 22050 10 9000 2',
  2:  '2 48000 50 700 3',
  3:  '1 8000 0 0 4',
  4:  '1 44100 50 1 5',
  5:  '2 32000 -10 50000 6',
  6:  '1 44100 30 3000 7',
  7:  '6 48000 40 12000 8',
  8:  '2 44100 60 400000 9',
  9:  '1 11025 20 30000 10',
  10: '2 44100 30 63 11',
  11: '1 16000 100 5000 12',
  12: '3 44100 40 8000 13',
  13: '2 44100 0 15000 14 managed=-1,64000,-1',
  14: '1 44100 40 150000 15 sig=3',
  15: '2 22050 70 2500 16',
  16: '1 48000 20 257 17',
  17: '2 44100 30 20000 18 bs0=6',
  18: '1 22050 10 6000 19 bs0=7',
  19: '2 44100 30 6000 20',
  20: '2 44100 30 20000 21 trim=96,2',     # first page announces 32 samples but decodes to 128: begin-trimmed
  21: '1 22050 40 7000 22 trim=200,3',
  22: '1 44100 30 1501 23',                 # odd length, all audio on one page
  23: '2 32000 20 2999 24',
}
FILES = {
  'A': '0',
  'B': '0:ppp=2,3 1:ppp=1 2',
  'C': '3 4 10',
  'D': '6 3 6:s=77',
  'E': '7 5:mux=1 6:mux=2',
  'F': '8:ppp=1',
  'G': '8',
  'H': '0:pad=5=70000:ppp=1 1',
  'I': '2 2:s=5 2:s=6',
  'J': '0:g=5000 1:g=123:ppp=3',
  'K': '9:ppp=4,1 12:hs=1',
  'L': '13 11:ppp=2',
  'M': '14:ppp=7 15',
  'N': '16 4 16:s=9:ppp=1',
  'O': '1',
  'P': '6:ppp=1 6:s=8:ppp=2 6:s=9 6:s=10:ppp=3 6:s=11 6:s=12:ppp=1,2',
  'Q': '5:pad=3=66000:pad=4=66000 0:ppp=1',
  'R': '17:ppp=2 1',
  'S': '0:ppp=3 17 18:ppp=1',
  'T': '19 6',
  'U': '19:ppp=2',
  'V': '20:ppp=2',
  'X': '6 21:ppp=3 20:ppp=2:s=31',
  # long stretches without a granule position of the link's stream (what the page bisection has to cope with, VFSeek.tla)
  'ZA': '6:ppp=10,1:pad=10=130018',                   # first guess of the targets 2994.. lands exactly one probe step behind the start of the data
  'ZB': '6:pad=0=70000',                              # the first audio page ends no packet
  'ZC': '0:ppp=2,3 6:pad=0=70000:mux=1 6:s=9',
  'ZD': '1 6:ppp=10,1:pad=10=130019:s=77 2',
  'ZE': '6:ppp=4,1,255:pad=4=150000',
  'ZF': '0:ppp=3:pad=9=200000:mux=2',
  'ZG': '22',                                          # half rate: ceil(N/2) on a link whose first audio page is also its last
  'ZH': '6 23',
  # links that consist of their headers only (zero samples, no audio page at all), in the middle, doubled, first and last
  'ZI': '6 3:noaud=1 6:s=77',
  'ZJ': '6 3:noaud=1 3:noaud=1:s=5 0:ppp=2',
  'ZK': '3:noaud=1 6',
  'ZM': '2 3:noaud=1:mux=1 6 3:noaud=1:s=9',
  'Y': '6:s=-1 1:s=2147483647 2:s=-2147483648 6:s=0',     # extreme serial numbers (0xFFFFFFFF on a non-final link)
}

def links_of(fkey):
    return [int(tok.split(':')[0]) for tok in FILES[fkey].split()]

def nlinks(fkey): return len(FILES[fkey].split())

class Scenario:
    def __init__(self, name, files, lines, family, budget=20, tags=()):
        self.name = name; self.files = list(files); self.lines = lines; self.family = family; self.budget = budget; self.tags = set(tags)
        # automatic tags used by known-finding signatures
        for f in self.files:
            spec = FILES.get(f, '')
            if 'mux=' in spec: self.tags.add('mux')
            if 'pad=' in spec: self.tags.add('spanpkt')
        if any(l.startswith('sr ') or l.startswith('fault 0 3 ') for l in lines): self.tags.add('shortread')
    def text(self):
        out = [f'scn {self.name} budget={self.budget}'] + [f'use {fid(f)}' for f in self.files] + self.lines + ['end']
        return '\n'.join(out)
    def key(self):
        return hashlib.sha1(('\n'.join(self.files)+'\n'.join(self.lines)).encode()).hexdigest()

def prelude(files, extra_lines=()):
    ls = sorted(set(l for f in files for l in links_of(f)))
    out = [f'link {l} {LINKS[l]}' for l in ls]
    for f in sorted(set(files)):
        out.append(f'file {fid(f)} {FILES[f]}')
    out += list(extra_lines)
    return out

def fid(f): return f'@F{f}@'      # placeholder, bound to a per-script numeric id by bind_ids

def bind_ids(text, files):
    m = {f:i for i,f in enumerate(sorted(set(files)))}
    if len(m) > 500: raise SystemExit('too many files in one script')
    return re.sub(r'@F(\w+)@', lambda x: str(m[x.group(1)]), text)

# ---------------------------------------------------------------- running
def run_batch(pid, tier, scenarios, bindir, extra_prelude=None, nproc=None, dmg_lines=None):
    """Distribute scenarios over script files, run harness + TLC in parallel.
       Returns dict(events=total events, scn_events={name:[events]}, viols=[...], tlc=[...], infra_errors=[...])"""
    nproc = nproc or min(vlib.NCPU, 16)
    rundir = os.path.join(vlib.BUILD, 'run', pid)
    shutil.rmtree(rundir, ignore_errors=True); os.makedirs(rundir, exist_ok=True)
    os.makedirs(os.path.join(vlib.BUILD,'tlc'), exist_ok=True)
    # group by file set so that expensive links are encoded few times; then round-robin
    buckets = [[] for _ in range(nproc)]
    order = sorted(range(len(scenarios)), key=lambda i: (tuple(sorted(scenarios[i].files)), i))
    # big files (link 8, 14) pinned to few buckets
    cost = [0]*nproc
    for i in order:
        s = scenarios[i]
        heavy = any(l in (8,14) for f in s.files for l in links_of(f))
        if heavy:
            cand = [b for b in range(nproc) if any(any(l in (8,14) for f in x.files for l in links_of(f)) for x in buckets[b])]
            if len(cand) < max(2, nproc//3): cand = list(range(nproc))
        else:
            cand = list(range(nproc))
        b = min(cand, key=lambda b: cost[b])
        buckets[b].append(s); cost[b] += len(s.lines) + (30 if heavy else 3)
    jobs = []
    for b, scs in enumerate(buckets):
        if not scs: continue
        files = sorted(set(f for s in scs for f in s.files))
        lines = prelude(files)
        if dmg_lines: lines += dmg_lines
        for s in scs:
            if getattr(s,'pre',None): lines += s.pre
            lines.append(s.text())
        sp = os.path.join(rundir, f'b{b}.txt'); open(sp,'w').write(bind_ids('\n'.join(lines)+'\n', files))
        jobs.append((b, sp, os.path.join(rundir, f'b{b}.ndjson'), scs))
    def work(job):
        b, sp, tp, scs = job
        t0 = time.time()
        rc = vlib.run_harness(bindir, 'vfh', sp, tp, timeout=max(120, sum(s.budget for s in scs)))
        t1 = time.time()
        r = vlib.validate_trace('VFApi_Trace.tla', 'VFApi_Trace.cfg', tp, timeout=1500)
        if r['error']:   # infrastructure hiccup: retry once
            r = vlib.validate_trace('VFApi_Trace.tla', 'VFApi_Trace.cfg', tp, timeout=1500)
        return (b, rc, r, t1-t0, time.time()-t1)
    with ThreadPoolExecutor(max_workers=nproc) as ex:
        results = list(ex.map(work, jobs))
    out = dict(events=0, viols=[], states=0, transitions=0, infra=[], scn_events={}, traces=0, harness_s=0, tlc_s=0, rundir=rundir)
    jobmap = {j[0]: j for j in jobs}
    for b, rc, r, th, tt in results:
        _, sp, tp, scs = jobmap[b]
        out['harness_s'] += th; out['tlc_s'] += tt
        evs = vlib.read_ndjson(tp) if os.path.exists(tp) else []
        out['events'] += len(evs)
        if rc not in (0,):
            out['infra'].append(f'harness rc={rc} for {sp}: ' + open(tp+'.stderr').read()[-600:])
        if r['error'] or not r['ok']:
            if r['violated']:
                out['infra'].append(f'TLC invariant/postcondition violated on {tp}: ' + r['out'][-1500:])
            else:
                out['infra'].append(f'TLC error on {tp}: ' + r['out'][-1500:])
        out['states'] += r['distinct']; out['transitions'] += r['generated']
        # scenario boundaries by line
        starts = [(i+1, e.get('scn')) for i,e in enumerate(evs) if e.get('e')=='Reset']
        for k,(ln,name) in enumerate(starts):
            end = starts[k+1][0]-1 if k+1 < len(starts) else len(evs)
            out['scn_events'][name] = evs[ln-1:end]
        out['traces'] += len(starts)
        st = [int(x) for x in re.findall(r'"STAT \{\\"nbl\\":(\d+)\}"', r['out'])]
        out['nbl'] = out.get('nbl', 0) + (max(st) if st else 0)
        for m in re.finditer(r'"VIOL (\{.*\})"', r['out']):
            try:
                v = json.loads(m.group(1).replace('\\"','"'))
            except Exception:
                continue
            v['trace'] = tp; v['script'] = sp
            if 1 <= v['line'] <= len(evs): v['event'] = evs[v['line']-1]
            out['viols'].append(v)
    return out

# ---------------------------------------------------------------- known findings
def _spanning(scn): return 'spanpkt' in scn.tags     # files holding packets that span pages (a pad= option in the layout)

def _pred_early_page_landing(v, scn):
    """page-granularity seek succeeded, landed at or before the target and the audio is consistent, but earlier than the
       last page boundary before the target; only on streams with page-spanning packets"""
    e = v.get('event', {})
    if e.get('ret') != 0: return False
    tgt = e.get('pos', e.get('expect'))
    if tgt is None: return False
    # ... and the page the seek should settle on is nothing but the tail of a packet begun earlier (field bc, computed by the harness from the page table)
    return e.get('tell', 1<<40) <= tgt and _spanning(scn) and e.get('bc') == 1
PREDS = {'early_page_landing': _pred_early_page_landing}

def kf_matches(entry, v, scn):
    """entry['key'] = 'rule=R;family~regex;ev=E;ret=N' ; all given parts must match."""
    for part in entry.get('key','').split(';'):
        part = part.strip()
        if not part: continue
        if '~' in part and '=' not in part.split('~')[0]:
            k, rx = part.split('~',1)
            val = scn.family if k=='family' else (scn.name if k=='scn' else str(v.get('event',{}).get(k,'')))
            if not re.search(rx, str(val)): return False
        elif '=' in part:
            k, val = part.split('=',1)
            if k == 'rule':
                if val not in v['rules']: return False
            elif k == 'pred':
                if not PREDS[val](v, scn): return False
            elif k == 'ev':
                if v.get('ev') != val: return False
            elif k == 'tag':
                if val not in scn.tags: return False
            else:
                if str(v.get('event',{}).get(k)) != val: return False
    return True

def adjudicate(pid, viols, scenarios, rules_owned):
    """Split violations into (new, known) for this property. rules_owned: set or None(all)."""
    byname = {s.name: s for s in scenarios}
    known = [k for k in vlib.load_known() if k.get('status')=='known' and k.get('property')==pid]
    new = []; kn = {}; other = []
    for v in viols:
        s = byname.get(v.get('scn'))
        if s is None: new.append((v, v['rules'])); continue
        mine = [r for r in v['rules'] if rules_owned is None or r in rules_owned]
        if not mine: other.append(v); continue
        rest = []
        for r in mine:
            v1 = dict(v); v1['rules'] = [r]
            hit = next((k for k in known if kf_matches(k, v1, s)), None)
            if hit: kn.setdefault(hit['key'], []).append(v1)
            else: rest.append(r)
        if rest: new.append((v, rest))
    return new, kn, other, known

def write_replay(pid, v, scenarios, tag):
    os.makedirs(vlib.REPLAY, exist_ok=True)
    s = next((x for x in scenarios if x.name == v.get('scn')), None)
    p = os.path.join(vlib.REPLAY, f'{pid}-{tag}.txt')
    with open(p,'w') as f:
        if s:
            t = '\n'.join(prelude(s.files))+'\n'
            if getattr(s,'pre',None): t += '\n'.join(s.pre)+'\n'
            f.write(bind_ids(t + s.text()+'\n', s.files))
        f.write('# violated: ' + json.dumps({k:v[k] for k in v if k not in ('trace','script')})[:3000] + '\n')
    return p

def finish(pid, tier, seed, level, scenarios, res, rules_owned, t0, rule_desc, nontrivial_fn, assumptions, extra_cov=None, extra_viol=None):
    """Adjudicate, print VIOLATION/KNOWN-FINDING lines, write evidence; return exit code."""
    new, kn, other, known = adjudicate(pid, res['viols'], scenarios, rules_owned)
    rc = 0
    for key, vs in kn.items():
        k = next(x for x in known if x['key']==key)
        print(f"KNOWN-FINDING: property={pid} {k['what']} [{len(vs)} occurrence(s), key {key}]")
    seen = set(); nviol = 0
    for v, rules in new:
        sig = (v.get('scn'), tuple(rules))
        if sig in seen: continue
        seen.add(sig); nviol += 1
        if nviol <= 12:
            p = write_replay(pid, v, scenarios, f"{nviol}")
            print(f"VIOLATION property={pid} replay={p}")
            print(f"  scenario {v.get('scn')} line {v.get('line')} event {v.get('ev')} rules {rules} :: {json.dumps(v.get('event',{}))[:400]}")
        rc = 1
    for xv in (extra_viol or []):
        nviol += 1; rc = 1
        print(f"VIOLATION property={pid} replay={xv.get('replay','-')}")
        print(f"  {xv.get('what')}")
    if res['infra']:
        for m in res['infra'][:5]: vlib.log('[infra] '+m)
        if rc == 0: rc = 2
    # evidence
    nt = set(); samples = []
    for s in scenarios:
        evs = res['scn_events'].get(s.name, [])
        if nontrivial_fn(s, evs): nt.add(s.key())
    for s in scenarios[:1] + scenarios[len(scenarios)//2:len(scenarios)//2+1] + scenarios[-1:]:
        evs = res['scn_events'].get(s.name, [])
        samples.append(dict(scenario=s.name, family=s.family, files={f: FILES[f] for f in s.files}, script=s.lines[:40],
                            trace=[{k:e[k] for k in e if k in ('e','ret','pos','tell','t0','ta','id','len','mode','flag','kind','at')} for e in evs[:25]]))
    cov = dict(states=max(1,res['states']), transitions=max(1,res['transitions']), traces_validated_against_impl=res['traces'],
               samples=samples, evaluations=res['events'], distinct_nontrivial=len(nt), rule=rule_desc,
               scenarios=len(scenarios), families=sorted(set(s.family for s in scenarios)),
               violations_other_rules=len(other), known_findings_seen={k:len(v) for k,v in kn.items()},
               lap_blend_reads_judged=res.get('nbl', 0),
               harness_cpu_s=round(res['harness_s'],1), tlc_cpu_s=round(res['tlc_s'],1),
               checker_cmd='java -cp tla2tools.jar tlc2.TLC -workers 1 -config VFApi_Trace.cfg VFApi_Trace.tla (TRACE=<ndjson>)')
    if extra_cov: cov.update(extra_cov)
    dm = (extra_cov or {}).get('design_model')
    if isinstance(dm, dict) and 'states' in dm:
        cov['states'] += dm['states']; cov['transitions'] += dm.get('transitions', 0)
    vlib.write_evidence(pid, tier, seed, level, cov, time.time()-t0, nviol, assumptions)
    print(f"[{pid}] tier={tier} scenarios={len(scenarios)} events={res['events']} distinct_nontrivial={len(nt)} violations={nviol} known={sum(len(v) for v in kn.values())} blend_judged={res.get('nbl',0)} other_rule_notes={len(other)} wall={time.time()-t0:.1f}s")
    return rc

"""Encoder-side checks: C04 (round trip preserves the sample count), C05 (encoder output is a valid stream)."""
import os, re, json, time, random, glob
from concurrent.futures import ThreadPoolExecutor
import vlib
from checks.pipeline import Scn, run_batch, finish
from checks.pipeline import replay as _replay

TRACE = ('Enc_Trace.tla', 'Enc_Trace.cfg')
CHECKER = 'java -cp tla2tools.jar tlc2.TLC -workers 1 -config Enc_Trace.cfg Enc_Trace.tla (TRACE=<ndjson>); design level: Block_MC.tla with Block_MC_<bs0>_<bs1>_<hs>.cfg'

C04_RULES = {'GranulesNeverDecrease', 'GranuleIsSampleEnd', 'EosOnlyOnLastPacket', 'EosOnlyAfterEndOfInput', 'LastGranuleIsN', 'ExactlyOneEos',
             'RoundTripCount', 'SamplesPerPacket', 'VorbisfileOpens', 'PcmTotalIsN', 'LinearReadDeliversN', 'WroteSucceeds', 'PacketDecodes',
             'HeadersAccepted', 'SynthesisInitSucceeds', 'HalfRateAccepted', 'AnalysisInitSucceedsAfterSetup', 'HeaderOutSucceeds',
             'NoCrash', 'CallsTerminate', 'LibraryNeverExits', 'UnknownEvent'}
C05_RULES = {'DecoderConsumesWhatTheSpecificationDefines', 'AudioPacketParses', 'AudioPacketEndsInItsLastByte', 'AudioPacketSelectsWhatTheEncoderReports', 'IdHeaderParses', 'IdHeaderConveysInfo', 'SetupHeaderParses', 'SetupHeaderHasNoTrailingBytes', 'SetupHeaderWellFormed', 'AudioPacketHeaderValid', 'WindowFlagsAgree', 'PacketNumbersSequential', 'PacketNotEmpty', 'HeadersAccepted', 'HeaderConveysInfo',
             'IdHeaderMatchesInfo', 'PacketDecodes', 'ConsumedToLastByte', 'NeverRunsOutOfBits', 'TruncationOnlyUnderHardMax', 'PaddingOnlyUnderHardMin',
             'SynthesisInitSucceeds', 'HeaderOutSucceeds', 'NoRateManagerWhenSwitchedOff', 'AddBlockReturnsZero', 'ChoiceInRange', 'NoCrash', 'CallsTerminate', 'LibraryNeverExits', 'UnknownEvent'}

def block_mc(tier):
    """Exhaustive composition encoder blocking x decoder blocking (Block_MC)."""
    cfgs = ['Block_MC_8_8_0.cfg', 'Block_MC_8_16_0.cfg', 'Block_MC_8_32_0.cfg', 'Block_MC_8_16_1.cfg'] if tier == 'quick' else sorted(os.path.basename(c) for c in glob.glob(os.path.join(vlib.SPEC, 'Block_MC_*.cfg')))
    def run(c): return c, vlib.run_tlc('Block_MC.tla', c, workers=4, timeout=1500)
    with ThreadPoolExecutor(max_workers=4) as ex: rs = list(ex.map(run, cfgs))
    # witness: the end of the stream is reachable (otherwise Last / RoundTrip would be vacuous)
    wcfg = os.path.join(vlib.SPEC, f'.blk_w_{os.getpid()}.cfg')
    open(wcfg, 'w').write('SPECIFICATION Spec\nCONSTANTS BS0 = 8\n BS1 = 16\n MaxN = 20\n MaxPiece = 9\n HS = 0\n Gen = FALSE\nINVARIANT NotDone\nCHECK_DEADLOCK FALSE\n')
    w = vlib.run_tlc('Block_MC.tla', os.path.basename(wcfg), workers=1, timeout=300); os.remove(wcfg)
    stats = dict(states=0, transitions=0, runs={}); problems = []
    for c, r in rs:
        stats['runs'][c] = dict(ok=bool(r['ok']), distinct=r['distinct'], generated=r['generated'], wall=round(r['wall'], 1))
        stats['states'] += r['distinct']; stats['transitions'] += r['generated']
        if r['violated']: problems.append(('design', c, r['out'][-2500:]))
        elif not r['ok']: problems.append(('infra', c, r['out'][-600:]))
    if not w['violated']: problems.append(('vacuous', 'NotDone', 'end of stream not reachable in the bounded model'))
    return stats, problems

def gen_partitions(seed, n):
    """TLC simulation of Block_MC (Gen): sequences of piece sizes in model units (bs0 = 8)."""
    out = []
    def one(i):
        bs1 = (8, 16, 32, 64)[i % 4]
        cfg = os.path.join(vlib.SPEC, f'.blk_gen_{os.getpid()}_{i}.cfg')
        open(cfg, 'w').write(f'SPECIFICATION Spec\nCONSTANTS BS0 = 8\n BS1 = {bs1}\n MaxN = {(40, 120, 300, 700)[i % 4]}\n MaxPiece = {(9, 33, 97, 257)[i % 4]}\n HS = 0\n Gen = TRUE\nINVARIANT Export\nINVARIANT RoundTrip\nCHECK_DEADLOCK FALSE\n')
        r = vlib.run_tlc('Block_MC.tla', os.path.basename(cfg), workers=1, simulate=max(3, n // 3), depth=80, seed=seed * 31 + i, timeout=200); os.remove(cfg)
        return [json.loads(m.replace('\\"', '"')) for m in re.findall(r'"HIST (\{.*\})"', r['out'])]
    with ThreadPoolExecutor(max_workers=4) as ex:
        for o in ex.map(one, range(4)): out += o
    seen = set(); res = []
    for h in out:
        k = json.dumps(h)
        if k not in seen: seen.add(k); res.append(h)
    random.Random(seed).shuffle(res)
    return res[:n]

# (ch, rate, kind, args): kind 'q' quality*1000 | 'm' (max, nom, min)
CONFIGS = [
  (1, 44100, 'q', 300), (2, 44100, 'q', 500), (2, 48000, 'q', -100), (1, 8000, 'q', 0), (1, 11025, 'q', 400), (2, 16000, 'q', 1000),
  (2, 22050, 'q', 200), (3, 32000, 'q', 600), (6, 48000, 'q', 400), (8, 44100, 'q', 100), (2, 96000, 'q', 500), (1, 192000, 'q', 300),
  (17, 44100, 'q', 300), (2, 44100, 'm', (-1, 128000, -1)), (1, 22050, 'm', (40000, 32000, 24000)), (2, 44100, 'm', (64000, 64000, 64000)),
  (2, 9000, 'q', 300), (1, 15000, 'q', 900), (2, 19000, 'q', 100), (2, 26000, 'q', 700), (1, 40000, 'q', 0), (2, 50000, 'q', 500),
]
BIGCH = (255, 44100, 'q', 300)

def setup_lines(cfg, one_step=True):
    ch, rate, kind, a = cfg
    if kind == 'q': return ['einit 0', f'eivbr 0 {ch} {rate} {a}'] if one_step else ['einit 0', f'evbr 0 {ch} {rate} {a}', 'esetup 0']
    return ['einit 0', f'eiman 0 {ch} {rate} {a[0]} {a[1]} {a[2]}'] if one_step else ['einit 0', f'eman 0 {ch} {rate} {a[0]} {a[1]} {a[2]}', 'esetup 0']

def bs_of(rate, kind='q'):
    # nominal block sizes of the bundled templates (only used to place interesting lengths; the model takes the real sizes from the trace)
    if rate < 9000: return (512, 512) if False else (512, 1024)
    if rate < 19000: return (512, 1024) if rate < 15000 else (256, 2048) if False else (512, 1024)
    if rate < 26000: return (512, 1024)
    return (256, 2048)

def interesting_N(rng, bs0, bs1, n):
    c = [0, 1, 2, 3]
    for b in (bs0 // 4, bs0 // 2, bs0, bs1 // 4, bs1 // 2, bs1, bs1 + bs0 // 2, 2 * bs1, 3 * bs1, 3 * bs1 + bs0):
        c += [b - 1, b, b + 1]
    c += [rng.randint(4, 10 * bs1) for _ in range(12)]
    c = sorted(set(x for x in c if x >= 0)); rng.shuffle(c)
    return c[:n]

def dec_lines(rng, full=False):
    ls = ['dec 0 p 0 1']
    if full or rng.random() < .5: ls.append(f'dec 0 p 0 {rng.choice([2, 3, 5, 9])}')
    if full or rng.random() < .4: ls.append(f'dec 0 p 1 {rng.choice([1, 3])}')
    ls.append(f'dec 0 f {rng.choice([0, 0, 1, 2, 7])}')
    if full: ls.append('dec 0 f 1')
    return ls

def fam_lengths(rng, nconf, nper, full=False):
    out = []
    cfgs = list(CONFIGS); rng.shuffle(cfgs)
    for ci, cfg in enumerate(cfgs[:nconf]):
        bs0, bs1 = bs_of(cfg[1])
        for N in interesting_N(rng, bs0, bs1, nper):
            sig = rng.choice([0, 0, 1, 2, 3, 9])
            chunk = rng.choice([N if N > 0 else 1, 1, 7, 64, 333, 1024, 4096, bs1 * 3 + 5])
            if chunk < 16 and N > 3000: chunk = 333
            ls = setup_lines(cfg, rng.random() < .7) + ['eainit 0', 'ehdr 0']
            if N > 0: ls.append(f'ewrite 0 {N} {sig} {chunk}')
            ls += ['eeof 0'] + dec_lines(rng, full) + ['eclear 0 bdci']
            out.append(Scn(f'len-{cfg[0]}ch-{cfg[1]}-{cfg[2]}{cfg[3] if cfg[2]=="q" else "m"}-N{N}-c{chunk}-s{sig}', ls, 'length-grid', budget=60, cost=20 + N * cfg[0] // 200))
    return out

def fam_partitions(rng, hists):
    out = []
    for i, h in enumerate(hists):
        cfg = rng.choice(CONFIGS[:12]); bs0, _ = bs_of(cfg[1]); f = max(1, bs0 // 8)
        ls = setup_lines(cfg) + ['eainit 0', 'ehdr 0']; sig = rng.choice([0, 1, 3, 9])
        for p in h['pieces']:
            n = max(1, p * f + rng.choice([-1, 0, 0, 1]))
            ls.append(f'ewrite 0 {n} {sig}')
        ls += ['eeof 0'] + dec_lines(rng) + ['eclear 0 bdci']
        out.append(Scn(f'tla-part-{i}', ls, 'tla-partition', budget=60, cost=20 + h['n'] * f // 100))
    return out

def fam_bigch(rng):
    ls = setup_lines(BIGCH) + ['eainit 0', 'ehdr 0', f'ewrite 0 {rng.choice([1, 300, 2500])} 1 512', 'eeof 0', 'dec 0 p 0 1', 'dec 0 f 0', 'eclear 0 bdci']
    return [Scn('len-255ch', ls, 'length-grid', budget=120, cost=400)]

def check_c04(pid, tier, seed, replay=None):
    if replay: return _replay(pid, replay, 'ench', *TRACE)
    t0 = time.time(); rng = random.Random(seed); q = tier == 'quick'
    bindir = vlib.build('asan')
    with ThreadPoolExecutor(max_workers=2) as ex:
        f1 = ex.submit(block_mc, tier); f2 = ex.submit(gen_partitions, seed, 24 if q else 800)
        (mc, problems), hists = f1.result(), f2.result()
    extra_viol = []
    for kind, name, txt in problems:
        if kind == 'design':
            os.makedirs(vlib.REPLAY, exist_ok=True); p = os.path.join(vlib.REPLAY, f'{pid}-design-{name}.txt'); open(p, 'w').write(txt)
            extra_viol.append(dict(replay=p, what=f'design-level invariant violated in {name} (transcription of block.c admits a bad state)'))
        else: vlib.log(f'[{pid}] {kind}: {name}: {txt[:300]}')
    scns = fam_lengths(rng, 8 if q else len(CONFIGS), 7 if q else 120, full=not q) + fam_partitions(rng, hists) + fam_bigch(rng)
    res = run_batch(pid, scns, bindir, 'ench', *TRACE)
    if any(k == 'infra' for k, _, _ in problems): res['infra'].append('TLC failed on a design-level run')
    def nontrivial(s, evs):  # an end-to-end count was actually compared
        return any(e.get('e') in ('DecDone', 'VfTotal') for e in evs) and any(e.get('e') == 'EncDone' for e in evs)
    Ns = sorted(set(e['N'] for s in scns for e in res['scn_events'].get(s.name, []) if e.get('e') == 'EncDone'))
    return finish(pid, tier, seed, 'model_checking', scns, res, C04_RULES, t0,
                  'scenarios = (encoder configuration x length N x partition into wrote() pieces x signal) from a grid around block-size multiples, TLC-simulated partitions of Block_MC and a 255-channel case; each is encoded, then decoded through the packet API (all / every k-th granule position kept, full and half rate) and through vorbisfile (several paginations); non-trivial = an end-of-stream was reached and at least one decoded total was compared with N; distinct by script hash',
                  nontrivial,
                  ['the envelope search (which block size comes next) is the environment of the model: any answer it could give; the real encoder decides by signal',
                   'TLC, libogg, ASan build of the current tree'],
                  CHECKER, extra_cov=dict(design_model=mc, distinct_lengths=len(Ns), tla_partitions=len(hists), exhaustive=False), extra_viol=extra_viol,
                  sample_keys={'e', 'n', 'ret', 'W', 'lW', 'nW', 'gp', 'eos', 'no', 'bytes', 'N', 'total', 'read', 'k', 'hs', 'used'})

# ---------------------------------------------------------------- C05
MAN_CTL = [None, (1, 0, 0, 64, 1500, 128000, 100), (1, 64, 64, 64, 1500, 16000, 500), (1, 0, 48, 0, 1500, 4000, 200), (1, 40, 0, 0, 1500, 6000, 900), (1, 32, 96, 64, 500, 30000, 0)]

def fam_signals(rng, n, nsamp, npk=6):
    out = []
    sigs = list(range(10))
    for i in range(n):
        sig = sigs[i % 10]; cfg = rng.choice(CONFIGS[:16]) if i >= 10 else CONFIGS[i % 6]
        if i % 8 == 3: cfg = rng.choice([c for c in CONFIGS if c[2] == 'm'])
        man = cfg[2] == 'm'; r = rng.random()
        if man and (i % 8 == 3 or r < .3):
            # a managed mode with hard limits whose management is switched off again before the set-up is frozen
            nom = cfg[3][1]
            ls = ['einit 0', f'eman 0 {cfg[0]} {cfg[1]} {nom*2} {nom} {nom//2}',
                  rng.choice(['ectl 0 rm2null', 'ectl 0 rm2set 0 0 0 0 1500 4000 100', f'ectl 0 rm2set 0 {nom//2000} {nom//500} 0 1500 4000 100']), 'esetup 0']
            sig = rng.choice([2, 9, 1, 6])
        elif man and r < .75:
            ctl = rng.choice(MAN_CTL[1:])
            ls = ['einit 0', f'eman 0 {cfg[0]} {cfg[1]} {cfg[3][0]} {cfg[3][1]} {cfg[3][2]}', 'ectl 0 rm2get', 'ectl 0 rm2set ' + ' '.join(map(str, ctl)), 'esetup 0']
        elif not man and r < .3:
            # bitrate management switched on over a quality-selected mode
            ls = ['einit 0', f'evbr 0 {cfg[0]} {cfg[1]} {cfg[3]}', 'ectl 0 rm2set ' + ' '.join(map(str, rng.choice(MAN_CTL[1:]))), 'esetup 0']
        else:
            ls = setup_lines(cfg, rng.random() < .5)
        if rng.random() < .3 and ls[-1] == 'esetup 0':
            ls.insert(-1, rng.choice(['ectl 0 cpset 0', 'ectl 0 lowset 9000', 'ectl 0 ibset -80', 'ectl 0 lowset 30000']))
        N = rng.choice([nsamp, nsamp // 2, nsamp * 2])
        ls += ['eainit 0', f'ehdr 0 dump {npk}', f'ewrite 0 {N} {sig} {rng.choice([1024, 4096, 500])}', 'eeof 0', 'dec 0 p 0 1', 'eclear 0 bdci']
        out.append(Scn(f'sig{sig}-{i}-{cfg[0]}ch-{cfg[1]}', ls, 'signal-x-config', budget=120, cost=20 + N * cfg[0] // 150))
    return out

# submaps and sparse books: the 5.1 set-ups are the only bundled ones with two submaps (the LFE has its own), the low-rate low-quality ones the only
# ones whose residue books have unused entries that tonal material reaches; channels silent on their own decide what is coded per submap
TONAL_CONFIGS = [(2, 22050, 'q', 0), (2, 16000, 'q', -100), (2, 11025, 'q', -100), (1, 11025, 'q', -100), (1, 16000, 'q', 0), (2, 8000, 'q', -100), (2, 22050, 'q', -100), (1, 8000, 'q', 100)]
SURROUND_CONFIGS = [(6, 44100, 'q', 100), (6, 48000, 'q', 600), (6, 48000, 'q', -100), (6, 44100, 'q', 400), (6, 32000, 'q', 300), (5, 44100, 'q', 300), (6, 48000, 'q', 900)]
def fam_structure(rng, n, nsamp, npk=6):
    out = []
    combos = [(c, 10) for c in TONAL_CONFIGS] + [(c, sg) for c in SURROUND_CONFIGS for sg in (11, 12, 13, 10)]
    rng.shuffle(combos)
    # every quick run sees at least one of each kind
    combos.sort(key=lambda cs: 0 if cs in (((2, 22050, 'q', 0), 10), ((6, 44100, 'q', 100), 11), ((6, 48000, 'q', 600), 13)) else 1)
    for i, (cfg, sg) in enumerate(combos[:n]):
        ls = setup_lines(cfg, i % 2 == 0) + ['eainit 0', f'ehdr 0 dump {npk}', f'ewrite 0 {nsamp} {sg} 4096', 'eeof 0', 'dec 0 p 0 1', 'eclear 0 bdci']
        out.append(Scn(f'struct-{i}-sig{sg}-{cfg[0]}ch-{cfg[1]}-q{cfg[3]}', ls, 'tonal-and-silent-channels', budget=120, cost=20 + nsamp * cfg[0] // 150))
    return out

STARVED_CTL = [(1, 0, 0, 40, 1500, 2000, 500), (1, 0, 0, 40, 1500, 1000, 1000), (1, 0, 0, 32, 1500, 4000, 0), (1, 0, 0, 24, 500, 500, 900), (1, 0, 0, 48, 100, 8, 500), (1, 0, 0, 16, 1500, 0, 0)]
def fam_starved(rng, n, nsamp, npk=6):
    """average-only management (NO hard limit) starved far below what the signal needs, with small reservoirs at every bias: the floater bottoms out at the
       smallest candidate packet, and that packet must still be complete (only a hard maximum may truncate)"""
    out = []
    bases = [['eman 0 2 44100 -1 128000 -1'], ['evbr 0 2 44100 500'], ['eman 0 1 22050 -1 32000 -1'], ['evbr 0 1 44100 900'], ['eman 0 2 32000 -1 96000 -1']]
    combos = [(b, c, sg) for b in bases for c in STARVED_CTL for sg in (1, 7, 3, 4)]
    rng.shuffle(combos)
    for i, (b, c, sg) in enumerate(combos[:n]):
        ls = ['einit 0'] + b + ['ectl 0 rm2set ' + ' '.join(map(str, c)), 'esetup 0', 'eainit 0', f'ehdr 0 dump {npk}', f'ewrite 0 {nsamp} {sg} 4096', 'eeof 0', 'dec 0 p 0 1', 'eclear 0 bdci']
        out.append(Scn(f'starved-{i}-sig{sg}', ls, 'starved-average-no-limit', budget=120, cost=20 + nsamp // 75))
    return out

def strict_reader(res):
    """second validation: SetupParse_Trace reads the identification and setup packets the encoder emitted (bytes in the HeaderOut events) with the strict
       TLA+ reader and judges them with IdOK / SetupOK; its verdicts join the violations of the run"""
    import glob
    tps = sorted(glob.glob(os.path.join(res['rundir'], 'b*.ndjson')))
    def val(tp): return tp, vlib.validate_trace('AudioRead_Trace.tla', 'AudioRead_Trace.cfg', tp, timeout=2400)
    with ThreadPoolExecutor(max_workers=8) as ex: rs = list(ex.map(val, tps))
    out = dict(headers_read=0, books=0, bits=0, audio_packets_read=0, states=0)
    for tp, r in rs:
        if r['error'] or not r['ok']: res['infra'].append(f'TLC problem (AudioRead_Trace) on {tp}: ' + r['out'][-600:]); continue
        out['states'] += r['distinct']; evs = vlib.read_ndjson(tp)
        for m in re.finditer(r'"PARSED (\{.*\})"', r['out']):
            try: v = json.loads(m.group(1).replace('\\"', '"'))
            except Exception: continue
            out['headers_read'] += 1; out['books'] += v['books']; out['bits'] += v['bits']
        out['audio_packets_read'] += sum(int(x) for x in re.findall(r'PACKETS (\d+)', r['out']))
        for m in re.finditer(r'"VIOL (\{.*\})"', r['out']):
            try: v = json.loads(m.group(1).replace('\\"', '"'))
            except Exception: continue
            v['trace'] = tp; v['script'] = tp[:-7] + '.txt'
            if 1 <= v['line'] <= len(evs): v['event'] = {k: x for k, x in evs[v['line'] - 1].items() if k not in ('idbytes', 'setupbytes', 'pbytes')}
            res['viols'].append(v)
    return out

def check_c05(pid, tier, seed, replay=None):
    if replay: return _replay(pid, replay, 'ench', *TRACE)
    t0 = time.time(); rng = random.Random(seed); q = tier == 'quick'
    bindir = vlib.build('asan')
    mc, problems = block_mc('quick')
    extra_viol = []
    for kind, name, txt in problems:
        if kind == 'design':
            os.makedirs(vlib.REPLAY, exist_ok=True); p = os.path.join(vlib.REPLAY, f'{pid}-design-{name}.txt'); open(p, 'w').write(txt)
            extra_viol.append(dict(replay=p, what=f'design-level invariant violated in {name}'))
    scns = fam_signals(rng, 40 if q else 1500, 12000 if q else 40000, 6 if q else 12) + fam_starved(rng, 8 if q else 120, 16000 if q else 60000, 6 if q else 12) + fam_structure(rng, 6 if q else 36, 16000 if q else 60000, 6 if q else 12)
    # design level of the strict readers, alongside the encodes: reader o writer = identity on every generated set-up and packet (Setup_MC), fast = declarative codewords (Codebook_MC)
    def readers_mc():
        out = {}
        for mod, cfg in (('Setup_MC.tla', 'Setup_MC_reader.cfg'), ('Codebook_MC.tla', 'Codebook_MC.cfg')):
            r = vlib.run_tlc_cached(mod, cfg, workers=10, timeout=1500); out[cfg] = r
        return out
    with ThreadPoolExecutor(max_workers=2) as ex0:
        frm = ex0.submit(readers_mc)
        res = run_batch(pid, scns, bindir, 'ench', *TRACE, nproc=10)
        rmc = frm.result()
    for cfg, r in rmc.items():
        mc['states'] = mc.get('states', 0) + r['distinct']; mc['transitions'] = mc.get('transitions', 0) + r['generated']; mc.setdefault('readers', {})[cfg] = dict(ok=bool(r['ok']), states=r['distinct'])
        if r['violated']:
            os.makedirs(vlib.REPLAY, exist_ok=True); p = os.path.join(vlib.REPLAY, f'{pid}-design-{cfg}.txt'); o = r['out']; i = o.find('Error:'); open(p, 'w').write(o[max(0, i):i + 4000])
            extra_viol.append(dict(replay=p, what=f'design-level invariant violated under {cfg} (the strict reader does not invert the writer, or the fast codeword assignment differs from the declarative one)'))
        elif not r['ok']: res['infra'].append(f'TLC failed on {cfg}: ' + r['out'][-600:])
    strict = strict_reader(res)
    def nontrivial(s, evs): return sum(1 for e in evs if e.get('e') == 'DecPkt') >= 3
    npk = sum(1 for s in scns for e in res['scn_events'].get(s.name, []) if e.get('e') == 'DecPkt')
    nlong = sum(1 for s in scns for e in res['scn_events'].get(s.name, []) if e.get('e') == 'Pkt' and e.get('W') == 1)
    ntr = sum(1 for s in scns for e in res['scn_events'].get(s.name, []) if e.get('e') == 'AddBlock' and e['bytes'] != e['sz'][e['choice']])
    return finish(pid, tier, seed, 'model_checking', scns, res, C05_RULES, t0,
                  'scenarios = signal family (noise, silence, impulses, full scale, DC, denormals, beyond +-1, tones, alternations) x encoder configuration (VBR qualities, ABR, CBR, max-only, min-only, ctl settings) + average-only management starved below the need of the signal with small reservoirs (no hard limit: nothing may be truncated); every header and audio packet is fed to the real decoder and the bits it consumed are logged; non-trivial = at least 3 audio packets were decoded and checked; distinct by script hash',
                  nontrivial,
                  ['the identification and setup packets of every run are read by the strict TLA+ reader (SetupParse.tla: to the last bit, IdOK, SetupOK, same channels / rate / block sizes as the info structure) and accepted by the real decoder; the comment packet is checked through the decoder and C16',
                   'TLC, libogg, ASan build of the current tree'],
                  CHECKER, extra_cov=dict(design_model=mc, strict_reader=strict, audio_packets_checked=npk, long_packets=nlong, truncated_or_padded=ntr, exhaustive=False), extra_viol=extra_viol,
                  sample_keys={'e', 'W', 'lW', 'nW', 'gp', 'eos', 'no', 'bytes', 'used', 'rs', 'rb', 'n', 'k', 'ret', 'managed', 'type', 'mode'})

"""C01 — decoder conformance on synthetic set-ups written by TLC from Setup.tla (header acceptance, initialisation, sample counts for every
   block-size pair, silence of silent spectra); the same cases feed C02 (memory safety on boundary-value headers)."""
import os, re, json, time, random
from concurrent.futures import ThreadPoolExecutor
import vlib
from checks.pipeline import Scn, run_batch, finish
from checks.pipeline import replay as _replay
import checks.pkt as PK

TRACE = PK.TRACE
CHECKER = PK.CHECKER + '; generator: Setup_MC.tla with Setup_MC_{sizes,shapes,mutations}.cfg'
C01_RULES = PK.C01_RULES | {'RefusedInitStaysRefused', 'Locality', 'LocalityCount', 'PacketBitsConsumed', 'SameSpectrumSamePcm', 'FloorPostsAsSpecified', 'FloorCurveAsSpecified', 'ResidueAsSpecified', 'CouplingAsSpecified', 'FloorProductAsSpecified'}

def gen_cases(families=('sizes', 'shapes', 'mutations', 'residue')):
    out = {}; stats = dict(states=0, transitions=0, runs={})
    # what TLC writes depends on the specification files only: the output of a successful run is kept under build/cache, keyed by a digest of /verif/spec
    import hashlib, glob
    dig = hashlib.sha256()
    for fn in sorted(glob.glob(os.path.join(vlib.SPEC, '*.tla')) + glob.glob(os.path.join(vlib.SPEC, 'Setup_MC_*.cfg'))): dig.update(fn.encode()); dig.update(open(fn, 'rb').read())
    cdir = os.path.join(vlib.BUILD, 'cache'); os.makedirs(cdir, exist_ok=True)
    def run(f):
        cf = os.path.join(cdir, f'setupmc-{f}-{dig.hexdigest()[:20]}.json')
        if os.path.exists(cf) and not os.environ.get('VERIF_NOCACHE'):
            try: return f, json.load(open(cf))
            except Exception: pass
        r = vlib.run_tlc('Setup_MC.tla', f'Setup_MC_{f}.cfg', workers=(14 if f == 'residue' else 2), timeout=900)
        if r['ok']:
            tmp = cf + f'.{os.getpid()}'; json.dump({k: r[k] for k in ('ok', 'violated', 'out', 'distinct', 'generated')}, open(tmp, 'w')); os.replace(tmp, cf)
        return f, r
    with ThreadPoolExecutor(max_workers=3) as ex: rs = list(ex.map(run, families))
    problems = []
    for f, r in rs:
        cases = []
        for m in re.findall(r'"CASE (\{.*\})"', r['out']):
            try: cases.append(json.loads(m.replace('\\"', '"')))
            except Exception: pass
        out[f] = cases; stats['runs'][f] = dict(ok=bool(r['ok']), cases=len(cases), distinct=r['distinct'])
        stats['states'] += r['distinct']; stats['transitions'] += r['generated']
        if r['violated']: problems.append(('design', f, r['out'][-2000:]))
        elif not r['ok']: problems.append(('infra', f, r['out'][-800:]))
    return out, stats, problems

def gen_books(tier):
    """Codebook_MC: exhaustive design check of the codeword assignment + one decode test per length list"""
    me, ml = (4, 3) if tier == 'quick' else (5, 4)
    cfg = os.path.join(vlib.SPEC, f'.cb_{os.getpid()}.cfg')
    open(cfg, 'w').write(f'SPECIFICATION Spec\nCONSTANTS MaxEntries = {me}\n MaxLenBits = {ml}\n Gen = TRUE\nINVARIANT OverIffKraft\nINVARIANT CarryChainAgrees\nINVARIANT FastAgrees\nINVARIANT PrefixFree\nINVARIANT RoundTrip\nINVARIANT FirstIsZero\nINVARIANT ModelAgrees\nINVARIANT Export\nCHECK_DEADLOCK FALSE\n')
    r = vlib.run_tlc('Codebook_MC.tla', os.path.basename(cfg), workers=6, timeout=2400); os.remove(cfg)
    cases = []
    for m in re.findall(r'"CASE (\{.*\})"', r['out']):
        try: cases.append(json.loads(m.replace('\\"', '"')))
        except Exception: pass
    st = dict(ok=bool(r['ok']), cases=len(cases), distinct=r['distinct'], generated=r['generated'], max_entries=me, max_len=ml)
    pr = [('design', 'Codebook_MC', r['out'][-2000:])] if r['violated'] else ([] if r['ok'] else [('infra', 'Codebook_MC', r['out'][-800:])])
    return cases, st, pr

def toks(fields): return ' '.join(f'{v}:{n}' for v, n in fields)

def scn_from_case(rng, fam, i, c, nrand=3, probes=True):
    bs0, bs1 = 1 << c['e0'], 1 << c['e1']
    ls = [f"snew 0 {bs0} {bs1} {c['ch']}", f"shdr 0 0 {1 if c['idok'] else 0} {toks(c['id'])}", 'scom 0', f"shdr 0 2 {1 if c['ok'] else 0} {toks(c['setup'])}", 'pinit 0']
    if not c['ok']: ls.append('pinit 0')      # a set-up the decoder may refuse only when it builds its codebooks: asked twice, it must refuse twice
    k = 0
    for a in c['audio']:
        probe = (f"fx={','.join(map(str, a['fit']))} yx={','.join(map(str, a['yc']))} " if (a.get('fit') and probes) else '')
        if probes and a.get('rv') and len(a['rv']) <= 4 and len(a['rv'][0]) <= 256:
            probe += 'rx=' + '/'.join(','.join(map(str, ch)) for ch in a['rv']) + ' cx=' + '/'.join(','.join(map(str, ch)) for ch in a['cv']) + ' '
            if a.get('pv'): probe += 'px=' + '/'.join((','.join('.'.join(map(str, t)) for t in ch) if ch else 'x') for ch in a['pv']) + ' '
        ls.append(f"saud 0 {k} {a['W']} -1 0 {'ns ' if a.get('ns') else ''}{probe}{toks(a['f'])}"); k += 1
    for j in range(nrand if fam != 'books' else 1):
        ls.append(f'srand 0 {k} {rng.randrange(1 << 30)} {rng.choice([1, 2, 7, 40, 300])} -1'); k += 1
    if c['audio'] and fam not in ('books', 'residue'):
        a = c['audio'][0]; ls.append(f"saud 0 {k} {a['W']} -1 0 {toks(a['f'])}"); k += 1
        a = c['audio'][1]; ls.append(f"saud 0 {k} {a['W']} -1 1 {toks(a['f'])}"); k += 1
    tw = c.get('twin') or {}
    if fam == 'residue' and tw.get('ok') and tw.get('audio'):
        # the twin set-up: same classes and residue values, one classification word per partition; same spectrum => bit-identical PCM
        ls2 = [f"snew 0 {bs0} {bs1} {c['ch']}", f"shdr 0 0 1 {toks(c['id'])}", 'scom 0', f"shdr 0 2 1 {toks(c['setup'])}", 'pinit 0',
               f"snew 1 {bs0} {bs1} {c['ch']}", f"shdr 1 0 1 {toks(c['id'])}", 'scom 1', f"shdr 1 2 1 {toks(tw['setup'])}", 'pinit 1']
        for k2, (a, b) in enumerate(zip(c['audio'], tw['audio'])):
            ls2 += [f"saud 0 {k2} {a['W']} -1 0 ns {toks(a['f'])}", f"saud 1 {k2} {b['W']} -1 0 ns {toks(b['f'])}", 'stwin 0 1']
        ls2 += ['pclr 0 bdci', 'pclr 1 bdci']
        return Scn(f"{fam}-{i}-twin-res{'x'.join(map(str, c.get('res', [])))}-{c['ch']}ch-{bs0}-{bs1}", ls2, 'synthetic-residue-twins', budget=20, cost=20)
    ls += ['plap 0', 'prest 0', 'pclr 0 bdci', 'pclr 0 bdci']
    tag = ('-res' + 'x'.join(map(str, c['res']))) if fam == 'residue' and c.get('res') else ''
    return Scn(f"{fam}-{i}-{c['name']}{tag}-{c['ch']}ch-{bs0}-{bs1}", ls, 'synthetic-' + fam, budget=20, cost=10 + c['ch'] // 4)

def build_scenarios(rng, cases, nrand, probes=True):
    scns = []
    for fam, cs in cases.items():
        for i, c in enumerate(cs): scns.append(scn_from_case(rng, fam, i, c, nrand, probes))
    return scns

def header_verdicts(res):
    """second validation: HdrVerdict_Trace compares the strict reader's verdict on every dumped (bit-flipped) setup header with the decoder's"""
    import glob
    tps = [tp for tp in sorted(glob.glob(os.path.join(res['rundir'], 'b*.ndjson'))) if any('"setupbytes"' in l for l in open(tp))]
    def val(tp): return tp, vlib.validate_trace('HdrVerdict_Trace.tla', 'HdrVerdict_Trace.cfg', tp, timeout=1500)
    with ThreadPoolExecutor(max_workers=8) as ex: rs = list(ex.map(val, tps))
    out = dict(judged_valid=0, judged_invalid=0, accepted_though_refused_by_reader=0, states=0)
    for tp, r in rs:
        if r['error'] or not r['ok']: res['infra'].append(f'TLC problem (HdrVerdict_Trace) on {tp}: ' + r['out'][-600:]); continue
        out['states'] += r['distinct']; evs = vlib.read_ndjson(tp)
        for m in re.finditer(r'"JUDGED (\{.*\})"', r['out']):
            try: v = json.loads(m.group(1).replace('\\"', '"')); out['judged_valid'] += v['valid']; out['judged_invalid'] += v['invalid']
            except Exception: pass
        out['accepted_though_refused_by_reader'] += len(re.findall(r'"DRIFT ', r['out']))
        for m in re.finditer(r'"VIOL (\{.*\})"', r['out']):
            try: v = json.loads(m.group(1).replace('\\"', '"'))
            except Exception: continue
            v['trace'] = tp; v['script'] = tp[:-7] + '.txt'
            if 1 <= v['line'] <= len(evs): v['event'] = {k: x for k, x in evs[v['line'] - 1].items() if k not in ('idbytes', 'setupbytes')}
            res['viols'].append(v)
    return out

def check_c01(pid, tier, seed, replay=None):
    if replay: return _replay(pid, replay, 'pdh', *TRACE)
    t0 = time.time(); rng = random.Random(seed); q = tier == 'quick'
    bindir = vlib.build('asan')
    with ThreadPoolExecutor(max_workers=3) as ex:
        f1 = ex.submit(gen_cases); f2 = ex.submit(PK.model_check, tier); f3 = ex.submit(gen_books, tier)
        (cases, gstats, problems), (mc, mcproblems), (books, bstats, bproblems) = f1.result(), f2.result(), f3.result()
    cases['books'] = books; gstats['runs']['books'] = bstats; gstats['states'] += bstats['distinct']; gstats['transitions'] += bstats['generated']; problems = problems + bproblems
    extra_viol = []
    for kind, name, txt in problems + mcproblems:
        if kind == 'design':
            os.makedirs(vlib.REPLAY, exist_ok=True); p = os.path.join(vlib.REPLAY, f'{pid}-design-{name}.txt'); open(p, 'w').write(txt)
            extra_viol.append(dict(replay=p, what=f'design-level problem in {name} (a set-up of a well-formed family is not well-formed, or the blocking machine leaves the ring)'))
    scns = build_scenarios(rng, cases, 2 if q else 12)
    # the residue family once more without twins (bits consumed per packet, restart, lapout)
    for i, c in enumerate(cases.get('residue', [])):
        c2 = dict(c); c2['twin'] = None; scns.append(scn_from_case(rng, 'residue', 1000 + i, c2, 1))
    # real encoder-made streams: per-packet counts of clean decodes in full and half rate (count clause on real set-ups)
    _, _, links, na, gps, pr = PK._common(pid, tier, seed)
    for l in (links if not q else links[:6]):
        for hs in (0, 1):
            if l == 4 and hs: continue
            ls = PK.opening(l, hs) + sum(([f'psyn 0 {k}' + ('' if (k % 3 == 2 or k == na.get(l, 1) - 1) else ' gp=-1'), 'pout 0', 'pread 0 -1'] for k in range(na.get(l, 0))), []) + ['pclr 0 bdci']
            scns.append(Scn(f'real-L{l}-hs{hs}', ls, 'real-stream-counts', budget=30, cost=len(ls)))
    # encoder-made setup headers, one to three bits away from the original: the strict reader (SetupParse.tla) and the decoder must agree on those the reader finds well-formed
    nflip = 96 if q else 6000
    flips = []
    for i in range(nflip):
        l = rng.choice([0, 1, 2, 3, 6] if q else links); nb = 40000
        mut = f'm=flip:{rng.randrange(56, nb)}' if i % 4 else f'm=flips:{rng.randrange(100000)}:{rng.choice([2, 3])}'
        ls = [f'pnew 0 {l}', 'phdr 0 0', 'phdr 0 1', f'phdr 0 2 {mut} dump', 'pinit 0', 'psyn 0 0', 'pout 0', 'pread 0 -1', 'psyn 0 1', 'pout 0', 'pread 0 -1', 'psyn 0 2', 'pout 0', 'pread 0 -1', 'pclr 0 bdci']
        flips.append(Scn(f'hdrflip-{i}-L{l}', ls, 'real-header-bit-flips', budget=30, cost=25))
    for s_ in scns + flips: s_.prelude = PK.prelude(links)
    def flip_run():
        r = run_batch(pid + 'h', flips, bindir, 'pdh', *TRACE, prelude=PK.prelude(links), nproc=6); return r, header_verdicts(r)
    with ThreadPoolExecutor(max_workers=2) as ex0:
        ff = ex0.submit(flip_run)
        res = run_batch(pid, scns, bindir, 'pdh', *TRACE, prelude=PK.prelude(links), nproc=12)
        fres, verdicts = ff.result()
    for k in ('events', 'states', 'transitions', 'traces', 'harness_s', 'tlc_s'): res[k] += fres[k]
    for k in ('viols', 'drifts', 'infra'): res[k] += fres[k]
    res['scn_events'].update(fres['scn_events']); scns += flips
    res['infra'] += pr['infra']
    if any(k == 'infra' for k, _, _ in problems + mcproblems): res['infra'].append('TLC failed on a generator / design-level run')
    def nontrivial(s, evs): return any(e.get('e') == 'SynthInit' and e.get('ret') == 0 for e in evs) and sum(1 for e in evs if e.get('e') == 'Synthesis' and e.get('rs') == 0) >= 3
    nacc = sum(1 for s in scns for e in res['scn_events'].get(s.name, []) if e.get('e') == 'HeaderIn' and e.get('syn') == 1 and e.get('which') == 2 and e.get('ret') == 0)
    nrej = sum(1 for s in scns for e in res['scn_events'].get(s.name, []) if e.get('e') == 'HeaderIn' and e.get('syn') == 1 and e.get('which') == 2 and e.get('ret') != 0)
    pairs = sorted(set((c['e0'], c['e1']) for c in cases.get('sizes', [])))
    return finish(pid, tier, seed, 'model_checking', scns, res, C01_RULES, t0,
                  'scenarios = synthetic streams whose identification / setup headers and audio packets are written by TLC from Setup.tla as <<value,bits>> lists: every block-size pair 2^6..2^13 (1 and 2 channels), a family of shapes (residue 0/1/2 with and without stages, ordered / sparse / single-entry / lattice / explicit-value books, floor 0 and floor 1, two submaps with coupling, three modes, 255 channels, floor 1 without partitions) and one-field boundary mutations; codebooks: every length list over 0..3 bits with up to 4 entries (thorough: 0..4 bits, 5 entries) as the book through which floor-1 posts are read, with packets spelling chosen entries codeword by codeword; residue decode: types 0/1/2 x 1-2 channels x coupling x partition sizes with a variable-length classification book, two classes with different cascades and fixed / variable-length value books, floor 1 with class sub-books, packets written by walking the reading order of AudioPacket.tla, each also through a twin set-up that carries the same classes and residue values with one classification word per partition (same spectrum => bit-identical PCM), and with the floor\'s integer domain probed (posts after unwrapping, dB-table index at every bin) against Floor1.tla; the real decoder must accept and initialise every set-up the model calls well-formed, deliver exactly the spec\'s count for every packet of every short/long transition, exact silence for silent spectra, and consume exactly the bits of the codewords the model wrote; plus clean decodes of encoder-made streams in full and half rate; plus encoder-made setup headers one to three bit flips away from the original, on which the verdict of the strict TLA+ reader (SetupParse.tla + SetupOK) is compared with the decoder\'s (headerin + synthesis_init): what the reader finds well-formed must be accepted; non-trivial = the decoder initialised and decoded at least 3 packets; distinct by script hash',
                  nontrivial,
                  ['claimed: header acceptance of well-formed set-ups, initialisation, per-packet sample counts (every window transition, all 36 size pairs), exact silence; NOT decided: sample values of non-silent spectra (float arithmetic, section 6)',
                   'audio packets are silent-floor packets and pseudo-random bit strings; codeword-level packet synthesis (AudioPacket.tla) is not built', 'TLC, libogg, ASan build of the current tree'],
                  CHECKER, extra_cov=dict(design_model=mc, generator=gstats, real_header_verdicts=verdicts, setups_accepted=nacc, setups_refused=nrej, blocksize_pairs=len(pairs)), extra_viol=extra_viol,
                  sample_keys={'e', 'which', 'mut', 'ret', 'k', 'W', 'rs', 'rb', 'n', 'cmp', 'avail', 'used', 'bs0', 'bs1', 'ch'})

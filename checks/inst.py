"""C18 — independent codec instances do not interfere; results are reproducible (Instances.tla)."""
import os, re, json, time, random, shutil, subprocess
from concurrent.futures import ThreadPoolExecutor
import vlib
from checks.pipeline import Scn, finish
from checks.pipeline import replay as _replay

TRACE = ('Inst_Trace.tla', 'Inst_Trace.cfg')
CHECKER = 'java -cp tla2tools.jar tlc2.TLC -workers 1 -config Inst_Trace.cfg Inst_Trace.tla (TRACE=<ndjson>); design level: Instances.tla / Instances.cfg'
RULES = {'OutputEqualsSolo', 'OutputIndependentOfHeapContents', 'FpuStateRestored', 'ProgramCompletes', 'NoCrashOrRace', 'CallsTerminate', 'LibraryNeverExits', 'UnknownEvent'}
NP, STEPS = 5, 10

def model_and_schedules(seed, n):
    r = vlib.run_tlc('Instances.tla', 'Instances.cfg', workers=4, timeout=300)
    mc = dict(states=r['distinct'], transitions=r['generated'], ok=bool(r['ok'])); problems = [] if r['ok'] else [('design' if r['violated'] else 'infra', 'Instances', r['out'][-1500:])]
    cfg = os.path.join(vlib.SPEC, f'.inst_gen_{os.getpid()}.cfg')
    open(cfg, 'w').write(f'SPECIFICATION Spec\nCONSTANTS NP = {NP}\n Steps = {STEPS}\n Gen = TRUE\nINVARIANT Export\nINVARIANT Confluent\nCHECK_DEADLOCK FALSE\n')
    g = vlib.run_tlc('Instances.tla', os.path.basename(cfg), workers=2, simulate=max(4, n // 2), depth=NP * STEPS + 2, seed=seed * 19 + 3, timeout=300); os.remove(cfg)
    hs = []; seen = set()
    for m in re.findall(r'"HIST (\[.*\])"', g['out']):
        try: h = json.loads(m)
        except Exception: continue
        if tuple(h) not in seen: seen.add(tuple(h)); hs.append(h)
    return mc, problems, hs[:n]

def structured_schedules(rng):
    """corner interleavings TLC's random walks rarely produce: strictly serial in every order of two, fine-grained round robin, one program stalled to the very end"""
    out = []
    out.append([p for p in range(NP) for _ in range(STEPS)]); out.append([p for p in reversed(range(NP)) for _ in range(STEPS)])
    out.append([p for _ in range(STEPS) for p in range(NP)]); out.append([p for _ in range(STEPS) for p in reversed(range(NP))])
    for stalled in range(NP):
        rest = [p for _ in range(STEPS) for p in range(NP) if p != stalled]; out.append([stalled] + rest + [stalled] * (STEPS - 1))
    for a in range(NP):
        for b in range(NP):
            if a < b: out.append(sum(([a, b] for _ in range(STEPS)), []))
    return out

def run_one(bindir, prog, script_lines, tag, env=None, timeout=600):
    rundir = os.path.join(vlib.BUILD, 'run', 'C18'); os.makedirs(rundir, exist_ok=True)
    sp = os.path.join(rundir, f'{tag}.txt'); tp = os.path.join(rundir, f'{tag}.ndjson')
    open(sp, 'w').write('\n'.join(script_lines) + '\n')
    rc = vlib.run_harness(bindir, prog, sp, tp, timeout=timeout, env=env)
    return rc, sp, tp

def check_c18(pid, tier, seed, replay=None):
    if replay: return _replay(pid, replay, 'insth', *TRACE)
    t0 = time.time(); rng = random.Random(seed); q = tier == 'quick'
    shutil.rmtree(os.path.join(vlib.BUILD, 'run', 'C18'), ignore_errors=True)
    bindir = vlib.build('asan')
    mc, problems, scheds = model_and_schedules(seed, 40 if q else 3000)
    scheds = structured_schedules(rng) + scheds
    extra_viol = []
    for kind, name, txt in problems:
        if kind == 'design':
            os.makedirs(vlib.REPLAY, exist_ok=True); p = os.path.join(vlib.REPLAY, f'{pid}-design.txt'); open(p, 'w').write(txt)
            extra_viol.append(dict(replay=p, what='design-level invariant violated in Instances'))
    scns = []; jobs = []
    # (1) dictated interleavings, baton enforced (ASan build)
    per = 8
    for i in range(0, len(scheds), per):
        name = f'baton-{i // per}'
        ls = ['solo'] + ['sched ' + ' '.join(map(str, s)) for s in scheds[i:i + per]]
        scns.append(Scn(name, ls, 'baton-schedules', budget=240)); jobs.append(('asan', name, ['prepare', scns[-1].text()], None))
    # (2) reproducibility: the same solo programs with fresh and freed memory poisoned differently
    fills = [('00', '0'), ('aa', '170'), ('ff', '255')]
    for tagf, val in fills:
        name = f'fill-{tagf}'
        env = {'VERIF_FILL': tagf, 'ASAN_OPTIONS': f'exitcode=99:detect_leaks=0:abort_on_error=0:allocator_may_return_null=1:handle_segv=1:malloc_fill_byte={val}:max_malloc_fill_size=268435456:free_fill_byte={255 - int(val)}:max_free_fill_size=268435456'}
        scns.append(Scn(name, ['solo'], 'heap-fill', budget=240)); jobs.append(('asan', name, ['prepare', scns[-1].text()], env))
    def work(j):
        variant, name, lines, env = j
        return j, run_one(bindir, 'insth', lines, name, env=env)
    with ThreadPoolExecutor(max_workers=8) as ex: done = list(ex.map(work, jobs))
    # (3) free-running threads under ThreadSanitizer
    tsan_note = None
    try:
        tb = vlib.build('tsan')
        name = 'tsan-free'; reps = 3 if q else 150
        scns.append(Scn(name, ['solo', f'free {reps}'], 'tsan-free-running', budget=600))
        env = {'TSAN_OPTIONS': 'exitcode=66:halt_on_error=1:report_signal_unsafe=0', 'ASAN_OPTIONS': ''}
        done.append((('tsan', name, None, None), run_one(tb, 'insth', ['prepare', scns[-1].text()], name, env=env, timeout=900)))
    except SystemExit:
        tsan_note = 'TSan build failed; free-running part skipped'
    # validate: the heap-fill traces are concatenated so that TLC compares the solo hashes across fills
    rundir = os.path.join(vlib.BUILD, 'run', 'C18')
    fillcat = os.path.join(rundir, 'fill-all.ndjson')
    with open(fillcat, 'w') as out:
        for (variant, name, _, _), (rc, sp, tp) in done:
            if name.startswith('fill-') and os.path.exists(tp): out.write(open(tp).read())
    traces = [tp for (variant, name, _, _), (rc, sp, tp) in done if not name.startswith('fill-')] + [fillcat]
    res = dict(events=0, viols=[], drifts=[], states=0, transitions=0, infra=[], scn_events={}, traces=0, harness_s=0, tlc_s=0)
    for (variant, name, _, _), (rc, sp, tp) in done:
        if rc != 0: res['infra'].append(f'harness rc={rc} for {name}: ' + open(tp + '.stderr').read()[-500:])
    def val(tp):
        r = vlib.validate_trace(*TRACE, tp, timeout=600)
        if r['error']: r = vlib.validate_trace(*TRACE, tp, timeout=600)
        return tp, r
    with ThreadPoolExecutor(max_workers=8) as ex: vals = list(ex.map(val, traces))
    for tp, r in vals:
        evs = vlib.read_ndjson(tp); res['events'] += len(evs); res['states'] += r['distinct']; res['transitions'] += r['generated']
        if r['error'] or not r['ok']: res['infra'].append(f'TLC problem on {tp}: ' + r['out'][-800:])
        starts = [(i + 1, e.get('scn')) for i, e in enumerate(evs) if e.get('e') == 'Reset']
        for k, (ln, name) in enumerate(starts):
            end = starts[k + 1][0] - 1 if k + 1 < len(starts) else len(evs)
            res['scn_events'][name] = evs[ln - 1:end]
        res['traces'] += len(starts)
        for m in re.finditer(r'"VIOL (\{.*\})"', r['out']):
            try: v = json.loads(m.group(1).replace('\\"', '"'))
            except Exception: continue
            v['trace'] = tp
            if 1 <= v['line'] <= len(evs): v['event'] = evs[v['line'] - 1]
            res['viols'].append(v)
    if tsan_note: vlib.log(f'[{pid}] {tsan_note}')
    for s in scns: s.prelude = ['prepare']
    def nontrivial(s, evs): return sum(1 for e in evs if e.get('e') in ('Done', 'Solo')) >= NP
    ndone = sum(1 for s in scns for e in res['scn_events'].get(s.name, []) if e.get('e') == 'Done')
    return finish(pid, tier, seed, 'exploration', scns, res, RULES, t0,
                  'scenarios = five programs with disjoint state (stereo VBR encoder, mono managed encoder, packet decoder, vorbisfile with float reads and every kind of seek, vorbisfile with integer reads and half rate), ten steps each, run on one thread each: (1) under interleavings generated by TLC from Instances.tla plus serial / round-robin / stalled / pairwise corner schedules, enforced by a baton at step granularity; (2) alone with fresh and freed heap memory poisoned with 0x00/0xFF, 0xAA/0x55, 0xFF/0x00 and, before every step, half a megabyte of stack painted with the same byte (the VBR encoder starts and the managed encoder ends on a stretch of 1e-7 noise, where the linear predictor of the pre/post-extrapolation stops early); (3) free running under ThreadSanitizer; each program\'s output (every packet byte, granule position, float sample, integer sample, return value, position) is hashed and compared with its solo hash; the rounding mode and MXCSR are compared around every step; non-trivial = at least five program runs compared; distinct by script hash',
                  nontrivial, ['interleavings are enforced between API-call groups (steps), not inside a library call; free-running TSan runs are opportunistic', 'heap poisoning through ASan malloc_fill_byte / free_fill_byte',
                               'TLC, pthreads, ASan / TSan builds of the current tree'] + ([tsan_note] if tsan_note else []),
                  CHECKER, extra_cov=dict(design_model=mc, schedules=len(scheds), program_runs_compared=ndone, heap_fills=[f[0] for f in fills]),
                  extra_viol=extra_viol, sample_keys={'e', 'p', 'hash', 'steps', 'fpu', 'order', 'fill'})

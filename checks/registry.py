"""Registry of checks: property id -> (module, function) + MANIFEST metadata."""
CHECKS = {
 'C07': ('vf','check_c07'),
 'C08': ('vf','check_c08'),
 'C09': ('vf','check_c09'),
 'C10': ('vf','check_c10'),
 'C03': ('vf','check_c03'),
 'C12': ('vf','check_c12'),
 'C19': ('vf','check_c19'),
 'C20': ('vf','check_c20'),
}
TLA = 'explicit TLA+ spec (VFApi) checked by TLC; conformance by trace validation of recorded executions of the real library (VFApi_Trace) and replay of TLC-generated behaviours (VFApi_MC)'
META = {
 'C07': dict(level='model_checking', design='5 C07', technique=TLA,
   text='TLC model-checks the API-level vorbisfile contract (VFApi_MC: every caller history over an abstract 3-link file, rules jointly satisfiable, position stays in file, perturbed answers always rejected) and then validates recorded executions of the real library against the same rules: every read after every seek is located bit-exactly in a packet-level reference decode and compared with the position the model tracks. Histories come from TLC simulation of the model and from random mixing; streams cover chained files, 0/1-sample links, single-page links, page-spanning packets, foreign multiplexed streams, non-zero initial granule positions.',
   note='trusts: libogg, TLC, the identity projection (bit-exact lookup of returned floats in the per-link packet-level decode made with the same build), the stream factory; bounded histories and a finite catalogue of streams'),
 'C08': dict(level='model_checking', design='5 C08', technique=TLA,
   text='Seek postconditions of VFApi (exact landing for sample seeks, +-1 for time seeks, B(p) <= tell <= p for page seeks, rejection without disturbance outside the range, EOF after seeking to L) are evaluated by TLC on recorded seek chains of the real library over every page/packet/link boundary +-1, 0, L, L+-1, negative and fractional targets, from several prior-history classes; thorough: every position of short files.',
   note='same trusted base as C07; time targets are constructed as exact rationals of the link rate in double arithmetic; page boundaries come from an independent libogg walk of the file'),
 'C09': dict(level='model_checking', design='5 C09', technique=TLA,
   text='The Open/Query/Read rules of VFApi (link count, per-link serial, channels, rate, comment identity, exact length, total, start at 0, no hole, per-link identity with the stand-alone decode) are evaluated by TLC on recorded opens and uninterrupted reads of generated chained files (k = 1..6 and 40 links, 0-sample / 1-sample / single-page links, random packets-per-page, foreign multiplexed streams, initial granule offsets).',
   note='same trusted base as C07; each link reference is the packet-level decode of that link alone'),
 'C10': dict(level='model_checking', design='5 C10', technique=TLA,
   text='Recorded complete decodes through vorbisfile in seekable and streaming mode under generated short-read schedules of the read callback (1 byte, random, fixed k, page boundary +-d, inside page header +-d, pre-read initial bytes) and schedules of requested lengths are validated by TLC against VFApi: every chunk must be the next samples of the packet-level reference, no hole/error on intact streams.',
   note='same trusted base as C07; the packet-level access path is the reference itself; the OggSync design model covers the byte-delivery independence at page level'),
 'C03': dict(level='exploration', design='5 C03', technique=TLA,
   text='Generated chained streams receive 1..5 page-level damages (garbage, fake capture patterns, dropped/duplicated/swapped pages, truncation, lying granule positions with CRC re-fixed, EOS/BOS flag changes, serial rewrites incl. repeats, bit flips, zeroed bodies); each is opened seekable / streaming / via ov_test and driven through 10 random calls of the whole vorbisfile API plus crosslap with an intact handle and a double clear, under ASan/UBSan with CPU budget and exit trap. TLC validates every recorded call against the safety part of VFApi: no crash / hang / exit, only documented codes, failed open leaves the handle zeroed and the source unclosed, close exactly once, nothing leaked.',
   note='structured page-level damage, not arbitrary byte strings; sanitizers and budget are observers inside the conformance step'),
 'C12': dict(level='fault_enumeration', design='5 C12', technique=TLA,
   text='For ten base call sequences (open, linear read, every kind of seek incl. lapped and page-spanning packets, half-rate) a fault-free probe counts the callback invocations; then one scenario per (fault kind x invocation index k x one-shot/persisting) re-runs the sequence with the fault injected, switches faults off and performs 3 sample seeks, reads, a page seek, tell and clear. TLC validates each trace against VFApi: during the fault only documented codes/EOF, no close behind the caller, failed open leaves the handle zeroed; after faults off the FULL contract (exact landing, bit-exact identity) applies again.',
   note='one fault plan per scenario; quick tier strides k with a seed-dependent phase, thorough enumerates every k; same trusted base as C07'),
 'C19': dict(level='model_checking', design='5 C19', technique=TLA,
   text='VFApi gives every lapped seek the postcondition of its plain counterpart plus a lap allowance of min(bs0_old,bs0_new)/2 returned samples; TLC checks on recorded chains of all five lapped variants, crosslaps between two handles and TLC-generated histories that the landing position equals the plain rule, that everything after the allowance is bit-identical to the reference, that failures coincide with plain failures and that OV_EOF without lapping occurs only at link ends / without decode state.',
   note='values inside the lapped region (the cross-fade itself) are float arithmetic and are not decided; same trusted base as C07'),
 'C20': dict(level='model_checking', design='5 C20', technique=TLA,
   text='Half-rate toggles at chosen points of call histories (fresh, mid-packet, link end, EOF, after refused seek, after raw seek to the end), complete half-rate decodes seekable and streaming, and TLC-generated histories containing ov_halfrate are recorded and validated by TLC against VFApi with hs=1: ceil(N/2) samples per link located bit-exactly in the half-rate packet-level reference, positions advance by 2 per sample, sample seeks land on the even position at or below the target, refusal (synthetic 64-sample short blocks) leaves full rate intact at the same position, switching off restores full-rate identity.',
   note='on files where a non-final link has odd length the exactness of positions in half-rate mode is relaxed to +-1 (the two statements of the property conflict there, see DESIGN.md); same trusted base as C07'),
}
NOT_APPLICABLE = {
 'C06': 'every clause is about real-valued signal fidelity (finiteness, alignment by correlation, peak ratio, error vs quality); TLC has integers only and a numerical oracle would be a different technique (DESIGN.md section 6)',
}

"""Registry of checks: property id -> (module, function) + MANIFEST metadata."""
CHECKS = {
 'C07': ('vf','check_c07'),
 'C08': ('vf','check_c08'),
 'C09': ('vf','check_c09'),
 'C10': ('vf','check_c10'),
}
TLA = 'explicit TLA+ spec (VFApi) checked by TLC; conformance by trace validation of recorded executions of the real library (VFApi_Trace) and replay of TLC-generated behaviours (VFApi_MC)'
META = {
 'C07': dict(level='model_checking', design='5 C07', technique=TLA,
   text='TLC model-checks the API-level vorbisfile contract (VFApi_MC: every caller history over an abstract 3-link file, rules jointly satisfiable, position stays in file, perturbed answers always rejected) and then validates recorded executions of the real library against the same rules: every read after every seek is located bit-exactly in a packet-level reference decode and compared with the position the model tracks. Histories come from TLC simulation of the model and from random mixing; streams cover chained files, 0/1-sample links, single-page links, page-spanning packets, foreign multiplexed streams, non-zero initial granule positions.',
   note='trusts: libogg, TLC, the identity projection (bit-exact lookup of returned floats in the per-link packet-level decode made with the same build), the stream factory; bounded histories and a finite catalogue of streams'),
 'C08': dict(level='model_checking', design='5 C08', technique=TLA,
   text='Seek postconditions of VFApi (exact landing for sample seeks, +-1 for time seeks, B(p) <= tell <= p for page seeks, rejection without disturbance outside the range, EOF after seeking to L) are evaluated by TLC on recorded seek chains of the real library over every page/packet/link boundary +-1, 0, L, L+-1, negative and fractional targets, from several prior-history classes; thorough: every position of short files.',
   note='same trusted base as C07; time targets are constructed as exact rationals of the link rate in double arithmetic; page boundaries come from an independent libogg walk of the file'),
 'C09': dict(level='model_checking', design='5 C09', technique=TLA,
   text='The Open/Query/Read rules of VFApi (link count, per-link serial, channels, rate, comment identity, exact length, total, start at 0, no hole, per-link identity with the stand-alone decode) are evaluated by TLC on recorded opens and uninterrupted reads of generated chained files (k = 1..6 and 40 links, 0-sample / 1-sample / single-page links, random packets-per-page, foreign multiplexed streams, initial granule offsets).',
   note='same trusted base as C07; each link reference is the packet-level decode of that link alone'),
 'C10': dict(level='model_checking', design='5 C10', technique=TLA,
   text='Recorded complete decodes through vorbisfile in seekable and streaming mode under generated short-read schedules of the read callback (1 byte, random, fixed k, page boundary +-d, inside page header +-d, pre-read initial bytes) and schedules of requested lengths are validated by TLC against VFApi: every chunk must be the next samples of the packet-level reference, no hole/error on intact streams.',
   note='same trusted base as C07; the packet-level access path is the reference itself; the OggSync design model covers the byte-delivery independence at page level'),
}
NOT_APPLICABLE = {
 'C06': 'every clause is about real-valued signal fidelity (finiteness, alignment by correlation, peak ratio, error vs quality); TLC has integers only and a numerical oracle would be a different technique (DESIGN.md section 6)',
}

CHECKS = {
 'C07': ('vf','check_c07'),
 'C08': ('vf','check_c08'),
 'C09': ('vf','check_c09'),
 'C10': ('vf','check_c10'),
}

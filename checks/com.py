"""C16 — comments survive the header round trip and tag queries are consistent (Comments.tla)."""
import os, re, json, time, random
from concurrent.futures import ThreadPoolExecutor
import vlib
from checks.pipeline import Scn, run_batch, finish
from checks.pipeline import replay as _replay

TRACE = ('Com_Trace.tla', 'Com_Trace.cfg')
CHECKER = 'java -cp tla2tools.jar tlc2.TLC -workers 1 -config Com_Trace.cfg Com_Trace.tla (TRACE=<ndjson>); design level: Comments_MC.tla'
RULES = {'TruncatedHeaderRefused', 'RefusedHeaderLeavesNothing', 'RoundTripCount', 'RoundTripLengths', 'RoundTripBytes', 'VendorStringDelivered', 'QueryReturnsNthMatch', 'QueryPointsBehindTheEquals', 'QueryCountMatches',
         'HeaderOutSucceeds', 'DecoderAcceptsCommentHeader', 'AddAppendsOne', 'NoCrash', 'CallsTerminate', 'LibraryNeverExits', 'UnknownEvent', 'TraceWellFormed', 'SourceSetIsWhatWasAdded'}
ALPHA = [97, 65, 122, 90, 64, 91, 96, 123, 61, 0, 233, 201]

def _cfg(name, maxc, maxl, gen, invs):
    open(os.path.join(vlib.SPEC, name), 'w').write(f'SPECIFICATION Spec\nCONSTANTS MaxC = {maxc}\n MaxL = {maxl}\n Gen = {"TRUE" if gen else "FALSE"}\n' + ''.join(f'INVARIANT {i}\n' for i in invs) + 'CHECK_DEADLOCK FALSE\n')
    return name
INVS = ['RoundTrip', 'Truncated', 'CountIsHits', 'InOrder', 'FoldAscii', 'RunsOK']

def model_check(tier):
    sizes = [(2, 1), (1, 3)] if tier == 'quick' else [(2, 1), (1, 3), (2, 2), (3, 1)]
    def run(sz):
        c = _cfg(f'.cm_mc_{sz[0]}_{sz[1]}_{os.getpid()}.cfg', sz[0], sz[1], False, INVS)
        r = vlib.run_tlc('Comments_MC.tla', c, workers=6, timeout=2400); os.remove(os.path.join(vlib.SPEC, c)); return sz, r
    with ThreadPoolExecutor(max_workers=2) as ex: rs = list(ex.map(run, sizes))
    stats = dict(states=0, transitions=0, runs={}); problems = []
    for sz, r in rs:
        stats['runs'][f'MaxC={sz[0]},MaxL={sz[1]}'] = dict(ok=bool(r['ok']), distinct=r['distinct'], wall=round(r['wall'], 1))
        stats['states'] += r['distinct']; stats['transitions'] += r['generated']
        if r['violated']: problems.append(('design', str(sz), r['out'][-2000:]))
        elif not r['ok']: problems.append(('infra', str(sz), r['out'][-600:]))
    return stats, problems

def gen_cases(seed, n):
    """cases enumerated by TLC (simulation over the initial states of Comments_MC with Gen = TRUE)"""
    out = []
    for (mc, ml, k) in ((3, 3, n // 2), (2, 4, n // 2)):
        c = _cfg(f'.cm_gen_{mc}_{ml}_{os.getpid()}.cfg', mc, ml, True, ['Export'])
        r = vlib.run_tlc('Comments_MC.tla', c, workers=2, simulate=k, depth=mc * (ml + 1) + 6, seed=seed * 7 + mc, timeout=300); os.remove(os.path.join(vlib.SPEC, c))
        for m in re.findall(r'"CASE (\{.*\})"', r['out']):
            try: out.append(json.loads(m.replace('\\"', '"')))
            except Exception: pass
    seen = set(); res = []
    for h in out:
        k = json.dumps(h)
        if k not in seen: seen.add(k); res.append(h)
    return res[:n]

def runs(bs, stretch=1):
    if not bs: return '-'
    out = []; i = 0
    while i < len(bs):
        j = i
        while j < len(bs) and bs[j] == bs[i]: j += 1
        out.append(f'{bs[i]}*{(j - i) * stretch}' if (j - i) * stretch > 1 else f'{bs[i]}'); i = j
    return ','.join(out)

def add_line(rng, bs, stretch=1):
    if 0 in bs: return f'craw {runs(bs, stretch)}'
    if 61 in bs and rng.random() < .5:
        k = bs.index(61); return f'ctag {runs(bs[:k], stretch)} {runs(bs[k + 1:], stretch)}' if 61 not in bs[:k] else f'cadd {runs(bs, stretch)}'
    return rng.choice(['cadd', 'craw']) + ' ' + runs(bs, stretch)

def scn_from_case(rng, i, case, stretch=1):
    ls = ['cnew'] + [add_line(rng, c, stretch) for c in case['cs']]
    tag = case['tag']
    ls += [rng.choice(['crt e', 'crt s'])]
    for n in range(len(case['cs']) + 1): ls.append(f'cq {runs(tag, stretch)} {n}')
    ls += [f'cqc {runs(tag, stretch)}', f'cq {runs(tag, stretch)} 0 src', 'crt s' if ls[-1] != 'crt s' else 'crt e', f'cqc {runs(tag, stretch)}', 'cclr']
    return Scn(f'tla-{i}' + (f'-x{stretch}' if stretch > 1 else ''), ls, 'tla-case' + ('-stretched' if stretch > 1 else ''), budget=60)

TAGS = [b'TITLE', b'title', b'Artist', b'ARTIST', b'i', b'I', b'a', b'[', b'{', b'@', b'`', b'\xe9t\xe9', b'\xc9T\xc9', b'x' * 40, b'']
def fam_random(rng, n, big=False):
    out = []
    for i in range(n):
        ls = ['cnew']; k = rng.choice([0, 1, 2, 5, 20]) if not big else rng.choice([300, 3000])
        tags = [rng.choice(TAGS) for _ in range(4)]
        for j in range(k):
            t = rng.choice(tags); t = bytes(rng.choice([c, c ^ 0x20]) if chr(c).isalpha() and c < 128 else c for c in t)
            v = bytes(rng.choice(ALPHA[:9] + [32, 255, 10]) for _ in range(rng.choice([0, 1, 3, 17])))
            kind = rng.random()
            if kind < .6: ls.append(f'ctag {runs(list(t))} {runs([x for x in v if x])}')
            elif kind < .8: ls.append(f'craw {runs(list(t) + [61] + list(v))}')
            else: ls.append(f'cadd {runs([x for x in list(t) + list(v) if x])}')      # no "=" at all
        if not big and rng.random() < .4: ls.append(f'craw {rng.choice(ALPHA)}*{rng.choice([1000, 65536, 300000])}')
        ls.append(rng.choice(['crt e', 'crt s']))
        # the same set cut short at the end, inside the last entries, inside the list, inside the vendor string: refused, nothing kept, nothing leaked
        if not big or i == 0:
            for cut in sorted(set([1, 2, 5, rng.choice([3, 4, 6, 9, 13]), rng.choice([20, 40, 77, 150, 1000])])): ls.append(f'ctr {cut}')
        for t in tags[:3 if not big else 2]:
            q = bytes(rng.choice([c, c ^ 0x20]) if chr(c).isalpha() and c < 128 else c for c in t)
            for nn in ([0, 1, 2, 7] if not big else [0, 1, k // 2, k]): ls.append(f'cq {runs(list(q))} {nn}')
            ls.append(f'cqc {runs(list(q))}')
        ls += ['cq 233,116,233 0', 'cqc 201,84,201', 'cclr']
        out.append(Scn(f'rand-{"big-" if big else ""}{i}', ls, 'random-big' if big else 'random', budget=120, cost=len(ls) * (30 if big else 1)))
    return out

def check_c16(pid, tier, seed, replay=None):
    if replay: return _replay(pid, replay, 'cmh', *TRACE)
    t0 = time.time(); rng = random.Random(seed); q = tier == 'quick'
    bindir = vlib.build('asan')
    with ThreadPoolExecutor(max_workers=2) as ex:
        f1 = ex.submit(model_check, tier); f2 = ex.submit(gen_cases, seed, 300 if q else 6000)
        (mc, problems), cases = f1.result(), f2.result()
    extra_viol = []
    for kind, name, txt in problems:
        if kind == 'design':
            os.makedirs(vlib.REPLAY, exist_ok=True); p = os.path.join(vlib.REPLAY, f'{pid}-design-{name}.txt'); open(p, 'w').write(txt)
            extra_viol.append(dict(replay=p, what=f'design-level invariant violated in Comments_MC {name}'))
    scns = [scn_from_case(rng, i, c) for i, c in enumerate(cases)]
    scns += [scn_from_case(rng, i, c, stretch=rng.choice([1000, 100000])) for i, c in enumerate(cases[:12 if q else 200]) if c['cs']]
    scns += fam_random(rng, 60 if q else 2000) + fam_random(rng, 2 if q else 30, big=True)
    res = run_batch(pid, scns, bindir, 'cmh', *TRACE)
    if any(k == 'infra' for k, _, _ in problems): res['infra'].append('TLC failed on Comments_MC')
    def nontrivial(s, evs): return any(e.get('e') == 'RoundTrip' and e.get('ns', 0) > 0 for e in evs) and any(e.get('e') == 'Query' for e in evs)
    nq = sum(1 for s in scns for e in res['scn_events'].get(s.name, []) if e.get('e') in ('Query', 'QueryCount'))
    nhit = sum(1 for s in scns for e in res['scn_events'].get(s.name, []) if e.get('e') == 'Query' and e.get('idx', 0) > 0)
    return finish(pid, tier, seed, 'model_checking', scns, res, RULES, t0,
                  'scenarios = comment lists and tags enumerated by TLC from Comments_MC over the alphabet {a,A,z,Z,@,[,`,{,=,NUL,0xE9,0xC9} (also stretched: every byte repeated 1000 / 100000 times), random lists of up to 3000 entries with case-varied tags, values up to 300000 bytes, entries without "=", empty entries and tags; each list is written by vorbis_analysis_headerout or vorbis_commentheader_out, read back by vorbis_synthesis_headerin and queried; the library runs with libc case mapping replaced by a hostile (Turkish / Latin-1) one; non-trivial = a non-empty list made the round trip and was queried; distinct by script hash',
                  nontrivial, ['strings travel through scripts and traces in run-length form; the harness canonicalises runs', 'the vendor string is only required to be present and stable', 'TLC, libogg, ASan build of the current tree'],
                  CHECKER, extra_cov=dict(design_model=mc, tla_cases=len(cases), queries=nq, query_hits=nhit), extra_viol=extra_viol,
                  sample_keys={'e', 's', 't', 'v', 'k', 'idx', 'off', 'cnt', 'ns', 'nd', 'ro', 'ri', 'via', 'bytes'})

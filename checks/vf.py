"""vorbisfile-family checks (C03 C07 C08 C09 C10 C12 C13(vf part) C17 C19 C20): scenario families + entry points."""
from concurrent.futures import ThreadPoolExecutor
import os, sys, json, time, random
import vlib
from checks.vfcommon import *
from checks import tlagen

SEEKS_PLAIN = ['ps','psp','rs']
READ_LENS = [1, 7, 64, 500, 4096, 100000]

def pcm_targets(rng, f, n, dense=False):
    """symbolic pcm targets on file f: boundaries +-1, ends, fractions"""
    nl = nlinks(f); out = ['0','1','e:0','e:-1']
    for l in range(nl):
        out += [f'p:{l}:-1:0', f'p:{l}:-1:1', f'p:{l}:-1:-1']
        for i in (0,1,2,3,5,8,13,40,9999):
            for d in (-1,0,1):
                out.append(f'p:{l}:{i}:{d}')
        for k in (1,2,3,4,7,12,30,9999):
            for d in (-1,0,1):
                out.append(f'k:{l}:{k}:{d}')
        for num,den in ((1,2),(1,3),(2,3),(1,7),(9,10),(99,100)):
            out.append(f'f:{l}:{num}:{den}:{rng.randint(-3,3)}')
    if dense:
        for _ in range(n): out.append(f'f:{rng.randrange(nl)}:{rng.randrange(0,1000)}:1000:{rng.randint(-2,2)}')
    rng.shuffle(out)
    return out[:n] if n < len(out) else out

def raw_targets(rng, f, n):
    nl = nlinks(f); out = ['0','oe:0','oe:-1','oe:-30']
    for l in range(nl):
        out += [f'od:{l}:0', f'od:{l}:-1', f'od:{l}:1', f'o:{l}:0:0', f'o:{l}:0:5']
        for i in (1,2,3,4,6,10,25,9998,9999):
            for d in (-1,0,1,30):
                out.append(f'o:{l}:{i}:{d}')
    rng.shuffle(out)
    return out[:n] if n < len(out) else out

def oor_pcm(): return ['-1','e:1','e:1000','-100000']
def oor_raw(): return ['-1','oe:1','oe:5000']

# ---------------------------------------------------------------- families
def fam_linear(f, mode='seek', lens=(4096,), name=None, extra_pre=(), tag=(), intread=None):
    h = 0
    ls = list(extra_pre) + [f'open {h} {fid(f)} {mode}', f'q {h}']
    if len(lens) == 1:
        ls += [f'rfn {h} {lens[0]} -1']
    else:
        # cycle request lengths until EOF: enough repetitions for the file (the harness stops rfn at EOF)
        for rep in range(6):
            for L in lens: ls.append(f'rfn {h} {L} 9')
        ls.append(f'rfn {h} 4096 -1')
    if intread: ls = [(l if not l.startswith('rfn ') else f'rin {h} {l.split()[2]} {intread[0]} {intread[1]} {intread[2]} {l.split()[3]}') for l in ls]
    ls += [f'rf {h} 4096', f'tell {h}', f'clear {h}']
    return Scenario(name or f'linear-{mode}-{f}-{"_".join(map(str,lens))}', [f], ls, 'linear-'+mode, budget=60, tags=tag)

def fam_seekgrid(rng, f, kind, targets, name, reads=2, pre_hist=None):
    """a chain of seeks of one kind, each followed by reads (state carries over: every seek has a call history)"""
    h = 0
    ls = [f'open {h} {fid(f)} seek']
    if pre_hist == 'eof': ls += [f'ps {h} e:0', f'rf {h} 4096']
    elif pre_hist == 'read': ls += [f'rf {h} 4096', f'rf {h} 4096']
    elif pre_hist == 'badseek': ls += [f'ps {h} e:10', f'rf {h} 64']
    elif pre_hist == 'raw': ls += [f'rs {h} o:0:3:1']
    for t in targets:
        ls.append(f'{kind} {h} {t}')
        for _ in range(reads): ls.append(f'rf {h} {rng.choice(READ_LENS)}')
    ls += [f'tell {h}', f'clear {h}']
    return Scenario(name, [f], ls, f'seekgrid-{kind}', budget=90)

def fam_timegrid(rng, f, kind, n, name):
    h = 0; nl = nlinks(f)
    ls = [f'open {h} {fid(f)} seek']
    for _ in range(n):
        l = rng.randrange(nl)
        rel = rng.choice([0,1,2,63,64,255,256,1000,2047,2048,5000,12345, 10**9])
        q4 = rng.choice([0,1,2,3])
        ls.append(f'{kind} {h} {l} {rel} {q4}')
        ls.append(f'rf {h} {rng.choice(READ_LENS)}')
    ls.append(f'{kind} {h} -1 -5 0')   # negative time
    ls.append(f'rf {h} 64')
    ls += [f'clear {h}']
    return Scenario(name, [f], ls, f'timegrid-{kind}', budget=90)

def fam_history(rng, f, n, name, kinds=('ps','psp','rs','ts','tsp','rf','ri'), hr=False, lap=False):
    """random mixed call history"""
    h = 0; nl = nlinks(f)
    ls = [f'open {h} {fid(f)} seek']
    pt = pcm_targets(rng, f, 400); rt = raw_targets(rng, f, 200)
    ks = list(kinds)
    if lap: ks += ['psl','pspl','rsl','tsl','tspl']
    for _ in range(n):
        k = rng.choice(ks)
        if k in ('ps','psp','psl','pspl'): ls.append(f'{k} {h} {rng.choice(pt + (oor_pcm() if rng.random()<0.1 else []))}')
        elif k in ('rs','rsl'): ls.append(f'{k} {h} {rng.choice(rt + (oor_raw() if rng.random()<0.1 else []))}')
        elif k in ('ts','tsp','tsl','tspl'): ls.append(f'{k} {h} {rng.randrange(nl)} {rng.choice([0,1,100,256,999,3000,20000])} {rng.randrange(4)}')
        elif k == 'rf': ls.append(f'rf {h} {rng.choice(READ_LENS)}')
        elif k == 'ri': ls.append(f'ri {h} {rng.choice([1,3,64,4096])} {rng.choice([1,2])} {rng.randrange(2)} {rng.randrange(2)}')
        if hr and rng.random() < 0.15: ls.append(f'hr {h} {rng.randrange(2)}')
        if rng.random() < 0.5: ls.append(f'rf {h} {rng.choice(READ_LENS)}')
        if rng.random() < 0.1: ls.append(f'tell {h}')
    ls += [f'rf {h} 4096', f'clear {h}']
    return Scenario(name, [f], ls, 'history', budget=120)

def fam_from_tla(hist, f, name, family='tla-history'):
    """concretise a TLC-generated symbolic history (list of [op, arg...]) on file f"""
    h = 0; nl = nlinks(f); ls = []
    for st in hist:
        op = st[0]
        if op == 'open': ls.append(f'open {h} {fid(f)} {st[1]}')
        elif op in ('ps','psp','psl','pspl'):
            # st = [op, linkIdx(1-based), where, delta]
            l = min(int(st[1]), nl) - 1; where = st[2]; d = int(st[3])
            tgt = {'start': f'p:{l}:-1:{d}', 'page1': f'p:{l}:0:{d}', 'page2': f'p:{l}:1:{d}', 'pageN': f'p:{l}:9999:{d}',
                   'mid': f'f:{l}:1:2:{d}', 'pk': f'k:{l}:3:{d}', 'end': f'e:{d}', 'oor': 'e:7', 'neg': '-1'}[where]
            ls.append(f'{op} {h} {tgt}')
        elif op in ('rs','rsl'):
            l = min(int(st[1]), nl) - 1; where = st[2]; d = int(st[3])
            tgt = {'start': f'o:{l}:0:{d}', 'page1': f'od:{l}:{d}', 'page2': f'o:{l}:4:{d}', 'pageN': f'o:{l}:9999:{d}',
                   'mid': f'o:{l}:7:{d}', 'pk': f'o:{l}:5:{d}', 'end': f'oe:{min(d,0)}', 'oor': 'oe:9', 'neg': '-1'}[where]
            ls.append(f'{op} {h} {tgt}')
        elif op in ('ts','tsp','tsl','tspl'):
            l = min(int(st[1]), nl) - 1; where = st[2]; d = int(st[3])
            rel = {'start': 0, 'page1': 128, 'page2': 1000, 'pageN': 2500, 'mid': 1500, 'pk': 600, 'end': 10**9, 'oor': 10**9, 'neg': 0}[where]
            if where == 'neg': ls.append(f'{op} {h} -1 -5 0')
            else: ls.append(f'{op} {h} {l} {max(0,rel+d)} {abs(d)%4}')
        elif op == 'rf': ls.append(f'rf {h} {[1,64,4096,100000][int(st[1])%4]}')
        elif op == 'ri': ls.append(f'ri {h} {[3,64,4096,100000][int(st[1])%4]} {1+int(st[1])%2} {int(st[1])//2%2} {int(st[1])%2}')
        elif op == 'hr': ls.append(f'hr {h} {int(st[1])}')
        elif op == 'tell': ls.append(f'tell {h}')
        elif op == 'clear': ls.append(f'clear {h}')
    if not ls or not ls[-1].startswith('clear'): ls.append(f'clear {h}')
    return Scenario(name, [f], ls, family, budget=120)

# ---------------------------------------------------------------- helpers
def nontrivial_default(s, evs):
    names = [e.get('e') for e in evs]
    return any(n in ('ReadF','ReadI') and e.get('ret',0) > 0 for n,e in zip(names,evs)) and len(evs) >= 4

COMMON_ASSUME = [
  'reference audio for identity = packet-level decode of each link with the same library build (bit-exact lookup, no heuristics)',
  'streams are produced by the bundled encoder and paginated by libogg under a generated layout; the page table given to the spec comes from an independent libogg-only walk',
  'TLC evaluates every VFApi rule at every recorded API call; the harness only projects (identity, public struct fields)',
]

SEEK_RULES = {'SeekLandsWhereSpecified','InRangeSeekSucceeds','OutOfRangeSeekRejected','RejectedSeekLeavesPosition','SeekUndocumentedCode','SeekOnStreamMustFail'}
READ_RULES = {'ReadContinuesAtPosition','ReadIdentity','ReadLinkIndex','ReadAdvancesByCount','ReadAtEndReturnsEof','ReadDeliversBeforeEnd',
              'ReadChannels','ReadWithinOneLink','ReadAtMostLen','ReadUndocumentedCode','IntactStreamNoHole','TellReportsPosition'}
OPEN_RULES = {'IntactOpenSucceeds','OpenLinkCount','OpenLinkTable','OpenLinkLength','OpenTotal','OpenStartsAtZero','StreamNotSeekable',
              'FailedOpenLeavesHandleCleared','FailedOpenMustNotClose','OpenMustNotClose','OpenUndocumentedCode'}
SAFETY_RULES = {'NoCrash','CallsTerminate','LibraryNeverExits','UnknownEvent'}
CLEAR_RULES = {'ClearReturnsZero','ClearZeroesHandle','CloseRunsExactlyOnceAtClear','CloseOnlyForOpenedHandles','ClearReleasesEverything','NoCloseBehindCaller'}
HR_RULES = {'HalfRateRefusedFor64','RefusalLeavesFullRate','RefusalKeepsPosition','HalfRateAccepted','HalfRateFlagTakesEffect','HalfRateKeepsPosition','HalfRateUndocumentedCode'}
XL_RULES = {'CrosslapUndocumentedCode','CrosslapKeepsSecondPosition','CrosslapConsumesAtMostLap','CrosslapSucceeds','LapBlendAsSpecified'}

def files_for(tier, pool):
    return pool

# ---------------------------------------------------------------- C07
def check_c07(pid, tier, seed, replay=None):
    t0 = time.time(); rng = random.Random(seed*7919+7)
    bindir = vlib.build('asan')
    quick = (tier != 'thorough')
    scs = []
    files = ['B','C','D','E','H','I','J','K','N','P','V','X','ZI','ZM'] + ([] if quick else ['A','F','G','L','M','O','Q','ZJ','ZK'])      # ZI..ZM: links of headers only
    if quick: files_hist = files + ['F']
    else: files_hist = files
    # TLC-generated histories (spec -> code)
    tl = tlagen.vf_histories(seed, n=(60 if quick else 4000), depth=(9 if quick else 12), mode='seek')
    for i,hst in enumerate(tl['hists']):
        f = files_hist[i % len(files_hist)]
        scs.append(fam_from_tla(hst, f, f'tla{i}-{f}'))
    # random histories
    for i in range(24 if quick else 2400):
        f = files_hist[i % len(files_hist)]
        scs.append(fam_history(rng, f, 14 if quick else 30, f'hist{i}-{f}'))
    for f in files:
        scs.append(fam_linear(f))
    # sample seeks on a stride over a whole small file with two packets per page (the discard phase of ov_pcm_seek crosses page ends at many phases)
    for f, tot in (('U', 6000), ('V', 19904)):
        step = 37 if quick else 1
        tg = [str(p) for p in range(seed % step, tot, step)]
        for i in range(0, len(tg), 400):
            scs.append(fam_seekgrid(rng, f, 'ps', tg[i:i+400], f'stride-ps-{f}-{i}', reads=1))
    # histories on streams with long stretches without a granule position (the page search of VFSeek.tla decides where decoding resumes)
    for i, f in enumerate(BISECT_FILES):
        scs.append(fam_history(rng, f, 14 if quick else 30, f'hist-gap{i}-{f}'))
    bis, _ = fam_bisect(random.Random(seed * 31 + 7), True, kinds=('ps', 'psp', 'psl'))
    scs += bis if not quick else bis[(seed % 2)::2]
    with ThreadPoolExecutor(max_workers=2) as ex0:
        fmc = ex0.submit(read_model_check, pid, quick)
        res = run_batch(pid, tier, with_pages(scs), bindir)
        mc, extra_viol = fmc.result()
    readmodel = model_fidelity(res, 'VFRead_Trace'); readmodel['design'] = mc
    rules = READ_RULES | SEEK_RULES | SAFETY_RULES | {'OpenStartsAtZero','IntactOpenSucceeds'}
    return finish(pid, tier, seed, 'model_checking', scs, res, rules, t0,
      'scenario = one recorded vorbisfile call history on one generated stream (TLC-generated symbolic histories from VFApi_MC concretised on real files, random mixed histories, linear reads, seek grids and histories on streams with stretches of more than 64 KiB without a granule position of the link); non-trivial = at least one read that delivered samples after open, >= 4 events; distinct = distinct script text',
      nontrivial_default, COMMON_ASSUME, extra_cov=dict(tla_generator=tl['stats'], read_model=readmodel, design_model=dict(states=mc['states'], transitions=mc['transitions'])), extra_viol=extra_viol)

# ---------------------------------------------------------------- C08
BISECT_FILES = ['ZA', 'ZB', 'ZC', 'ZD', 'ZE', 'ZF']
def fam_bisect(rng, quick, kinds=('ps', 'psp')):
    """seek grids on streams with long stretches without a granule position; page table + callback seeks logged for VFSeek_Trace"""
    import checks.vfcommon as C
    files = list(BISECT_FILES); out = []
    for i in range(0 if quick else 60):
        l = rng.choice([6, 1, 0, 15, 11, 19]); npk = {6: 11, 1: 20, 0: 30, 15: 8, 11: 12, 19: 14}[l]
        opt = ':ppp=' + ','.join(str(rng.choice([1, 2, 3, 5, 10, 255])) for _ in range(rng.randint(1, 3)))
        for _ in range(rng.randint(1, 2)): opt += f':pad={rng.randrange(0, npk)}={rng.choice([66000, 70000, 131000, 140000, 200000, 262000]) + rng.randrange(0, 300)}'
        if rng.random() < .4: opt += f':mux={rng.choice([1, 2])}'
        pre = rng.choice(['', '1 ', '2:s=41 ']); post = rng.choice(['', ' 6:s=43', ' 2:s=44'])
        key = f'ZR{i}'; C.FILES[key] = f'{pre}{l}{opt}{post}'; files.append(key)
    for f in files:
        for kind in kinds:
            tg = pcm_targets(rng, f, 60 if quick else 400, dense=True)
            if f in ('ZA', 'ZD'): tg += [f'e:{d}' for d in range(-8, 1)] if f == 'ZA' else [f'p:1:0:{d}' for d in range(45, 57)]
            s = fam_seekgrid(rng, f, kind, tg, f'bisect-{kind}-{f}', reads=1)
            s.lines[0:0] = [f'pages {fid(f)}', 'sklog 1']; s.family = 'bisect-' + kind
            out.append(s)
    return out, {f: C.FILES[f] for f in files}

def with_pages(scs):
    """page table, link table and callback seeks of every file a scenario opens are logged (for the implementation-shaped models run next to the calls)"""
    for s in scs:
        if 'damaged' in s.tags or any(l.startswith('pages ') for l in s.lines): continue
        s.lines[0:0] = [f'pages {fid(f)}' for f in s.files] + ['sklog 1']
    return scs

def model_fidelity(res, module):
    """second validation of the traces that carry page tables: <module> (VFSeek_Trace / VFOpen_Trace) runs the implementation-shaped model on the real
       page table and compares what it predicts (callback seeks, link table) with what the call did"""
    import glob
    tps = [tp for tp in glob.glob(os.path.join(res['rundir'], 'b*.ndjson')) if any('"Pages"' in l for l in open(tp))]
    def val(tp): return tp, vlib.validate_trace(module + '.tla', module + '.cfg', tp, timeout=1500)
    with ThreadPoolExecutor(max_workers=8) as ex: rs = list(ex.map(val, tps))
    out = dict(traces=len(tps), calls_compared=0, damaged_opens_followed=0, probes_not_as_modelled=0, model_submits_other_page=0, link_table_not_as_modelled=0, open_verdict_not_as_modelled=0, state_not_as_modelled=0, states=0, examples=[])
    for tp, r in rs:
        if r['error'] or not r['ok']: res['infra'].append(f'TLC problem ({module}) on {tp}: ' + r['out'][-600:]); continue
        out['states'] += r['distinct']
        out['calls_compared'] += sum(int(x) for x in re.findall(r'COMPARED (\d+)', r['out'])); out['damaged_opens_followed'] += len(re.findall(r'FOLLOWED 1', r['out']))
        evs = vlib.read_ndjson(tp)
        for m in re.finditer(r'"DRIFT (\{.*\})"', r['out']):
            try: v = json.loads(m.group(1).replace('\\"', '"'))
            except Exception: continue
            if 'ProbesAsModelled' in v['rules']: out['probes_not_as_modelled'] += 1
            if 'ModelSubmitsRightPage' in v['rules']: out['model_submits_other_page'] += 1
            if 'LinkTableAsModelled' in v['rules']: out['link_table_not_as_modelled'] += 1
            if 'OpenVerdictAsModelled' in v['rules']: out['open_verdict_not_as_modelled'] += 1
            if 'StateAsModelled' in v['rules']: out['state_not_as_modelled'] += 1
            if len(out['examples']) < 5:
                e = evs[v['line'] - 1]; out['examples'].append(dict(scn=v['scn'], line=v['line'], ev=e.get('e'), rules=v['rules'], pos=e.get('pos'), off0=e.get('off0'), ret=e.get('ret'), probes=e.get('probes'), tab=e.get('tab'), model=v.get('model'), code={k: e.get(k) for k in ('ret', 'tell', 'rs', 'cur', 'off', 'dr', 'dc', 'dw')}))
    if out['probes_not_as_modelled'] or out['model_submits_other_page'] or out['link_table_not_as_modelled'] or out['open_verdict_not_as_modelled'] or out['state_not_as_modelled']:
        vlib.log(f"[{module}] MODEL-DRIFT notes: probes {out['probes_not_as_modelled']}, page {out['model_submits_other_page']}, link table {out['link_table_not_as_modelled']}, verdict {out['open_verdict_not_as_modelled']}, handle state {out['state_not_as_modelled']} of {out['calls_compared']} calls; first: {out['examples'][:1]}")
    return out
def bisect_fidelity(res, extra_viol): return model_fidelity(res, 'VFSeek_Trace')

def open_model_check(pid, quick):
    """VFOpen_MC: the link discovery of a seekable open over every chain of catalogue shapes (the table is the truth), over every such chain with one / two
       pages lying about themselves or missing or doubled (the open ends, asks only for offsets inside the file, and a table it accepts is usable), and
       one pinned rule (the back-step without its clamp at 0) that TLC must refute"""
    out = dict(states=0, transitions=0, configs={}, pinned_rules_refuted={}); viol = []
    cfgs = ['VFOpen_MC.cfg', 'VFOpen_MC_hdronly.cfg', 'VFOpen_MC_hdronly3.cfg', 'VFOpen_MC_damage.cfg'] + ([] if quick else ['VFOpen_MC_3.cfg', 'VFOpen_MC_damage2.cfg'])
    for c in cfgs:
        r = vlib.run_tlc_cached('VFOpen_MC.tla', c, workers=8 if quick else 14, timeout=600 if quick else 3000, xmx='4g' if quick else '12g')
        out['configs'][c] = dict(ok=bool(r['ok']), states=r['distinct'], wall_s=round(r['wall'], 1)); out['states'] += r['distinct']; out['transitions'] += r['generated']
        if not r['ok']:
            os.makedirs(vlib.REPLAY, exist_ok=True); p = os.path.join(vlib.REPLAY, f'{pid}-design-{c}.txt'); o = r['out']; i = o.find('Error:'); open(p, 'w').write(o[max(0, i):i + 4000])
            if r['violated']: viol.append(dict(replay=p, what=f'design-level invariant of VFOpen_MC violated under {c}: the link discovery as modelled from the current tree builds a wrong link table, does not end or leaves the file'))
            else: raise SystemExit(f'TLC failed on {c}: ' + o[-800:])
    r = vlib.run_tlc('VFOpen_MC.tla', 'VFOpen_MC_pinned_clamp.cfg', workers=4, timeout=600)
    out['pinned_rules_refuted']['VFOpen_MC_pinned_clamp.cfg'] = bool(r['violated'])
    r = vlib.run_tlc('VFOpen_MC.tla', 'VFOpen_MC_pinned_searchfrom.cfg', workers=4, timeout=600)      # the search for the end of a link started where _initial_pcmoffset stopped reading
    out['pinned_rules_refuted']['VFOpen_MC_pinned_searchfrom.cfg'] = bool(r['violated'])
    return out, viol

def read_model_check(pid, quick, which='seek'):
    """VFRead_MC: the decode path of a vorbisfile handle over small chained files and every short history of calls.
       which='seek': seekable handle - fetch-and-process, read, raw seek, page seek hand-over, sample-exact seek, half rate: what a read hands out is what the
       stand-alone decode has at the position reported; pinned rule: the discard loop of ov_pcm_seek judging by the FIRST link's long block;
       which='stream': streaming handle read to the end - every sample of every link once and in order; pinned rule: the link bound to the serial number of
       the BOS page in hand instead of the Vorbis stream's;
       which='lap': lapped sample seeks among reads and raw seeks - a lapped seek lands where the plain one does and reports end of file only where nothing
       follows; pinned rule: every BOS page of another serial number taken for the next link;
       which='fault': the same calls while the read callback fails, and a raw seek whose seek callback fails - the call in progress answers with a count, end of
       file or a documented code, and from the first seek that succeeds afterwards everything above holds again (C12 at design level);
       which='damage': files with one audio page missing or there twice - every call ends and answers with a count or a documented code.
       TLC must refute the pinned rules."""
    out = dict(states=0, transitions=0, configs={}, pinned_rules_refuted={}); viol = []
    if which == 'seek': cfgs = ['VFRead_MC.cfg', 'VFRead_MC_span.cfg'] + ([] if quick else ['VFRead_MC_bsizes.cfg', 'VFRead_MC_half.cfg', 'VFRead_MC_2.cfg', 'VFRead_MC_half2.cfg']); pinned = 'VFRead_MC_pinned_vi.cfg'
    elif which == 'lap': cfgs = ['VFRead_MC_lap.cfg'] + ([] if quick else ['VFRead_MC_lap2.cfg']); pinned = 'VFRead_MC_pinned_bos.cfg'
    elif which == 'fault': cfgs = ['VFRead_MC_fault_q.cfg'] + ([] if quick else ['VFRead_MC_fault.cfg']); pinned = None
    elif which == 'damage': cfgs = ['VFRead_MC_damage_q.cfg'] + ([] if quick else ['VFRead_MC_damage.cfg']); pinned = None
    else: cfgs = ['VFRead_MC_stream_q.cfg'] + ([] if quick else ['VFRead_MC_stream.cfg']); pinned = 'VFRead_MC_pinned_ser.cfg'
    for c in cfgs:
        r = vlib.run_tlc_cached('VFRead_MC.tla', c, workers=8 if quick else 14, timeout=600 if quick else 3000, xmx='4g' if quick else '12g')
        out['configs'][c] = dict(ok=bool(r['ok']), states=r['distinct'], wall_s=round(r['wall'], 1)); out['states'] += r['distinct']; out['transitions'] += r['generated']
        if not r['ok']:
            os.makedirs(vlib.REPLAY, exist_ok=True); p = os.path.join(vlib.REPLAY, f'{pid}-design-{c}.txt'); o = r['out']; i = o.find('Error:'); open(p, 'w').write(o[max(0, i):i + 6000])
            if r['violated']: viol.append(dict(replay=p, what=f'design-level invariant of VFRead_MC violated under {c}: the decode path as modelled from the current tree reports a position that is not where the audio comes from, loses or repeats samples, refuses an in-range seek or does not end'))
            else: raise SystemExit(f'TLC failed on {c}: ' + o[-800:])
    if pinned:
        r = vlib.run_tlc('VFRead_MC.tla', pinned, workers=4, timeout=600)
        out['pinned_rules_refuted'][pinned] = bool(r['violated'])
    if which == 'stream':
        # the byte level under the page-level reader: _get_next_page under every schedule of the read callback (with the termination property)
        r = vlib.run_tlc_cached('OggSync_MC.tla', 'OggSync_MC.cfg', workers=4, timeout=600)
        out['configs']['OggSync_MC.cfg'] = dict(ok=bool(r['ok']), states=r['distinct'], wall_s=round(r['wall'], 1)); out['states'] += r['distinct']; out['transitions'] += r['generated']
        if not r['ok']:
            os.makedirs(vlib.REPLAY, exist_ok=True); p = os.path.join(vlib.REPLAY, f'{pid}-design-OggSync_MC.cfg.txt'); o = r['out']; i = o.find('Error:'); open(p, 'w').write(o[max(0, i):i + 6000])
            if r['violated']: viol.append(dict(replay=p, what='design-level invariant of OggSync_MC violated: the page the reader returns depends on how the source cuts its data up, the offset is not where the sync layer reads, or the loop does not end'))
            else: raise SystemExit('TLC failed on OggSync_MC.cfg: ' + o[-800:])
        r = vlib.run_tlc('OggSync_MC.tla', 'OggSync_MC_pinned_bound.cfg', workers=2, timeout=300)
        out['pinned_rules_refuted']['OggSync_MC_pinned_bound.cfg'] = bool(r['violated'])
    return out, viol

def seek_model_check(pid, quick):
    """VFSeek_MC: the repaired search over every small layout; and the three pinned rules, each of which TLC must refute (the model can tell them apart)"""
    out = dict(states=0, transitions=0, configs={}, pinned_rules_refuted={}); viol = []
    cfgs = ['VFSeek_MC.cfg'] if quick else ['VFSeek_MC.cfg', 'VFSeek_MC_5.cfg', 'VFSeek_MC_6.cfg', 'VFSeek_MC_lies.cfg']
    for c in cfgs:
        r = vlib.run_tlc_cached('VFSeek_MC.tla', c, workers=4 if quick else 14, timeout=300 if quick else 3000)
        out['configs'][c] = dict(ok=bool(r['ok']), states=r['distinct'], wall_s=round(r['wall'], 1)); out['states'] += r['distinct']; out['transitions'] += r['generated']
        if not r['ok']:
            os.makedirs(vlib.REPLAY, exist_ok=True); p = os.path.join(vlib.REPLAY, f'{pid}-design-{c}.txt'); o = r['out']; i = o.find('Error:'); open(p, 'w').write(o[max(0, i):i + 4000])
            if r['violated']: viol.append(dict(replay=p, what=f'design-level invariant of VFSeek_MC violated under {c}: the page search as modelled from the current tree submits the wrong page or does not terminate'))
            else: raise SystemExit(f'TLC failed on {c}: ' + o[-800:])
    for c in (['VFSeek_MC_pinned_handover.cfg', 'VFSeek_MC_pinned_end.cfg', 'VFSeek_MC_pinned_guess.cfg'] if quick else ['VFSeek_MC_pinned_handover.cfg', 'VFSeek_MC_pinned_end.cfg', 'VFSeek_MC_pinned_guess.cfg', 'VFSeek_MC_pinned_backup.cfg']):
        r = vlib.run_tlc('VFSeek_MC.tla', c, workers=4 if quick else 14, timeout=600 if quick else 3000)
        out['pinned_rules_refuted'][c] = bool(r['violated'])
    return out, viol

def check_c08(pid, tier, seed, replay=None):
    t0 = time.time(); rng = random.Random(seed*7919+8)
    bindir = vlib.build('asan')
    quick = (tier != 'thorough')
    files = ['B','C','D','H','I','J','N','P','F','V','X','ZI','ZM'] + ([] if quick else ['A','E','G','K','L','M','O','Q','ZJ','ZK'])
    scs = []
    for f in files:
        big = f in ('F','G','M')
        nt = (40 if quick else 400)
        for kind in SEEKS_PLAIN:
            for pre in ([None] if quick else [None,'eof','read','badseek','raw']):
                tg = (raw_targets(rng, f, nt) + oor_raw()) if kind == 'rs' else (pcm_targets(rng, f, nt, dense=not quick) + oor_pcm())
                rng.shuffle(tg)
                if quick: tg = tg[: (25 if not big else 40)]
                scs.append(fam_seekgrid(rng, f, kind, tg, f'grid-{kind}-{f}-{pre}', reads=1, pre_hist=pre))
        for kind in ('ts','tsp'):
            scs.append(fam_timegrid(rng, f, kind, 12 if quick else 120, f'time-{kind}-{f}'))
    if not quick:
        # exhaustive over 0..L for short files
        for f in ('C','I','N'):
            tot = {'C':64,'I':2100,'N':515}[f]
            tg = [str(p) for p in range(-1, tot+2)]
            for kind in ('ps','psp'):
                scs.append(fam_seekgrid(rng, f, kind, tg, f'every-{kind}-{f}', reads=1))
    bis, bis_files = fam_bisect(rng, quick); scs += bis
    with ThreadPoolExecutor(max_workers=2) as ex0:
        fmc = ex0.submit(seek_model_check, pid, quick)
        res = run_batch(pid, tier, with_pages(scs), bindir)
        mc, extra_viol = fmc.result()
    seekmodel = bisect_fidelity(res, extra_viol); seekmodel['design'] = mc
    readmodel = model_fidelity(res, 'VFRead_Trace')
    rules = SEEK_RULES | READ_RULES | SAFETY_RULES
    def nt(s, evs): return sum(1 for e in evs if e.get('e') in ('PcmSeek','PcmSeekPage','RawSeek','TimeSeek','TimeSeekPage') and e.get('ret')==0) >= 3
    return finish(pid, tier, seed, 'model_checking', scs, res, rules, t0,
      'scenario = chain of seeks of one kind (sample / page / raw / time, each followed by reads) on one generated stream, targets = every page, packet and link boundary +-1, 0, L, L+-1, negative, fractions (thorough: every position of short files, every prior-history class) + the bisect family: streams with stretches of more than one probe step (64 KiB) without a granule position of the link (packets padded over several pages, multiplexed streams, a first audio page that ends no packet), every page / packet boundary +-1 and a dense sweep, with the page table and the callback seeks of every call logged and compared with VFSeek.tla; non-trivial = >= 3 successful seeks; distinct = distinct script text',
      nt, COMMON_ASSUME, extra_cov=dict(seek_model=seekmodel, read_model=readmodel, bisect_files=bis_files, design_model=dict(states=mc['states'], transitions=mc['transitions'])), extra_viol=extra_viol)

# ---------------------------------------------------------------- C09
def check_c09(pid, tier, seed, replay=None):
    t0 = time.time(); rng = random.Random(seed*7919+9)
    bindir = vlib.build('asan')
    quick = (tier != 'thorough')
    scs = []
    # generated chained files: k links drawn from the catalogue with random layouts
    short = [2,3,4,10,16,6,15]; mid = [0,1,5,7,9,11,12,13]
    extra_files = {}
    nfiles = 28 if quick else 2400
    import checks.vfcommon as C
    for i in range(nfiles):
        k = rng.choice([1,2,2,3,3,4,5,6]) if i % 17 else 40
        toks = []
        for j in range(k):
            l = rng.choice(short if (rng.random() < 0.5 or k > 6) else mid)
            opt = f':s={5000+i*64+j}'
            r = rng.random()
            if r < 0.3: opt += ':ppp=' + ','.join(str(rng.choice([1,1,2,3,5])) for _ in range(rng.randint(1,3)))
            if rng.random() < 0.15: opt += f':mux={rng.choice([1,2])}'
            if rng.random() < 0.15: opt += ':hs=1'
            if l == 3 and rng.random() < 0.5: opt += ':noaud=1'
            if l in (0,1,5,9,12) and rng.random() < 0.25: opt += f':g={rng.choice([1,777,100000])}' + ('' if 'ppp' in opt else ':ppp=2,3')
            toks.append(f'{l}{opt}')
        key = f'X{i}'
        C.FILES[key] = ' '.join(toks)
        extra_files[key] = C.FILES[key]
        scs.append(fam_linear(key, name=f'chain{i}-{k}links', lens=(4096,) if i%3 else (1,333,100000)))
        # the same file through the integer reader (the packing of a call that crosses into a link with another channel count)
        if i % 2 == 0: scs.append(fam_linear(key, name=f'chain{i}-{k}links-int', lens=(4096,) if i%3 else (7,333,100000), intread=rng.choice([(2,1,0),(1,0,0),(2,0,1)])))
    for f in ['B','C','D','E','I','J','N','P','Q','V','X','Y','ZC','ZD','ZF','ZI','ZJ','ZK','ZM']:
        scs.append(fam_linear(f, name=f'chain-{f}'))
        scs.append(fam_linear(f, name=f'chain-{f}-int', intread=(2,1,0)))
    # file ids collide across scenarios only if they share a script: pin each generated file to its own id per bucket by unique ids modulo 40
    # page table and callback seeks of every open are logged for VFOpen_Trace (the model of the link discovery run on the real page table)
    for s in scs:
        if not s.name.endswith('-int'): s.lines[0:0] = [f'pages {fid(s.files[0])}', 'sklog 1']
    with ThreadPoolExecutor(max_workers=2) as ex0:
        fmc = ex0.submit(open_model_check, pid, quick)
        res = run_batch(pid, tier, scs, bindir, nproc=16)
        mc, extra_viol = fmc.result()
    openmodel = model_fidelity(res, 'VFOpen_Trace'); openmodel['design'] = mc
    readmodel = model_fidelity(res, 'VFRead_Trace')
    rules = OPEN_RULES | READ_RULES | SAFETY_RULES | CLEAR_RULES
    def nt(s, evs): return any(e.get('e')=='Open' and e.get('ret')==0 for e in evs) and any(e.get('e') in ('ReadF','ReadI') and e.get('ret',0)>0 for e in evs)
    return finish(pid, tier, seed, 'model_checking', scs, res, rules, t0,
      'scenario = seekable open of a generated chained file (k in 1..6, occasionally 40, links drawn from a catalogue incl. 0-sample, 1-sample and single-page links, random packets-per-page layouts, foreign multiplexed streams, non-zero initial granule positions) followed by link-table queries and an uninterrupted read to EOF, through ov_read_float and through the integer reader ov_read; non-trivial = open succeeded and audio was delivered; distinct = distinct file layout + script',
      nt, COMMON_ASSUME, extra_cov=dict(generated_files=len(extra_files), open_model=openmodel, read_model=readmodel, design_model=dict(states=mc['states'], transitions=mc['transitions'])), extra_viol=extra_viol)

# ---------------------------------------------------------------- C10
def fam_twin(rng, f, name, n, sched):
    """the same call history on two handles of one file: handle 0 with a callback that delivers what is asked for, handle 1 under the
       short-read schedule `sched`; every call of handle 1 is marked tw and must answer like the call before it (VFApi_Trace.TwinRule)"""
    nl = nlinks(f)
    ls = [f'sr 1 {sched[0]} {sched[1]}', f'open 0 {fid(f)} seek', 'tw', f'open 1 {fid(f)} seek']
    pt = pcm_targets(rng, f, 60); rt = raw_targets(rng, f, 40) + ['c:0', 'c:0', 'c:-1', 'c:1', 'c:0']
    def both(op, rest): ls.extend([f'{op} 0 {rest}', 'tw', f'{op} 1 {rest}'])
    for _ in range(n):
        k = rng.choice(['ps','psp','rs','rs','ts','tsp','rf','rf','psl','rsl','tell'])
        if k in ('ps','psp','psl'): both(k, rng.choice(pt))
        elif k in ('rs','rsl'): both(k, rng.choice(rt))
        elif k in ('ts','tsp'): both(k, f'{rng.randrange(nl)} {rng.choice([0,1,2,101,256,999,3001])} {rng.randrange(4)}')
        elif k == 'rf': both('rf', rng.choice(READ_LENS))
        else: ls.extend(['tell 0', 'tw', 'tell 1'])
        if rng.random() < 0.7: both('rf', rng.choice(READ_LENS))
    ls += ['clear 0', 'clear 1']
    return Scenario(name, [f], ls, 'twin-schedule', budget=90)

def check_c10(pid, tier, seed, replay=None):
    t0 = time.time(); rng = random.Random(seed*7919+10)
    bindir = vlib.build('asan')
    quick = (tier != 'thorough')
    files = ['B','C','D','E','I','K','N','X','Y'] + ([] if quick else ['A','H','J','L','M','O','P','Q','F','V'])      # Y: serial numbers with the top bit set
    scs = []
    srs = [(1,0),(2,1),(2,2),(3,7),(3,27),(3,28),(3,255),(4,0),(4,1),(4,-1),(5,0),(5,1),(5,3),(3,4096)]
    if not quick: srs += [(2,s) for s in range(3,40)] + [(3,k) for k in (2,3,5,26,29,100,281,282,283,1000,2047)] + [(4,k) for k in (-3,2,5,26,27,28)] + [(5,k) for k in range(-5,30)]
    for f in files:
        for mode in ('seek','stream'):
            scs.append(fam_linear(f, mode=mode))
            scs.append(fam_linear(f, mode=mode, lens=(1,2,3,61,100000)))
            for (m,a) in (srs if not quick else rng.sample(srs, 5)):
                if m == 1 and f in ('F','G','M','A','L','H','Q','P'): continue   # one byte at a time: keep to small files
                scs.append(fam_linear(f, mode=mode, lens=(4096,) if rng.random()<0.6 else (7,1000,100000), name=f'sr{m}_{a}-{mode}-{f}', extra_pre=[f'sr 0 {m} {a}'], tag=('shortread',)))
        # integer reads through ov_read_filter with a gain-1/2 filter under a schedule of requested lengths (each sample must be filtered exactly once)
        if f in ('B','K','X','E'):
            for mode in ('seek','stream'):
                ls = [f'open 0 {fid(f)} {mode}']
                Ls = [4, 1000, 256, 4096, 37, 65536, 8, 700]; rng.shuffle(Ls)
                for i in range(120 if quick else 600): ls.append(f'rig 0 {Ls[i % len(Ls)]} 2 1 {i % 2}')
                ls += ['clear 0']
                scs.append(Scenario(f'gainfilter-{mode}-{f}', [f], ls, 'filter-lengths-'+mode, budget=60))
        # initial-bytes variants: some data already read by the application
        for init in (1, 27, 58, 4096):
            scs.append(fam_linear(f, mode='stream', name=f'init{init}-{f}', lens=(4096,), extra_pre=[]))
            scs[-1].lines[0] = f'open 0 {fid(f)} stream init={init}'
    # call histories with seeks, run on two handles that differ in the read schedule only (found missing by a seeded change: a raw seek to the
    # handle's own byte position threw the buffered bytes away, so what followed depended on how much the callback had delivered)
    for f in (['B','K','E','X'] if quick else ['B','K','E','X','I','N','D','Y','H','Q','P']):
        for (m,a) in ([(1,0)] + rng.sample(srs[1:], 2 if quick else 8)):
            if m == 1 and f in ('H','Q','P'): continue
            scs.append(fam_twin(rng, f, f'twin-sr{m}_{a}-{f}', 25 if quick else 80, (m,a)))
    with ThreadPoolExecutor(max_workers=2) as ex0:
        fmc = ex0.submit(read_model_check, pid, quick, 'stream')
        res = run_batch(pid, tier, with_pages(scs), bindir)
        mc, extra_viol = fmc.result()
    readmodel = model_fidelity(res, 'VFRead_Trace'); readmodel['design'] = mc
    rules = READ_RULES | OPEN_RULES | SAFETY_RULES | {'SameUnderAnyReadSchedule'}      # (what a seek must do is C07's and C08's business; here only that it does the same under every schedule)
    return finish(pid, tier, seed, 'model_checking', scs, res, rules, t0,
      'scenario = complete decode of one generated stream through vorbisfile in seekable or streaming mode under one short-read schedule of the read callback (1 byte, random, fixed k, page-boundary +-d, inside-page-header +-d) and one schedule of requested lengths; every delivered chunk is located bit-exactly in the packet-level reference decode; non-trivial = audio delivered; distinct = distinct script text',
      nontrivial_default, COMMON_ASSUME + ['third access path (packet-level API) is the reference itself'], extra_cov=dict(read_model=readmodel, design_model=dict(states=mc['states'], transitions=mc['transitions'])), extra_viol=extra_viol)

# ---------------------------------------------------------------- C19 lapped seeks / crosslap
def fam_lapgrid(rng, f, kind, targets, name, pre):
    h = 0
    ls = [f'open {h} {fid(f)} seek']
    if pre == 'eof': ls += [f'ps {h} e:0', f'rf {h} 4096']
    elif pre == 'read': ls += [f'rf {h} 4096', f'rf {h} 64']
    elif pre == 'linkend': ls += [f'ps {h} p:0:9999:-5', f'rf {h} 2']
    elif pre == 'badseek': ls += [f'ps {h} e:10']
    for t in targets:
        if kind in ('tsl','tspl'):
            l, rel, q = t
            ls.append(f'{kind} {h} {l} {rel} {q}')
        else:
            ls.append(f'{kind} {h} {t}')
        for _ in range(rng.choice([1,2,3])): ls.append(f'rf {h} {rng.choice([1,50,4096,100000])}')
    ls += [f'clear {h}']
    return Scenario(name, [f], ls, f'lapgrid-{kind}', budget=90)

def fam_crosslap(rng, f1, f2, name, n):
    ls = [f'open 0 {fid(f1)} seek', f'open 1 {fid(f2)} seek']
    for i in range(n):
        # move both handles somewhere, read a bit, crosslap, read both
        ls.append(f'ps 0 {rng.choice(pcm_targets(rng, f1, 30))}')
        if rng.random() < 0.7: ls.append(f'rf 0 {rng.choice([1,64,4096])}')
        ls.append(f'ps 1 {rng.choice(pcm_targets(rng, f2, 30))}')
        if rng.random() < 0.5: ls.append(f'rf 1 {rng.choice([1,64,4096])}')
        ls.append('xl 0 1')
        for _ in range(3): ls.append(f'rf 1 {rng.choice([10,4096])}')
        ls.append(f'rf 0 4096')
    ls += ['clear 0', 'clear 1']
    return Scenario(name, sorted(set([f1,f2])), ls, 'crosslap', budget=90)

def check_c19(pid, tier, seed, replay=None):
    t0 = time.time(); rng = random.Random(seed*7919+19)
    bindir = vlib.build('asan')
    quick = (tier != 'thorough')
    files = ['B','C','D','E','I','N','K','T','ZM'] + ([] if quick else ['A','H','J','L','M','P','Q','F','R','S','ZI','ZJ'])
    scs = []
    for f in files:
        nl = nlinks(f)
        for kind in ('psl','pspl','rsl','tsl','tspl'):
            for pre in ([rng.choice([None,'eof','read','linkend','badseek'])] if quick else [None,'eof','read','linkend','badseek']):
                if kind in ('tsl','tspl'):
                    tg = [(rng.randrange(nl), rng.choice([0,1,127,128,129,500,2048,7000,10**9]), rng.randrange(4)) for _ in range(10 if quick else 60)]
                elif kind == 'rsl':
                    tg = raw_targets(rng, f, 12 if quick else 120) + oor_raw()[:1]
                else:
                    tg = pcm_targets(rng, f, 12 if quick else 150) + oor_pcm()[:2]
                scs.append(fam_lapgrid(rng, f, kind, tg, f'lap-{kind}-{f}-{pre}', pre))
    # lapping with the byte cursor at the very beginning of a link (after a raw seek to the link's first page), with and without a decoder in that link:
    # the pages between there and the audio are header pages, and BOS pages of streams multiplexed into the link - no boundary to stop at
    # (found by VFRead_MC: LapOutcome)
    for f in ['E', 'ZC', 'ZF', 'B', 'X'] + ([] if quick else ['K', 'Q', 'P', 'Y']):
        nl = nlinks(f)
        for kind in ('psl', 'pspl', 'rsl', 'tsl'):
            ls = [f'open 0 {fid(f)} seek']
            for l in range(nl):
                for warm in (False, True):
                    if warm: ls += [f'ps 0 p:{l}:1:0', 'rf 0 64']          # a decoder in this link
                    ls.append(f'rs 0 o:{l}:0:0')
                    if kind == 'tsl': ls.append(f'tsl 0 {l} {rng.choice([0, 1, 500])} {rng.randrange(4)}')
                    elif kind == 'rsl': ls.append(f'rsl 0 {rng.choice([f"o:{l}:0:0", f"od:{l}:0", f"o:{l}:3:0"])}')
                    else: ls.append(f'{kind} 0 {rng.choice([f"p:{l}:0:0", f"p:{l}:1:1", f"f:{l}:1:2:0"])}')
                    ls += ['rf 0 64', 'rf 0 4096']
            ls.append('clear 0')
            scs.append(Scenario(f'lap-linkstart-{kind}-{f}', [f], ls, 'lap-from-link-start', budget=90))
    pairs = [('B','T'),('T','B'),('C','I'),('K','E'),('T','T')] + ([] if quick else [('A','K'),('S','B'),('N','C'),('E','E'),('H','T'),('R','T')])
    for (a,b) in pairs:
        scs.append(fam_crosslap(rng, a, b, f'xlap-{a}-{b}', 5 if quick else 40))
    tl = tlagen.vf_histories(seed+19, n=(30 if quick else 2500), depth=(8 if quick else 11), mode='seek')
    for i,hst in enumerate(tl['hists']):
        if not any(x[0] in ('psl','pspl','rsl','tsl','tspl') for x in hst): continue
        f = files[i % len(files)]
        scs.append(fam_from_tla(hst, f, f'tlalap{i}-{f}', family='tla-history-lap'))
    with ThreadPoolExecutor(max_workers=2) as ex0:
        fmc = ex0.submit(read_model_check, pid, quick, 'lap')
        res = run_batch(pid, tier, with_pages(scs), bindir)
        mc, extra_viol = fmc.result()
    readmodel = model_fidelity(res, 'VFRead_Trace'); readmodel['design'] = mc
    rules = SEEK_RULES | READ_RULES | SAFETY_RULES | XL_RULES
    def nt(s, evs): return any(e.get('e','').endswith('Lap') and e.get('ret')==0 for e in evs) or any(e.get('e')=='Crosslap' and e.get('ret')==0 for e in evs)
    return finish(pid, tier, seed, 'model_checking', scs, res, rules, t0,
      'scenario = chain of lapped seeks of one variant (each followed by reads) from one prior-history class, or a sequence of ov_crosslap calls between two handles at generated positions, or a TLC-generated history containing lapped seeks; after a lapped seek only the first min(bs0_old,bs0_new)/2 samples may differ from the reference (checked per read via the first-match index); non-trivial = at least one successful lapped seek / crosslap; distinct = distinct script text',
      nt, COMMON_ASSUME + ['values inside the lapped region are not decided (float cross-fade)'], extra_cov=dict(tla_generator=tl['stats'], read_model=readmodel, design_model=dict(states=mc['states'], transitions=mc['transitions'])), extra_viol=extra_viol)

# ---------------------------------------------------------------- C20 half rate
def fam_halfrate(rng, f, name, n, toggle_at):
    h = 0; nl = nlinks(f)
    ls = [f'open {h} {fid(f)} seek']
    pt = pcm_targets(rng, f, 200); rt = raw_targets(rng, f, 60)
    if toggle_at == 'fresh': ls.append(f'hr {h} 1')
    elif toggle_at == 'midpacket': ls += [f'rf {h} 37', f'hr {h} 1']
    elif toggle_at == 'linkend': ls += [f'ps {h} p:0:9999:-3', f'rf {h} 1', f'hr {h} 1']
    elif toggle_at == 'eof': ls += [f'ps {h} e:0', f'rf {h} 64', f'hr {h} 1']
    elif toggle_at == 'badseek': ls += [f'ps {h} e:99', f'hr {h} 1']
    elif toggle_at == 'rawend': ls += [f'rs {h} oe:0', f'hr {h} 1']
    ls.append(f'q {h}')
    for _ in range(n):
        k = rng.choice(['ps','ps','psp','rs','ts','rf','rf','ri','hr','tell'])
        if k in ('ps','psp'): ls.append(f'{k} {h} {rng.choice(pt)}')
        elif k == 'rs': ls.append(f'rs {h} {rng.choice(rt)}')
        elif k == 'ts': ls.append(f'ts {h} {rng.randrange(nl)} {rng.choice([0,1,2,101,256,999,3001])} {rng.randrange(4)}')
        elif k == 'rf': ls.append(f'rf {h} {rng.choice(READ_LENS)}')
        elif k == 'ri': ls.append(f'ri {h} 4096 2 1 0')
        elif k == 'hr': ls.append(f'hr {h} {rng.randrange(2)}')
        elif k == 'tell': ls.append(f'tell {h}')
        if rng.random() < 0.6: ls.append(f'rf {h} {rng.choice(READ_LENS)}')
    ls += [f'hr {h} 0', f'ps {h} f:0:1:3:0', f'rf {h} 4096', f'clear {h}']
    return Scenario(name, [f], ls, 'halfrate-'+toggle_at, budget=60)

def fam_halfrate_linear(f, mode, name):
    h = 0
    ls = [f'open {h} {fid(f)} {mode}', f'hr {h} 1', f'rfn {h} 4096 -1', f'rf {h} 64', f'clear {h}']
    return Scenario(name, [f], ls, 'halfrate-linear-'+mode, budget=60)

def check_c20(pid, tier, seed, replay=None):
    t0 = time.time(); rng = random.Random(seed*7919+20)
    bindir = vlib.build('asan')
    quick = (tier != 'thorough')
    files = ['B','C','D','I','N','T','R','S','K','V','X','ZG','ZH'] + ([] if quick else ['A','E','H','J','L','M','P','Q','F','U'])
    scs = []
    for f in files:
        for mode in ('seek','stream'):
            if mode == 'stream' and f == 'S': continue   # a later link that cannot do half rate is unknowable when streaming: no promise to hold
            scs.append(fam_halfrate_linear(f, mode, f'hrlin-{mode}-{f}'))
        for tg in (['fresh','midpacket','linkend','eof','badseek','rawend'] if not quick else rng.sample(['fresh','midpacket','linkend','eof','badseek','rawend'],3)):
            for rep in range(1 if quick else 6):
                scs.append(fam_halfrate(rng, f, f'hr-{tg}-{f}-{rep}', 10 if quick else 25, tg))
    tl = tlagen.vf_histories(seed+20, n=(30 if quick else 2500), depth=(8 if quick else 11), mode='seek')
    for i,hst in enumerate(tl['hists']):
        if not any(x[0]=='hr' for x in hst): continue
        f = files[i % len(files)]
        scs.append(fam_from_tla(hst, f, f'tlahr{i}-{f}', family='tla-history-hr'))
    res = run_batch(pid, tier, with_pages(scs), bindir)
    readmodel = model_fidelity(res, 'VFRead_Trace')
    rules = HR_RULES | SEEK_RULES | READ_RULES | SAFETY_RULES | OPEN_RULES
    def nt(s, evs): return any(e.get('e')=='HalfRate' for e in evs) and any(e.get('e')=='ReadF' and e.get('ret',0)>0 and e.get('hs')==1 for e in evs)
    return finish(pid, tier, seed, 'model_checking', scs, res, rules, t0,
      'scenario = call history with ov_halfrate toggled at a chosen point (fresh handle, mid-packet, link end, EOF, after a refused seek, after a raw seek to the end) followed by seeks/reads, plus complete half-rate decodes in seekable and streaming mode; streams include links with synthetic 64- and 128-sample short blocks (refusal case); reads are located bit-exactly in the half-rate packet-level reference; non-trivial = a toggle and at least one half-rate read that delivered; distinct = distinct script text',
      nt, COMMON_ASSUME + ['bs0=64 links are made by rewriting the short-blocksize field of an encoder-made id header and restamping granule positions (a self-consistent legal stream)'], extra_cov=dict(tla_generator=tl['stats'], read_model=readmodel))

# ---------------------------------------------------------------- C12 I/O faults
FAULT_BASES = {
  # name: (file, calls after open)
  'open':      ('B', []),
  'open1':     ('O', []),
  'linear':    ('D', ['rfn 0 4096 12']),
  'pcmseek':   ('B', ['ps 0 f:1:1:2:0', 'rf 0 64', 'ps 0 f:0:1:3:0', 'rf 0 64']),
  'pageseek':  ('F', ['psp 0 f:0:1:2:0', 'rf 0 64', 'psp 0 f:0:1:9:0']),
  'rawseek':   ('B', ['rs 0 o:1:3:0', 'rf 0 64', 'rs 0 o:0:2:5', 'rf 0 64']),
  'timeseek':  ('E', ['ts 0 1 20000 1', 'rf 0 64', 'tsp 0 2 100 0', 'rf 0 64']),
  'lapseek':   ('B', ['rf 0 100', 'psl 0 f:1:1:3:0', 'rf 0 300', 'rsl 0 o:0:3:0', 'rf 0 64', 'tsl 0 0 5000 0', 'rf 0 64']),
  # lapped seeks that find the decoder drained (every read before them took all that was pending, and the read callback never delivers beyond the
  # current page): the lapping helper has to fetch from the source, with the fault in force
  'lapdrain':  ('B', ['sr 0 4 0', 'rf 0 100000', 'psl 0 f:0:1:2:0', 'rf 0 100000', 'pspl 0 f:1:1:2:0', 'rf 0 100000', 'tsl 0 1 3000 0', 'rf 0 100000', 'rsl 0 o:0:3:0', 'rf 0 64']),
  'halfrate':  ('T', ['rf 0 100', 'hr 0 1', 'rf 0 100', 'ps 0 f:1:1:2:0', 'rf 0 64', 'hr 0 0', 'rf 0 64']),
  'spanning':  ('H', ['psp 0 f:0:1:3:0', 'rf 0 64', 'ps 0 k:0:6:1', 'rf 0 64']),
}
FAULT_KINDS = {1:'read error (errno)', 2:'premature zero read', 3:'one-byte read', 4:'seek returns -1', 5:'tell returns -1'}

def fam_fault(base, kind, at, persist, name, counted_from_open=True, recover_seed=0):
    f, calls = FAULT_BASES[base]
    rng = random.Random(recover_seed)
    ls = []
    mode = 'seek'
    if counted_from_open:
        ls += [f'fault 0 {kind} {at} {persist}', f'open 0 {fid(f)} {mode}'] + calls
    else:
        ls += [f'open 0 {fid(f)} {mode}', f'fault 0 {kind} {at} {persist} rel'] + calls
    ls += ['faultoff 0']
    # recovery: the handle (if the open succeeded) must behave like one that never saw the failure.
    # first the very same calls again (a failed call must not leave stale cached state that makes its retry go wrong) ...
    # The FIRST call after the failure is the one that meets the dumped decode machine, so it is varied: the same calls, or a
    # seek (sample / page / time / lapped) to the very beginning of a link, or straight to fresh targets.
    nl = nlinks(f); variant = recover_seed % 3; l = (recover_seed // 3) % nl
    if variant == 1:
        d = (recover_seed // (3 * nl)) % 2
        op = ('ps', 'psp', 'psl', 'ps')[(recover_seed // (6 * nl)) % 4]
        ls += [f'{op} 0 p:{l}:-1:{d}', 'rf 0 4096', 'rf 0 64']
    if variant != 2:
        ls += [c for c in calls if not c.startswith('hr ')]
    # ... then fresh targets
    tg = pcm_targets(rng, f, 50)
    for t in rng.sample(tg, 3):
        ls += [f'ps 0 {t}', 'rf 0 4096', 'rf 0 64']
    ls += ['psp 0 f:0:1:2:1', 'rf 0 64', 'tell 0', 'clear 0']
    return Scenario(name, [f], ls, f'fault-{base}', budget=8, tags=('fault',))

def check_c12(pid, tier, seed, replay=None):
    t0 = time.time(); rng = random.Random(seed*7919+12)
    bindir = vlib.build('asan')
    quick = (tier != 'thorough')
    # phase 1: fault-free runs to count callback invocations per base scenario
    probes = []
    for b,(f,calls) in FAULT_BASES.items():
        probes.append(Scenario(f'probe-{b}', [f], [f'open 0 {fid(f)} seek'] + calls + ['tell 0','clear 0'], 'probe', budget=30))
    pres = run_batch(pid+'p', tier, probes, bindir)
    counts = {}
    for b in FAULT_BASES:
        evs = pres['scn_events'].get(f'probe-{b}', [])
        oc = next((e for e in evs if e.get('e')=='Open'), {})
        tot = [0,0,0]; opn = [oc.get('nrd',0), oc.get('nsk',0), oc.get('ntl',0)]
        for e in evs:
            if 'nrd' in e: tot[0]+=e['nrd']; tot[1]+=e['nsk']; tot[2]+=e['ntl']
        counts[b] = dict(total=tot, open=opn)
    scs = []
    step = 7 if quick else 1
    for b in FAULT_BASES:
        tot = counts[b]['total']
        if quick and b not in ('open','pcmseek','rawseek','lapseek','lapdrain','linear','halfrate'): continue
        for kind in (1,2,3,4,5):
            K = tot[0] if kind <= 3 else (tot[1] if kind == 4 else tot[2])
            K = K + 2
            ks = list(range(1, K+1))
            if kind <= 3 and len(ks) > (12 if quick else 400):
                # reads are many: all positions during open + stride (phase by seed) afterwards
                on = counts[b]['open'][0]
                dense = [k for k in ks if k <= on+2]
                sparse = [k for k in ks if k > on+2]
                st = max(step, len(sparse)//(10 if quick else 300) or 1)
                sparse = sparse[(seed % st)::st]
                if quick: dense = dense[(seed % 3)::3]
                ks = dense + sparse
            elif quick:
                ks = ks[(seed % 2)::2] if len(ks) > 6 else ks
            for k in ks:
                for persist in (0,1):
                    if quick and persist == 1 and (k + seed) % 2: continue
                    scs.append(fam_fault(b, kind, k, persist, f'flt-{b}-k{kind}-at{k}-p{persist}', recover_seed=seed+k))
    # retry family: fault inside ONE call (index relative to that call), faults off, the very same call again, reads.
    RETRY = [('B','ps 0 f:1:1:2:0'), ('B','ps 0 k:0:9:1'), ('B','psp 0 f:0:2:3:0'), ('B','rs 0 o:1:3:0'), ('E','ts 0 1 20000 1'), ('E','tsp 0 2 100 0'),
             ('B','psl 0 f:1:1:3:0'), ('F','ps 0 f:0:1:2:0'), ('F','psp 0 f:0:1:9:0'), ('H','ps 0 k:0:6:1'), ('T','ps 0 f:1:1:2:0')]
    rprobes = [Scenario(f'rprobe{i}', [f], [f'open 0 {fid(f)} seek', 'rf 0 64', c, 'clear 0'], 'probe', budget=30) for i,(f,c) in enumerate(RETRY)]
    rres = run_batch(pid+'r', tier, rprobes, bindir)
    for i,(f,c) in enumerate(RETRY):
        evs = [e for e in rres['scn_events'].get(f'rprobe{i}', []) if e.get('e','').endswith(('Seek','SeekPage','SeekLap','SeekPageLap'))]
        if not evs: continue
        nrd, nsk = evs[0].get('nrd',0), evs[0].get('nsk',0)
        for kind, K in ((1,nrd),(2,nrd),(4,nsk)):
            ks = list(range(1, K+1))
            if quick and len(ks) > 4: ks = ks[:2] + ks[2::max(1,len(ks)//3)]
            for k in ks:
                for pre in (['rf 0 64'], [f'ps 0 e:-5', 'rf 0 2']) if not quick else (['rf 0 64'],):
                    ls = [f'open 0 {fid(f)} seek'] + pre + [f'fault 0 {kind} {k} 0 rel', c, 'faultoff 0', c, 'rf 0 4096', 'rf 0 64', 'tell 0', 'clear 0']
                    scs.append(Scenario(f'retry{i}-k{kind}-at{k}-{len(pre)}', [f], ls, 'fault-retry', budget=8, tags=('fault',)))
    # first-page family: the decoder sits in link L, a seek towards link L2 fails, and the FIRST call afterwards is a seek to the
    # very beginning of a link (L itself above all): the path that takes the 'target is on the first page' exit with a dumped machine
    combos = []
    for f in ('B', 'O', 'T'):
        nl = nlinks(f)
        for L in range(nl):
            for L2 in sorted({L, (L + 1) % nl}):
                for kind in (1, 2, 4):
                    for k in (1, 2, 3, 5):
                        for op in ('ps', 'psp', 'psl', 'pspl'):
                            for Lr in sorted({L, L2}):
                                for d in (0, 1):
                                    combos.append((f, L, L2, kind, k, op, Lr, d))
    if quick: combos = [c for i, c in enumerate(combos) if (i * 7 + seed) % 23 == 0 or (c[1] == c[6] and c[7] == 0 and c[4] == 1 and c[5] in ('ps', 'psp') and c[3] in (1, 4))]
    for i, (f, L, L2, kind, k, op, Lr, d) in enumerate(combos):
        ls = [f'open 0 {fid(f)} seek', f'ps 0 f:{L}:1:2:0', 'rf 0 64', f'fault 0 {kind} {k} 1 rel', f'ps 0 f:{L2}:2:3:0', 'faultoff 0',
              f'{op} 0 p:{Lr}:-1:{d}', 'rf 0 4096', 'rf 0 64', 'tell 0', f'ps 0 f:{L2}:1:3:0', 'rf 0 64', 'clear 0']
        scs.append(Scenario(f'firstpage-{f}-{L}{L2}{Lr}-k{kind}-at{k}-{op}-{d}', [f], ls, 'fault-firstpage', budget=8, tags=('fault',)))
    with ThreadPoolExecutor(max_workers=2) as ex0:
        fmc = ex0.submit(read_model_check, pid, quick, 'fault')
        res = run_batch(pid, tier, scs, bindir)
        mc, extra_viol = fmc.result()
    res['infra'] += pres['infra'] + rres['infra']
    rules = None   # every rule: a fault scenario may break anything
    def nt(s, evs): return any(e.get('e')=='FaultOff' and e.get('fired',0) > 0 for e in evs)
    return finish(pid, tier, seed, 'fault_enumeration', scs, res, rules, t0,
      'scenario = base call sequence (open; open+linear read; each kind of seek incl. page, raw, time, lapped; half-rate toggle; stream with page-spanning packets) with ONE fault plan: fault kind (read error with errno, premature zero read, one-byte read, seek -1, tell -1) x callback invocation index k of the matching callback (counted from before the open) x one-shot/persisting; then faults off -> 3 sample seeks + reads + page seek + tell + clear, which TLC holds to the full VFApi contract; callback counts come from a fault-free probe run; quick tier strides k (phase = seed), thorough enumerates every k; non-trivial = the fault actually fired; distinct = distinct script text',
      nt, COMMON_ASSUME + ['one fault plan per scenario (single fault position, optionally persisting)'],
      extra_cov=dict(callback_counts=counts, fault_kinds=FAULT_KINDS, design_model=dict(states=mc['states'], transitions=mc['transitions'], configs=mc['configs'])), extra_viol=extra_viol)

# ---------------------------------------------------------------- C03 damaged physical streams
DAMAGE_KINDS = ['garbage','oggs','drop','dup','dupbos','setcont','clearcont','setseq','swap','trunc','setgp','gphuge','cleareos','seteos','setbos','setserial','flip','flipfix','zero']

def damage_lines(rng, fkey, npages_guess, n):
    out = []
    for _ in range(n):
        k = rng.choice(DAMAGE_KINDS)
        a = rng.randrange(0, max(1,npages_guess))
        if k == 'garbage': b = rng.choice([1,3,27,100,5000,70000])
        elif k == 'trunc': b = rng.choice([0,1,5,26,27,28,40,100])
        elif k == 'setgp': b = rng.choice([-1,0,1,5,100000,2**31-1,-5,-2**31])
        elif k == 'gphuge': b = rng.choice([0,1,255])
        elif k == 'setserial': b = rng.choice([0,1000,1001,1002,77,5,-1])
        elif k == 'setseq': b = rng.choice([0,1,2,5,1000,2147483647,-1])
        elif k in ('flip','flipfix'): b = rng.choice([0,4,5,6,14,18,22,26,27,28,30,60,200])
        elif k == 'zero': b = rng.choice([0,8,100])
        else: b = 0
        out.append(f'dmg {fid(fkey)} {k} {a} {b}')
    return out

def fam_damaged(rng, f, name, mode):
    h = 0; nl = nlinks(f)
    ls = [f'open {h} {fid(f)} {mode}', f'q {h}']
    pt = pcm_targets(rng, f, 100); rt = raw_targets(rng, f, 60)
    for _ in range(10):
        k = rng.choice(['rf','rf','ri','ps','psp','rs','ts','tsp','psl','rsl','tsl','pspl','tspl','hr','tell','q'])
        if k == 'rf': ls.append(f'rfn {h} {rng.choice(READ_LENS)} {rng.choice([1,3,40])}')
        elif k == 'ri': ls.append(f'ri {h} {rng.choice([0,1,3,4096])} {rng.choice([1,2,0,-1,3])} {rng.randrange(2)} {rng.randrange(2)}')
        elif k in ('ps','psp','psl','pspl'): ls.append(f'{k} {h} {rng.choice(pt + oor_pcm())}')
        elif k in ('rs','rsl'): ls.append(f'{k} {h} {rng.choice(rt + oor_raw())}')
        elif k in ('ts','tsp','tsl','tspl'): ls.append(f'{k} {h} {rng.randrange(nl)} {rng.choice([0,5,1000,50000,10**9])} {rng.randrange(4)}')
        elif k == 'hr': ls.append(f'hr {h} {rng.randrange(2)}')
        elif k == 'tell': ls.append(f'tell {h}')
        elif k == 'q': ls.append(f'q {h}')
    ls += [f'rfn {h} 4096 30', f'clear {h}', f'clear {h}']
    return Scenario(name, [f], ls, f'damaged-{mode}', budget=20, tags=('damaged',))

def check_c03(pid, tier, seed, replay=None):
    t0 = time.time(); rng = random.Random(seed*7919+3)
    bindir = vlib.build('asan')
    quick = (tier != 'thorough')
    import checks.vfcommon as C
    scs = []
    base = ['B','C','D','E','I','N','K','T','H'] + ([] if quick else ['A','J','L','P','Q','R','S','M'])
    npg = {'B':45,'C':9,'D':9,'E':40,'I':9,'N':12,'K':60,'T':12,'H':30,'A':10,'J':40,'L':25,'P':40,'Q':20,'R':30,'S':60,'M':60}
    nfiles = 320 if quick else 7000
    for i in range(nfiles):
        b = base[i % len(base)]
        key = f'Z{i}'
        C.FILES[key] = C.FILES[b]
        nd = rng.choice([1,1,1,2,2,3,5])
        pre = damage_lines(rng, key, npg[b], nd)
        # crosslap with a second, intact handle now and then
        s = fam_damaged(rng, key, f'dmg{i}-{b}-{"+".join(x.split()[2] for x in pre)}', rng.choice(['seek','seek','stream','test']))
        s.pre = pre
        if rng.random() < 0.2:
            s.files.append('T'); s.lines.insert(2, f'open 1 {fid("T")} seek'); s.lines.insert(3, 'xl 1 0'); s.lines.insert(4, 'xl 0 1'); s.lines.insert(-2, 'clear 1')
        scs.append(s)
    # lying granule positions on streams larger than one probe step: the final position negative / zero / tiny / huge (a link of computed length 0 or less
    # than its first position), or a page in the middle claiming a position far outside the link; then every kind of seek to 0, to the end and into the middle
    k = 0
    lies = [('setgp', 9999, -2147483648), ('setgp', 9999, 0), ('setgp', 9999, 1), ('setgp', 9999, 2147483647), ('setgp', 5, 2147483647), ('setgp', 5, -5), ('setgp', 3, 100000), ('setgp', 9998, 0)]
    # ... and the other fields a page carries about itself: flags, serial number, sequence number, at the structural places of the file
    lies += [(kind, page, val) for kind, val in (('setcont', 0), ('clearcont', 0), ('seteos', 0), ('cleareos', 0), ('setbos', 0), ('setseq', 0), ('setseq', 2147483647), ('setserial', 77), ('drop', 0), ('dup', 0), ('gphuge', 0))
             for page in (2, 3, 4, 5, 9998, 9999)]
    for f in ('H', 'Q', 'ZA', 'ZE', 'F', 'ZC', 'ZF'):
        for kind, page, val in lies:
            if quick and (k * 5 + seed) % (3 if kind == 'setgp' else 17): k += 1; continue
            key = f'ZG{k}'; C.FILES[key] = C.FILES[f]; k += 1
            mode = ('seek', 'seek', 'seek', 'stream', 'test')[k % 5]
            ls = ([f'pages {fid(key)}', 'sklog 1'] if mode == 'seek' else []) + [f'open 0 {fid(key)} {mode}', 'q 0']
            for t in ('0', 'e:0', 'e:-1', 'f:0:1:2:0', '1'):
                for op in ('ps', 'psp', 'psl'): ls += [f'{op} 0 {t}', 'rf 0 64']
            ls += ['ts 0 0 0 0', 'tsp 0 0 100 0', 'rs 0 oe:-1', 'rf 0 4096', 'rfn 0 100000 -1', 'hr 0 1', 'ps 0 1', 'rf 0 64', 'clear 0', 'clear 0']
            s = Scenario(f'gplie-{f}-{kind}-{page}-{val}-{mode}', [key], ls, 'lying-page-fields', budget=30, tags=('damaged',))
            s.pre = [f'dmg {fid(key)} {kind} {page} {val}'] + ([f'dmg {fid(key)} drop {rng.randrange(3, 12)} 0'] if k % 2 else [])
            scs.append(s)
    # the end of a link claims more samples than the link holds (its last granule position lies): the open believes it, and a seek into the
    # claimed but absent tail discards packets up to and across the link boundary (found missing by a seeded change: the decoder of the
    # next link was not brought up there)
    k = 0
    for f in ('B', 'I', 'X', 'D', 'ZC', 'Y'):
        for l in range(nlinks(f)):
            for extra in (1, 700, 20000):
                k += 1
                if quick and (k + seed) % 3 == 0: continue
                key = f'ZL{k}'; C.FILES[key] = C.FILES[f]
                ls = [f'open 0 {fid(key)} seek', 'q 0']
                for d in (1, extra // 2, extra - 1, extra):
                    for op in ('ps', 'psp', 'psl', 'pspl'): ls += [f'{op} 0 p:{l}:9999:{d}', 'tell 0', 'rf 0 64', 'rf 0 4096']
                ls += [f'ts 0 {l} 100000 0', 'rf 0 64', 'hr 0 1', f'ps 0 p:{l}:9999:{extra // 2}', 'rf 0 64', 'rfn 0 100000 -1', 'clear 0', 'clear 0']
                how = ('endgp', 'endpage')[k % 2]        # the last page itself lies / an empty page behind it does (no packet ever carries the claimed position)
                s = Scenario(f'endlie-{f}-{l}-{extra}-{how}', [key], ls, 'lying-link-end', budget=30, tags=('damaged',))
                s.pre = [f'dmg {fid(key)} {how} {l} {extra}']
                scs.append(s)
    # undamaged chains (odd link lengths, 0/1-sample links, extreme serial numbers) under the same random call mix with half rate switched on early:
    # termination and memory safety must not depend on the stream being damaged
    for i in range(48 if quick else 600):
        f = ['N','C','I','B','X','Y'][i % 6]
        s = fam_damaged(rng, f, f'intact{i}-{f}', 'seek')
        s.tags.discard('damaged'); s.family = 'intact-halfrate'
        s.lines.insert(2, 'hr 0 1')
        scs.append(s)
    # two batches: a script holds at most 500 files
    lie = [x for x in scs if x.family == 'lying-page-fields']; rest = [x for x in scs if x.family != 'lying-page-fields']
    with ThreadPoolExecutor(max_workers=2) as ex0:
        fmc = ex0.submit(read_model_check, pid, quick, 'damage')
        res = run_batch(pid, tier, rest, bindir, nproc=16)
        mcd, extra_viol = fmc.result()
    if lie:
        r2 = run_batch(pid + 'g', tier, lie, bindir, nproc=16)
        for k2 in ('events', 'states', 'transitions', 'traces', 'harness_s', 'tlc_s'): res[k2] += r2[k2]
        for k2 in ('viols', 'infra'): res[k2] += r2[k2]
        res['scn_events'].update(r2['scn_events'])
        # the model of the link discovery follows the open of every file of this family whose lies it can express (audio pages only) and must predict
        # verdict, link table and callback seeks: this is what carries VFOpen_MC's exhaustive result on lying pages over to the code
        openmodel = model_fidelity(r2, 'VFOpen_Trace')
        # ... and the model of the decode path follows the reads and seeks that come after (page sequence numbers, gaps, doubled pages)
        readmodel = model_fidelity(r2, 'VFRead_Trace')
    rules = SAFETY_RULES | {'ReadUndocumentedCode','SeekUndocumentedCode','OpenUndocumentedCode','HalfRateUndocumentedCode','CrosslapUndocumentedCode',
                            'FailedOpenLeavesHandleCleared','FailedOpenMustNotClose','OpenMustNotClose','NoCloseBehindCaller','ClearReturnsZero','ClearZeroesHandle',
                            'CloseRunsExactlyOnceAtClear','CloseOnlyForOpenedHandles','ReadAtMostLen','WritesInsideBuffer','ClearReleasesEverything'}
    def nt(s, evs): return len(evs) >= 6
    return finish(pid, tier, seed, 'exploration', scs, res, rules, t0,
      'scenario = a generated chained stream with 1..5 page-level damages drawn from {garbage between pages, capture pattern in garbage, dropped / duplicated / swapped page, truncation at byte d of a page, rewritten granule position (negative, 0, huge, decreasing) with CRC re-fixed, cleared/extra EOS, extra BOS, rewritten serial number (incl. a repeat of another link), bit flips with and without CRC fix, zeroed body}, opened seekable / streaming / via ov_test, followed by 10 random calls over the whole vorbisfile API (reads, every seek and lapped seek, half-rate, crosslap with an intact handle, queries) and a double clear; run under ASan+UBSan with CPU budget and exit trap; oracle (decided in VFApi): no crash, no hang, no exit, documented return codes, failed open leaves the handle zeroed and the source unclosed, close exactly once, no leak; non-trivial = >= 6 events; distinct = distinct damage list + script',
      nt, ['structured damage only (page level); arbitrary byte strings are not claimed','identity/position rules are switched off for damaged streams'],
      extra_cov=dict(damage_kinds=DAMAGE_KINDS, open_model_on_lying_pages=openmodel if lie else None, read_model_on_lying_pages=readmodel if lie else None, design_model=dict(states=mcd['states'], transitions=mcd['transitions'], configs=mcd['configs'])), extra_viol=extra_viol)

# ---------------------------------------------------------------- C17 integer PCM packing
def pcm_probe_values(seed):
    """TLC model-checks PcmPack over the boundary set and exports it (spec -> code)."""
    r = vlib.run_tlc('PcmPack_MC.tla', 'PcmPack_MC.cfg', workers=1, timeout=300)
    if not r['ok']: raise SystemExit('PcmPack_MC failed:\n' + r['out'][-2000:])
    import re, json as _j
    m = re.search(r'"PROBE (\[.*\])"', r['out'])
    probe = _j.loads(m.group(1).replace('\\"','"'))
    vals = [ (s<<31)|(ex<<23)|mm for (s,ex,mm) in probe ]
    return vals, dict(mc_states=r['distinct'], mc_ok=True, probe_values=len(vals))

def check_c17(pid, tier, seed, replay=None):
    t0 = time.time(); rng = random.Random(seed*7919+17)
    bindir = vlib.build('asan')
    quick = (tier != 'thorough')
    vals, st = pcm_probe_values(seed)
    import checks.vfcommon as C
    C.LINKS[30] = '255 44100 10 1500 31'      # 255 channels
    C.FILES['W'] = '30'
    files = ['B','E','K','C','T'] + (['W'] if True else []) + ([] if quick else ['A','D','I','J','N','P','R','S','L'])
    fmts = [(w,sg,be) for w in (1,2) for sg in (0,1) for be in (0,1)]
    scs = []
    for f in files:
        chs = 255 if f == 'W' else 6
        # (a) real streams: every format, assorted buffer lengths incl. too small / not a multiple of a frame
        for mode in ('seek','stream'):
            ls = [f'open 0 {fid(f)} {mode}']
            for (w,sg,be) in fmts:
                for L in (0, 1, w*chs-1, w*chs, w*chs+1, 4096, 100000, 3, 509*w):
                    ls.append(f'ri 0 {L} {w} {sg} {be}')
            ls += ['ri 0 4096 0 1 0', 'ri 0 4096 -1 1 0', 'rf 0 64', 'ri 0 64 2 1 0']
            if mode == 'seek': ls += ['ps 0 f:0:1:2:1', 'ri 0 4096 2 1 1', 'hr 0 1', 'ri 0 4096 2 0 0', 'ri 0 4096 1 1 0']
            ls += ['rig 0 100 2 1 0', 'rig 0 7 1 0 0', 'rig 0 4096 2 0 1', 'rig 0 64 1 1 0', 'rfn 0 4096 -1', 'ri 0 4096 2 1 0', 'clear 0']
            scs.append(Scenario(f'pack-real-{mode}-{f}', [f], ls, 'pack-real', budget=60))
        # (b) injected TLC-chosen values through ov_read_filter: all formats, value list rotated so every value meets every channel slot
        nrot = 3 if quick else 40
        for r_ in range(nrot):
            vv = vals[:]; rng.shuffle(vv)
            chunks = [vv[i:i+64] for i in range(0, len(vv), 64)]
            ls = [f'open 0 {fid(f)} seek', 'ps 0 f:0:1:5:0']
            for ci, ch_ in enumerate(chunks):
                (w,sg,be) = fmts[(ci + r_) % 8]
                hexs = ','.join('%08x' % x for x in ch_)
                ls.append(f'rif 0 {rng.choice([4096, 65536, w*chs*3, w*chs])} {w} {sg} {be} {hexs}')
                if ci % 5 == 4: ls.append(f'ps 0 f:0:{rng.randrange(1,9)}:10:0')
            ls += ['clear 0']
            scs.append(Scenario(f'pack-inj-{f}-{r_}', [f], ls, 'pack-inject', budget=60))
    res = run_batch(pid, tier, scs, bindir)
    rules = {'PcmConversion','WholeFrames','WritesInsideBuffer','SmallBufferIsAnError','ErrorWritesNothing','ErrorKeepsPosition','ReadAtMostLen',
             'ReadAdvancesByCount','ReadContinuesAtPosition','ReadIdentity','ReadLinkIndex','ReadChannels','ReadAtEndReturnsEof','ReadDeliversBeforeEnd'} | SAFETY_RULES
    def nt(s, evs): return sum(1 for e in evs if e.get('e')=='ReadI' and e.get('ret',0) > 0 and len(e.get('smp',[])) > 0) >= 3
    nsmp = sum(len(e.get('smp',[])) for evs in res['scn_events'].values() for e in evs if e.get('e')=='ReadI')
    return finish(pid, tier, seed, 'model_checking', scs, res, rules, t0,
      'scenario = (a) integer reads of real generated streams (1, 2, 3, 6 and 255 channels; seekable, streaming, half rate) in all 8 (word, signed, endian) formats with buffer lengths 0, 1, frame-1, frame, frame+1, odd, large, and word sizes 0/-1/3; the float the library converted is identified through the position (bit-exact reference) and sampled (first/last/interior frames, <= 4 channels) for PcmPack; (b) reads through ov_read_filter in which the decoded floats are replaced by the boundary set exported by TLC from PcmPack_MC (exact ties at both scales, +-(1-ulp), +-1, rails, +-65536, 2^31, 1e30, denormals, inf, NaN), every output word checked; non-trivial = >= 3 reads with checked samples; distinct = distinct script',
      nt, COMMON_ASSUME + ['frame layout / channel order is checked through the sampled (frame, channel) byte positions', 'an exact rounding tie may go either way; NaN may give any representable word'],
      extra_cov=dict(pcmpack_mc=st, converted_samples_checked=nsmp))

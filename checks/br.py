"""C14 — hard bitrate limits hold to within the configured reservoir (Bitrate.tla)."""
import os, re, json, time, random
from concurrent.futures import ThreadPoolExecutor
import vlib
from checks.pipeline import Scn, run_batch, finish
from checks.pipeline import replay as _replay

K = 15
TRACE = ('Enc_Trace.tla', 'Enc_Trace.cfg')
CHECKER = 'java -cp tla2tools.jar tlc2.TLC -workers 1 -config Enc_Trace.cfg Enc_Trace.tla (TRACE=<ndjson>); design level: Bitrate_MC.tla with Bitrate_MC_{a,b,c}.cfg'

def _cfg(name, kk, maxsz, maxlen, gen, pset, invs, view=True):
    p = os.path.join(vlib.SPEC, name)
    open(p, 'w').write('SPECIFICATION Spec\nCONSTANTS KK = %d\n MaxSz = %d\n MaxLen = %d\n Gen = %s\n PSet = "%s"\n' % (kk, maxsz, maxlen, 'TRUE' if gen else 'FALSE', pset)
                       + ''.join(f'INVARIANT {i}\n' for i in invs) + ('VIEW View\n' if view else '') + 'CHECK_DEADLOCK FALSE\n')
    return name

INVS = ['ResBounds', 'Dominates', 'WindowMax', 'WindowMin', 'TruncOnlyUnderMax']

def model_check(tier):
    """Exhaustive design-level runs + non-vacuity witnesses. Returns (stats, problems)."""
    kk, msz = (3, 4) if tier == 'quick' else (4, 5)
    jobs = []
    for ps in 'abc':
        jobs.append(('mc-' + ps, _cfg(f'.br_mc_{ps}_{os.getpid()}.cfg', kk, msz, 1000, False, ps, INVS), True))
    for w, ps in (('NeverTrunc', 'a'), ('NeverPad', 'b'), ('NeverFull', 'c'), ('NeverEmpty', 'c')):
        jobs.append(('wit-' + w, _cfg(f'.br_w_{w}_{os.getpid()}.cfg', 3, 4, 1000, False, ps, [w]), False))
    def run(j):
        name, cfg, expect_ok = j
        r = vlib.run_tlc('Bitrate_MC.tla', cfg, workers=4 if expect_ok else 1, timeout=1500)
        try: os.remove(os.path.join(vlib.SPEC, cfg))
        except OSError: pass
        return name, expect_ok, r
    with ThreadPoolExecutor(max_workers=4) as ex: rs = list(ex.map(run, jobs))
    stats = dict(states=0, transitions=0, runs={}); problems = []
    for name, expect_ok, r in rs:
        stats['runs'][name] = dict(ok=bool(r['ok']), violated=bool(r['violated']), distinct=r['distinct'], generated=r['generated'], wall=round(r['wall'], 1))
        if expect_ok:
            stats['states'] += r['distinct']; stats['transitions'] += r['generated']
            if r['violated']: problems.append(('design', name, r['out'][-1800:]))
            elif not r['ok']: problems.append(('infra', name, r['out'][-800:]))
        else:
            if not r['violated']: problems.append(('vacuous', name, 'witness invariant not violated: the bounded model never exercises this case'))
    stats['K'] = kk; stats['MaxSz'] = msz
    return stats, problems

def gen_behaviours(seed, n, depth):
    """TLC simulation of Bitrate_MC with Gen = TRUE and the real candidate count (15): caller side = parameters + size vectors."""
    out = []
    def one(ps):
        cfg = _cfg(f'.br_gen_{ps}_{os.getpid()}.cfg', K, 5, depth, True, ps, ['Export'], view=False)
        r = vlib.run_tlc('Bitrate_MC.tla', cfg, workers=2, simulate=max(2, n // 6), depth=depth + 2, seed=seed * 17 + ord(ps), timeout=300)
        try: os.remove(os.path.join(vlib.SPEC, cfg))
        except OSError: pass
        o = []
        for m in re.finditer(r'"HIST (\{.*\})"', r['out']):
            try: o.append(json.loads(m.group(1).replace('\\"', '"')))
            except Exception: pass
        return o
    with ThreadPoolExecutor(max_workers=3) as ex:
        for o in ex.map(one, 'abc'): out += o
    # dedupe
    seen = set(); res = []
    for h in out:
        k = json.dumps(h, sort_keys=True)
        if k in seen: continue
        seen.add(k); res.append(h)
    random.Random(seed).shuffle(res)
    return res[:n]

UNIT_PRE = ['einit 0', 'eman 0 2 44100 -1 128000 -1', 'esetup 0', 'eainit 0']

def scn_from_hist(i, h):
    p = h['p']
    ls = list(UNIT_PRE) + [f"brunit 0 {p['minb']} {p['maxb']} {p['avgb']} {p['spl']} {p['R']} {p['fill']}"]
    for st in h['steps']:
        ls.append(f"ab 0 {st['W']} " + ' '.join(str(x) for x in st['sz']))
    ls.append('eclear 0 bdi')
    return Scn(f'tla-{i}', ls, 'tla-behaviour', budget=20)

def rand_params(rng):
    kind = rng.choice(['max', 'min', 'both', 'cbr', 'both'])
    spl = rng.choice([1, 2, 4, 8, 16])
    if kind == 'max':   minb, maxb = 0, rng.choice([1, 3, 10, 17, 64, 186, 500])
    elif kind == 'min': minb, maxb = rng.choice([1, 3, 9, 16, 100, 372]), 0
    elif kind == 'cbr': minb = maxb = rng.choice([2, 10, 16, 93, 186])
    else:
        minb = rng.choice([1, 5, 9, 64, 150]); maxb = minb + rng.choice([0, 1, 2, 7, 8, 9, 50, 400])
    lo = 8 if (minb and maxb) else 1
    R = rng.choice([lo, lo + 1, 8, 9, 15, 16, 17, 64, 100, 1000, 4000, 100000]); R = max(R, lo)
    fill = rng.choice([0, R, R // 2, R // 10, rng.randint(0, R)])
    avgb = rng.choice([0, 0, 0, (minb + maxb) // 2 if (minb and maxb) else max(minb, maxb)])
    return dict(minb=minb, maxb=maxb, avgb=avgb, spl=spl, R=R, fill=fill)

def rand_vec(rng, p):
    tgt = max(p['minb'], p['maxb'], 8) * rng.choice([1, 1, p['spl']])
    base = max(0, tgt // 8)
    shape = rng.choice(['mono', 'mono', 'flat', 'huge', 'zero', 'rand', 'near'])
    if shape == 'mono':
        a = rng.randint(0, base * 2 + 2); step = rng.choice([0, 1, 1, 2, 5, max(1, base // 4)])
        return [a + i * step // rng.choice([1, 2]) for i in range(K)]
    if shape == 'flat': return [rng.randint(0, base * 2 + 2)] * K
    if shape == 'huge': return [base * rng.randint(3, 40) + rng.randint(1, 50)] * K if rng.random() < .5 else [base * 5 + i * 7 for i in range(K)]
    if shape == 'zero': return [0] * K if rng.random() < .5 else [0] * 7 + [1] * 8
    if shape == 'near': return [max(0, base + rng.randint(-2, 2)) for _ in range(K)]
    return [rng.randint(0, base * 3 + 3) for _ in range(K)]

def fam_random_unit(rng, n, steps):
    out = []
    for i in range(n):
        p = rand_params(rng)
        ls = list(UNIT_PRE) + [f"brunit 0 {p['minb']} {p['maxb']} {p['avgb']} {p['spl']} {p['R']} {p['fill']}"]
        mood = rng.choice(['mix', 'starve', 'flood', 'alt'])
        for s in range(steps):
            W = rng.randrange(2)
            v = rand_vec(rng, p)
            if mood == 'starve' or (mood == 'alt' and (s // 5) % 2 == 0): v = [x // 4 for x in v]
            if mood == 'flood' or (mood == 'alt' and (s // 5) % 2 == 1): v = [x * 3 + 2 for x in v]
            ls.append(f'ab 0 {W} ' + ' '.join(map(str, v)))
        ls.append('eclear 0 bdi')
        out.append(Scn(f'unit-{i}', ls, 'random-unit', budget=20))
    return out

REAL_CFGS = [
  # ch rate nominal | act min max avg damp1000 resbits bias1000 | samples sig
  (2, 44100, 64000,  (1, 0, 64, 0, 1500, 4000, 100), 60000, 9),
  (2, 44100, 128000, (1, 0, 64, 0, 1500, 16, 0), 40000, 1),
  (1, 44100, 64000,  (1, 48, 0, 0, 1500, 3000, 1000), 50000, 9),
  (2, 44100, 96000,  (1, 64, 64, 64, 1500, 8000, 500), 50000, 9),
  (2, 48000, 128000, (1, 32, 160, 96, 1500, 50000, 100), 60000, 0),
  (1, 22050, 32000,  (1, 0, 16, 0, 1500, 9, 1000), 30000, 1),
  (1, 8000, 16000,   (1, 12, 0, 0, 1500, 200, 0), 20000, 2),
  (6, 48000, 256000, (1, 0, 128, 0, 1500, 20000, 300), 30000, 3),
  (2, 32000, 80000,  (1, 80, 80, 0, 1500, 1000, 500), 40000, 9),
  (2, 44100, 128000, (1, 0, 45, 0, 1500, 8, 1000), 30000, 4),
  (1, 16000, 24000,  (1, 24, 24, 24, 1500, 64, 500), 30000, 9),
  (2, 96000, 200000, (1, 0, 150, 0, 1500, 100000, 100), 50000, 0),
]

def fam_real(rng, n, scale=1.0):
    out = []
    cfgs = list(REAL_CFGS); rng.shuffle(cfgs)
    for i, (ch, rate, nom, rm, ns, sig) in enumerate(cfgs[:n]):
        ns = int(ns * scale)
        ls = ['einit 0', f'eman 0 {ch} {rate} -1 {nom} -1', 'ectl 0 rm2get',
              'ectl 0 rm2set ' + ' '.join(map(str, rm)), 'esetup 0', 'eainit 0', 'ehdr 0',
              f'ewrite 0 {ns} {sig} {rng.choice([1024, 4096, 333])}', 'eeof 0', 'eclear 0 bdci']
        out.append(Scn(f'real-{i}-{ch}ch-{rate}-{rm[1]}_{rm[2]}_{rm[3]}-R{rm[5]}', ls, 'real-encode', budget=120, cost=ns // 50))
    return out

def _pred_rint(v, scn):
    """the excess over max_rate*duration + R (shortfall below min_rate*duration - R) is explained by the rounding of the per-block
       budget alone: the budget really was rounded in the harmful direction and the bound holds in the manager's own (rounded) units"""
    b = v.get('brinit'); r = v['rules'][0]
    if not b or v.get('manager_units_violated'): return False
    if r == 'HardMaxRealUnits': return b['maxb'] * b['rate'] * 2 > b['maxrate'] * b['bs0']
    if r == 'HardMinRealUnits': return b['minb'] * b['rate'] * 2 < b['minrate'] * b['bs0']
    return False

def check_c14(pid, tier, seed, replay=None):
    if replay: return _replay(pid, replay, 'ench', *TRACE)
    t0 = time.time(); rng = random.Random(seed)
    bindir = vlib.build('asan')
    q = tier == 'quick'
    with ThreadPoolExecutor(max_workers=2) as ex:
        f1 = ex.submit(model_check, tier); f2 = ex.submit(gen_behaviours, seed, 60 if q else 600, 10 if q else 16)
        (mc, problems), hists = f1.result(), f2.result()
    extra_viol = []
    for kind, name, txt in problems:
        if kind == 'design':
            os.makedirs(vlib.REPLAY, exist_ok=True); p = os.path.join(vlib.REPLAY, f'{pid}-design-{name}.txt'); open(p, 'w').write(txt)
            extra_viol.append(dict(replay=p, what=f'design-level invariant violated in {name} (transcription of bitrate.c admits a bad state)'))
        else:
            vlib.log(f'[{pid}] {kind}: {name}: {txt[:300]}')
    scns = [scn_from_hist(i, h) for i, h in enumerate(hists)]
    scns += fam_random_unit(rng, 150 if q else 3000, 24 if q else 40)
    scns += fam_real(rng, 5 if q else len(REAL_CFGS), 0.6 if q else 2.0)
    res = run_batch(pid, scns, bindir, 'ench', *TRACE)
    for v in res['viols']:
        evs = res['scn_events'].get(v.get('scn'), [])
        bi = [e for e in evs if e.get('e') == 'BrInit']
        if bi: v['brinit'] = bi[-1]
        v['manager_units_violated'] = any(w.get('scn') == v.get('scn') and ({'HardMaxWindow', 'HardMinWindow'} & set(w['rules'])) for w in res['viols'])
    if any(k == 'infra' for k, _, _ in problems): res['infra'].append('TLC failed on a design-level run')
    def nontrivial(s, evs):
        # a scenario is non-trivial when the manager had to act at least once: truncation, padding or a candidate other than the proposal
        for e in evs:
            if e.get('e') == 'AddBlock' and (e['bytes'] != e['sz'][e['choice']] or e['choice'] != K // 2): return True
        return False
    nt_trunc = sum(1 for s in scns for e in res['scn_events'].get(s.name, []) if e.get('e') == 'AddBlock' and e['bytes'] < e['sz'][e['choice']])
    nt_pad = sum(1 for s in scns for e in res['scn_events'].get(s.name, []) if e.get('e') == 'AddBlock' and e['bytes'] > e['sz'][e['choice']])
    return finish(pid, tier, seed, 'model_checking', scns, res,
                  {'HardMaxWindow', 'HardMinWindow', 'HardMaxRealUnits', 'HardMinRealUnits', 'AddBlockReturnsZero', 'ChoiceInRange', 'NoCrash', 'CallsTerminate', 'LibraryNeverExits', 'UnknownEvent'},
                  t0, 'scenarios = TLC-simulated behaviours of Bitrate_MC (Gen, 15 candidates) + random parameter sets/size vectors (unit driver on the real vorbis_bitrate_addblock) + real managed encodes; non-trivial = the manager truncated, padded or moved away from the proposed candidate at least once; distinct by script hash',
                  nontrivial,
                  ['the average tracker is over-approximated by "any candidate"; the unit driver writes the manager parameters directly into bitrate_manager_state/info (the model\'s Init)',
                   'a packet of block flag W is taken to last blocksize[W]/2 samples (the manager\'s own accounting); with both limits set the property is read on reservoirs of at least 8 bits (packets are whole bytes)',
                   'TLC, libogg bit packer, ASan build of the current tree'],
                  CHECKER, extra_cov=dict(design_model=mc, truncations_observed=nt_trunc, paddings_observed=nt_pad, tla_behaviours=len(hists), exhaustive=False),
                  extra_viol=extra_viol, preds={'rint_budget_rounding': _pred_rint},
                  sample_keys={'e', 'W', 'sz', 'res0', 'choice', 'bytes', 'res', 'minb', 'maxb', 'R', 'fill', 'spl', 'ret'})

"""Generic pipeline of the packet-/encoder-side checks:
   scenario scripts -> harness program (real code, ASan/UBSan) -> ndjson traces -> TLC (<X>_Trace) -> verdict + evidence."""
import os, re, json, time, hashlib, shutil
from concurrent.futures import ThreadPoolExecutor
import vlib

class Scn:
    def __init__(self, name, lines, family, budget=20, tags=(), cost=None):
        self.name = name; self.lines = list(lines); self.family = family; self.budget = budget; self.tags = set(tags)
        self.cost = cost if cost is not None else len(self.lines)
    def text(self):
        return '\n'.join([f'scn {self.name} budget={self.budget}'] + self.lines + ['end'])
    def key(self):
        return hashlib.sha1('\n'.join(self.lines).encode()).hexdigest()

def run_batch(pid, scenarios, bindir, prog, trace_module, trace_cfg, prelude=(), nproc=None, tlc_timeout=1500, xmx='4g'):
    """Run scenarios through <prog>, validate every trace with TLC.
       Returns dict(events, viols=[{line,scn,ev,rules,event}], drifts=[...], scn_events, states, transitions, infra, traces)."""
    nproc = nproc or min(vlib.NCPU, 16)
    rundir = os.path.join(vlib.BUILD, 'run', pid + '-' + prog)
    shutil.rmtree(rundir, ignore_errors=True); os.makedirs(rundir, exist_ok=True)
    os.makedirs(os.path.join(vlib.BUILD, 'tlc'), exist_ok=True)
    buckets = [[] for _ in range(nproc)]; cost = [0]*nproc
    for s in sorted(scenarios, key=lambda s: -s.cost):
        b = min(range(nproc), key=lambda b: cost[b]); buckets[b].append(s); cost[b] += s.cost + 2
    jobs = []
    for b, scs in enumerate(buckets):
        if not scs: continue
        sp = os.path.join(rundir, f'b{b}.txt')
        open(sp, 'w').write('\n'.join(list(prelude) + [s.text() for s in scs]) + '\n')
        jobs.append((b, sp, os.path.join(rundir, f'b{b}.ndjson'), scs))
    def work(job):
        b, sp, tp, scs = job
        t0 = time.time()
        rc = vlib.run_harness(bindir, prog, sp, tp, timeout=max(120, sum(s.budget for s in scs)))
        if rc != 0:
            # the run died outside a scenario (while preparing shared material): repeat with every set-up line probed in a child first
            rc = vlib.run_harness(bindir, prog, sp, tp, timeout=2 * max(120, sum(s.budget for s in scs)), env={'VERIF_PRELUDE_PROBE': '1'})
        t1 = time.time()
        r = vlib.validate_trace(trace_module, trace_cfg, tp, timeout=tlc_timeout, xmx=xmx)
        if r['error']:
            r = vlib.validate_trace(trace_module, trace_cfg, tp, timeout=tlc_timeout, xmx=xmx)
        return (b, rc, r, t1-t0, time.time()-t1)
    with ThreadPoolExecutor(max_workers=nproc) as ex:
        results = list(ex.map(work, jobs))
    out = dict(events=0, viols=[], drifts=[], states=0, transitions=0, infra=[], scn_events={}, traces=0, harness_s=0, tlc_s=0, rundir=rundir)
    jobmap = {j[0]: j for j in jobs}
    for b, rc, r, th, tt in results:
        _, sp, tp, scs = jobmap[b]
        out['harness_s'] += th; out['tlc_s'] += tt
        evs = vlib.read_ndjson(tp) if os.path.exists(tp) else []
        out['events'] += len(evs)
        if rc != 0:
            out['infra'].append(f'harness rc={rc} for {sp}: ' + open(tp + '.stderr').read()[-600:])
        if r['error'] or not r['ok']:
            out['infra'].append(('TLC invariant/postcondition violated on ' if r['violated'] else 'TLC error on ') + tp + ': ' + r['out'][-1500:])
        out['states'] += r['distinct']; out['transitions'] += r['generated']
        starts = [(i+1, e.get('scn')) for i, e in enumerate(evs) if e.get('e') == 'Reset']
        for k, (ln, name) in enumerate(starts):
            end = starts[k+1][0]-1 if k+1 < len(starts) else len(evs)
            out['scn_events'][name] = evs[ln-1:end]
        out['traces'] += len(starts)
        for kind, dst in (('VIOL', out['viols']), ('DRIFT', out['drifts'])):
            for m in re.finditer(r'"%s (\{.*\})"' % kind, r['out']):
                try: v = json.loads(m.group(1).replace('\\"', '"'))
                except Exception: continue
                v['trace'] = tp; v['script'] = sp
                if 1 <= v['line'] <= len(evs): v['event'] = evs[v['line']-1]
                dst.append(v)
    return out

# ---------------------------------------------------------------- known findings
def kf_matches(entry, v, scn, preds):
    for part in entry.get('key', '').split(';'):
        part = part.strip()
        if not part: continue
        k, _, val = part.partition('=')
        if k == 'rule':
            if val not in v['rules']: return False
        elif k == 'pred':
            if not preds[val](v, scn): return False
        elif k == 'family':
            if not re.search(val, scn.family): return False
        elif k == 'tag':
            if val not in scn.tags: return False
        elif k == 'ev':
            if v.get('ev') != val: return False
        else:
            if str(v.get('event', {}).get(k)) != val: return False
    return True

def finish(pid, tier, seed, level, scenarios, res, rules_owned, t0, rule_desc, nontrivial_fn, assumptions, checker_cmd,
           extra_cov=None, extra_viol=None, preds=None, sample_keys=None):
    """Adjudicate violations against known_findings.json, print VIOLATION / KNOWN-FINDING lines, write evidence; return exit code."""
    preds = preds or {}
    byname = {s.name: s for s in scenarios}
    known = [k for k in vlib.load_known() if k.get('status') == 'known' and k.get('property') == pid]
    new = []; kn = {}; other = 0
    for v in res['viols']:
        s = byname.get(v.get('scn'))
        mine = [r for r in v['rules'] if rules_owned is None or r in rules_owned]
        if not mine: other += 1; continue
        rest = []
        for r in mine:
            v1 = dict(v); v1['rules'] = [r]
            hit = next((k for k in known if s is not None and kf_matches(k, v1, s, preds)), None)
            if hit: kn.setdefault(hit['key'], []).append(v1)
            else: rest.append(r)
        if rest: new.append((v, rest))
    rc = 0
    for key, vs in kn.items():
        k = next(x for x in known if x['key'] == key)
        print(f"KNOWN-FINDING: property={pid} {k['what']} [{len(vs)} occurrence(s), key {key}]")
    seen = set(); nviol = 0
    os.makedirs(vlib.REPLAY, exist_ok=True)
    for v, rules in new:
        sig = (v.get('scn'), tuple(rules))
        if sig in seen: continue
        seen.add(sig); nviol += 1; rc = 1
        if nviol <= 12:
            s = byname.get(v.get('scn'))
            p = os.path.join(vlib.REPLAY, f'{pid}-{nviol}.txt')
            with open(p, 'w') as f:
                if s is None and v.get('script') and os.path.exists(v['script']): f.write(open(v['script']).read())
                if s: f.write('\n'.join(getattr(s, 'prelude', [])) + ('\n' if getattr(s, 'prelude', None) else '') + s.text() + '\n')
                f.write('# violated: ' + json.dumps({k: v[k] for k in v if k not in ('trace', 'script')})[:3000] + '\n')
            print(f"VIOLATION property={pid} replay={p}")
            print(f"  scenario {v.get('scn')} line {v.get('line')} event {v.get('ev')} rules {rules} :: {json.dumps(v.get('event', {}))[:400]}")
    for xv in (extra_viol or []):
        nviol += 1; rc = 1
        print(f"VIOLATION property={pid} replay={xv.get('replay', '-')}")
        print(f"  {xv.get('what')}")
    if res['infra']:
        for m in res['infra'][:5]: vlib.log('[infra] ' + m)
        if rc == 0: rc = 2
    nt = set(); samples = []
    for s in scenarios:
        if nontrivial_fn(s, res['scn_events'].get(s.name, [])): nt.add(s.key())
    pick = scenarios[:1] + scenarios[len(scenarios)//2:len(scenarios)//2+1] + scenarios[-1:]
    for s in pick:
        evs = res['scn_events'].get(s.name, [])
        samples.append(dict(scenario=s.name, family=s.family, script=s.lines[:30],
                            trace=[({k: e[k] for k in e if (sample_keys is None or k in sample_keys)}) for e in evs[:20]]))
    cov = dict(states=max(1, res['states']), transitions=max(1, res['transitions']), traces_validated_against_impl=res['traces'],
               samples=samples, evaluations=res['events'], distinct_nontrivial=len(nt), rule=rule_desc,
               scenarios=len(scenarios), families=sorted(set(s.family for s in scenarios)),
               violations_other_rules=other, known_findings_seen={k: len(v) for k, v in kn.items()},
               model_drift_notes=len(res['drifts']),
               harness_cpu_s=round(res['harness_s'], 1), tlc_cpu_s=round(res['tlc_s'], 1), checker_cmd=checker_cmd)
    if extra_cov: cov.update(extra_cov)
    dm = (extra_cov or {}).get('design_model')
    if isinstance(dm, dict) and 'states' in dm:
        cov['states'] += dm['states']; cov['transitions'] += dm.get('transitions', 0)
    cov['other_rule_names'] = sorted(set(r for v in res['viols'] for r in v['rules'] if rules_owned is not None and r not in rules_owned))
    vlib.write_evidence(pid, tier, seed, level, cov, time.time()-t0, nviol, assumptions)
    if res['drifts']:
        d0 = res['drifts'][0]
        vlib.log(f"[{pid}] MODEL-DRIFT notes: {len(res['drifts'])} (first: scn {d0.get('scn')} line {d0.get('line')} {d0.get('rules')})")
    print(f"[{pid}] tier={tier} scenarios={len(scenarios)} events={res['events']} distinct_nontrivial={len(nt)} violations={nviol} known={sum(len(v) for v in kn.values())} drift_notes={len(res['drifts'])} wall={time.time()-t0:.1f}s")
    return rc

def replay(pid, path, prog, trace_module, trace_cfg):
    """Re-run a replay script and print the verdict of TLC on it."""
    bindir = vlib.build('asan')
    out = os.path.join(vlib.BUILD, 'run', f'replay-{pid}.ndjson'); os.makedirs(os.path.dirname(out), exist_ok=True)
    rc = vlib.run_harness(bindir, prog, path, out, timeout=600)
    r = vlib.validate_trace(trace_module, trace_cfg, out)
    vs = re.findall(r'"VIOL (\{.*\})"', r['out'])
    for v in vs: print('VIOL', v.replace('\\"', '"'))
    print(f'replay: harness rc={rc}, events={len(vlib.read_ndjson(out))}, rule violations={len(vs)}, trace={out}')
    if vs: print(f'VIOLATION property={pid} replay={path}')
    return 1 if vs else 0

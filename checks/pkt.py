"""Packet-level decoder checks: C11 (locality of damage), C02 (memory safety / termination of the packet API), C01 (sample counts; integer domain in syn.py)."""
import os, re, json, time, random, glob
from concurrent.futures import ThreadPoolExecutor
import vlib
from checks.pipeline import Scn, run_batch, finish
from checks.pipeline import replay as _replay

TRACE = ('Pkt_Trace.tla', 'Pkt_Trace.cfg')
CHECKER = 'java -cp tla2tools.jar tlc2.TLC -workers 1 -config Pkt_Trace.cfg Pkt_Trace.tla (TRACE=<ndjson>); design level: PktDec_MC.tla with PktDec_MC_<bs0>_<bs1>_<hs>.cfg'
SAFETY = {'NoCrash', 'CallsTerminate', 'LibraryNeverExits', 'UnknownEvent'}
C11_RULES = {'Locality', 'LocalityCount', 'SamplesPerPacket'} | SAFETY
C02_RULES = {'RefusedInitStaysRefused', 'HeaderInReturnsDocumentedCode', 'SynthesisInitReturnsDocumentedCode', 'SynthesisReturnsDocumentedCode', 'BlockinReturnsDocumentedCode', 'ReadReturnsDocumentedCode',
             'HalfRateReturnsDocumentedCode', 'BufferInsideRing', 'PendingNeverNegative', 'LapOutNonNegative', 'BlockinRefusedUntilRead', 'ReadRefusesMoreThanPending',
             'RestartSucceeds', 'InfoClearEmptiesInfo', 'NonHeaderRefused', 'InitNeedsAllHeaders'} | SAFETY
C01_RULES = {'SamplesPerPacket', 'ValidHeaderAccepted', 'ValidPacketDecodes', 'InitSucceedsAfterHeaders', 'PcmOutReportsPending', 'FreshDecoderHoldsNothing',
             'ReadAdvancesByCount', 'RestartDropsPending', 'HalfRateRefusedFor64', 'HalfRateAccepted', 'HalfRateFlagTakesEffect'} | SAFETY

LINKS = {
  0: '2 44100 30 6000 7',          # 13 audio packets, both block sizes
  1: '1 22050 10 3000 8',
  2: '6 48000 40 5000 9',
  3: '2 44100 0 9000 10 managed=-1,64000,-1',
  4: '1 44100 30 3000 11 bs0=6',   # 64-sample short blocks (half rate must be refused)
  5: '1 8000 50 2000 12',
  6: '2 44100 60 12000 13 sig=3',  # impulses: many short/long transitions
  7: '1 44100 40 1 14',
  8: '1 16000 20 0 15',
  9: '2 44100 40 16000 16 sig=4',  # coupled stereo with one channel going exactly silent (its floor is flagged unused)
}
NA = {}   # audio packet count per link, learnt from the first trace (PNew events)

def prelude(links): return [f'link {l} {LINKS[l]}' for l in sorted(set(links))]

HDRS = ['phdr 0 0', 'phdr 0 1', 'phdr 0 2']
def opening(l, hs=0): return [f'pnew 0 {l}'] + HDRS + (['phr 0 1'] if hs else []) + ['pinit 0']

def model_check(tier):
    cfgs = ['PktDec_MC_8_16_0.cfg', 'PktDec_MC_8_32_1.cfg', 'PktDec_MC_tog_8_16.cfg'] if tier == 'quick' else sorted(os.path.basename(c) for c in glob.glob(os.path.join(vlib.SPEC, 'PktDec_MC_*.cfg')))
    def run(c): return c, vlib.run_tlc('PktDec_MC.tla', c, workers=5, timeout=1500)
    with ThreadPoolExecutor(max_workers=3) as ex: rs = list(ex.map(run, cfgs))
    wcfg = os.path.join(vlib.SPEC, f'.pk_w_{os.getpid()}.cfg')
    open(wcfg, 'w').write('SPECIFICATION Spec\nCONSTANTS BS0 = 8\n BS1 = 16\n HS = 0\n MaxLen = 5\n Gen = FALSE\n Toggles = FALSE\nINVARIANT NeverEndTrim\nCHECK_DEADLOCK FALSE\n')
    w = vlib.run_tlc('PktDec_MC.tla', os.path.basename(wcfg), workers=1, timeout=300); os.remove(wcfg)
    stats = dict(states=0, transitions=0, runs={}); problems = []
    for c, r in rs:
        stats['runs'][c] = dict(ok=bool(r['ok']), distinct=r['distinct'], generated=r['generated'], wall=round(r['wall'], 1))
        stats['states'] += r['distinct']; stats['transitions'] += r['generated']
        if r['violated']: problems.append(('design', c, r['out'][-2500:]))
        elif not r['ok']: problems.append(('infra', c, r['out'][-600:]))
    if not w['violated']: problems.append(('vacuous', 'NeverEndTrim', 'end trim not reachable in the bounded model'))
    return stats, problems

def gen_histories(seed, n, depth):
    out = []
    def one(i):
        bs1, hs, tog = [(16, 0, False), (32, 0, True), (16, 1, True), (8, 0, False)][i % 4]
        cfg = os.path.join(vlib.SPEC, f'.pk_gen_{os.getpid()}_{i}.cfg')
        open(cfg, 'w').write(f'SPECIFICATION Spec\nCONSTANTS BS0 = 8\n BS1 = {bs1}\n HS = {hs}\n MaxLen = {depth}\n Gen = TRUE\n Toggles = {("TRUE" if tog else "FALSE")}\nINVARIANT Export\nINVARIANT StoreOK\nCHECK_DEADLOCK FALSE\n')
        r = vlib.run_tlc('PktDec_MC.tla', os.path.basename(cfg), workers=1, simulate=max(3, n // 4), depth=depth + 2, seed=seed * 37 + i, timeout=200); os.remove(cfg)
        return [(hs, json.loads(m.replace('\\"', '"'))) for m in re.findall(r'"HIST (\[.*\])"', r['out'])]
    with ThreadPoolExecutor(max_workers=4) as ex:
        for o in ex.map(one, range(4)): out += o
    seen = set(); res = []
    for h in out:
        k = json.dumps(h)
        if k not in seen: seen.add(k); res.append(h)
    random.Random(seed).shuffle(res)
    return res[:n]

def scn_from_hist(rng, i, hs, h, l, na):
    """concretise a TLC history on a real stream: packets are taken in stream order (a gap skips one), granule kinds become offsets of the true value"""
    ls = opening(l, hs); k = 0
    for st in h:
        op = st[0]
        if op in ('syn', 'trk'):
            gap, gk, eos = int(st[1]), st[2], int(st[3]); k += gap
            if k >= na: k = rng.randrange(na)
            g = {'none': 'gp=-1', 'exact': 'gp=keep', 'short1': f'gp=REL-1', 'back': 'gp=REL-5000', 'zero': 'gp=0', 'far': 'gp=REL+5000', 'neg': 'gp=-5'}[gk]
            ls.append(f"{'psyn' if op == 'syn' else 'ptrk'} 0 {k} {g} eos={eos}" + (f' no={3 + k}' if True else ''))
            ls.append('pout 0'); k += 1
        elif op == 'read': ls.append(f'pread 0 {st[1]}')
        elif op == 'rest': ls.append('prest 0')
        elif op == 'lap': ls.append('plap 0')
        elif op == 'hr': ls.append(f'phr 0 {st[1]}')
    ls += ['pout 0', 'pread 0 -1', 'pclr 0 bdci']
    return Scn(f'tla-{i}-L{l}', ls, 'tla-adversarial', budget=30)

def resolve_rel(scns, gps):
    """replace gp=REL+-x by concrete values using the true granule positions of the link (learnt from a probe run)"""
    for s in scns:
        m = re.match(r'pnew 0 (\d+)', s.lines[0]); l = int(m.group(1)) if m else 0
        for j, ln in enumerate(s.lines):
            mm = re.search(r'^(psyn|ptrk) 0 (\d+) .*gp=REL([+-]\d+)', ln)
            if mm:
                k = int(mm.group(2)); true = gps.get(l, {}).get(k, 0)
                v = max(0, true + int(mm.group(3)))
                s.lines[j] = re.sub(r'gp=REL[+-]\d+', f'gp={v}', ln)

def fam_locality(rng, links, per_link, na, thorough=False):
    out = []
    for l in links:
        n = na.get(l, 10)
        if n < 5: continue
        for rep in range(per_link):
            hs = 1 if (rep % 4 == 3 and l != 4) else 0
            keep = rng.choice([1, 1, 5, 3])            # which packets keep their granule position (page layouts)
            d = rng.randrange(1, n - 2); kind = rng.choice(['drop', 'dup', 'trunc', 'flip', 'flips', 'hdr', 'restart', 'zero', 'drop2', 'trk', 'modeflip', 'retry'])
            if rep == 3: kind = 'retry'; d = rng.randrange(2, n - 2)
            if rep < 3: kind = 'modeflip'; d = rng.randrange(1, max(2, n // 2))          # every link sees it: an early packet that claims the other block size and still decodes
            ls = opening(l, hs)
            def syn(k, extra=''):
                g = '' if (keep == 1 or (k + 1) % keep == 0 or k == n - 1) else ' gp=-1'
                return [f'psyn 0 {k}{g}{extra}', 'pout 0', 'pread 0 -1']
            for k in range(0, d): ls += syn(k)
            if kind == 'retry' and d >= 2:
                # block d is offered while the samples of d-1 are still unread: refused, and the refusal must leave nothing behind - drained and offered again it decodes as ever
                ls = ls[:-1] + [f'psyn 0 {d}', 'pread 0 -1'] + syn(d)
            if kind == 'drop': pass
            elif kind == 'drop2': d += 1
            elif kind == 'dup': ls += syn(d) + syn(d)
            elif kind == 'trunc': ls += syn(d, f' m=trunc:{rng.choice([0, 1, 2, 5, 20, 60])}')
            elif kind == 'flip': ls += syn(d, f' m=flip:{rng.randrange(8, 4000)}')
            elif kind == 'modeflip': ls += syn(d, f' m=flip:{rng.choice([1, 1, 1, 2, 3, 5])}')          # the mode field and the window flags behind it
            elif kind == 'flips': ls += syn(d, f' m=flips:{rng.randrange(1000)}:{rng.choice([2, 5, 30])}')
            elif kind == 'zero': ls += syn(d, f' m=zero:{rng.choice([1, 3, 10])}')
            elif kind == 'hdr': ls += syn(d, ' m=hdr')
            elif kind == 'restart': ls += ['prest 0'] + syn(d)
            elif kind == 'trk': ls += [f'ptrk 0 {d}', 'pout 0']
            for k in range(d + 1, n): ls += syn(k)
            ls += ['pclr 0 bdci']
            out.append(Scn(f'loc-L{l}-{kind}@{d}-hs{hs}-keep{keep}-{rep}', ls, 'locality-' + kind, budget=30, cost=len(ls)))
    if thorough:
        # every single bit of chosen packets
        for l in links[:2]:
            n = na.get(l, 10)
            for d in (2, n // 2):
                for bit in range(0, 1200):
                    ls = opening(l)
                    for k in range(0, d): ls += [f'psyn 0 {k}', 'pout 0', 'pread 0 -1']
                    ls += [f'psyn 0 {d} m=flip:{bit}', 'pout 0', 'pread 0 -1']
                    for k in range(d + 1, min(n, d + 5)): ls += [f'psyn 0 {k}', 'pout 0', 'pread 0 -1']
                    ls += ['pclr 0 bdci']
                    out.append(Scn(f'bit-L{l}-p{d}-b{bit}', ls, 'locality-everybit', budget=30, cost=len(ls)))
    return out

ALPH = ['phdr 0 0', 'phdr 0 1', 'phdr 0 2', 'phdr 0 a2', 'phdr 0 e', 'phdr 0 0 m=trunc:7', 'phdr 0 2 m=trunc:200', 'phdr 0 1 m=trunc:9', 'pinit 0', 'phr 0 1', 'phr 0 0',
        'psyn 0 K', 'psyn 0 K', 'psyn 0 K m=hdr', 'psyn 0 K m=trunc:1', 'psyn 0 K m=trunc:0', 'psyn 0 K gp=0 eos=1', 'ptrk 0 K', 'pblk 0', 'pout 0', 'pread 0 -1', 'pread 0 1', 'pread 0 100000',
        'prest 0', 'plap 0', 'pclr 0 b', 'pclr 0 bd', 'pclr 0 bdci', 'pnew 0 L']

def fam_lifecycle(rng, n, links, na, depth=12):
    out = []
    for i in range(n):
        l = rng.choice(links); ls = [f'pnew 0 {l}']; k = 0
        good = rng.random() < .6
        if good: ls += HDRS[:rng.choice([3, 3, 3, 2, 1])]
        for _ in range(depth):
            a = rng.choice(ALPH)
            if 'K' in a: a = a.replace('K', str(min(k, max(0, na.get(l, 4) - 1)))); k += rng.choice([1, 1, 1, 0, 2])
            if a.endswith(' L'): a = a.replace(' L', f' {rng.choice(links)}'); k = 0
            ls.append(a)
        ls += ['pclr 0 bdci', 'pclr 0 bdci']
        out.append(Scn(f'life-{i}', ls, 'lifecycle-order', budget=30))
    return out

def fam_hdrbits(rng, n, links):
    """header packets with single bit flips / truncations, then initialisation, three audio packets, clears (memory safety only)"""
    out = []
    for i in range(n):
        l = rng.choice(links); which = rng.choice([0, 0, 2, 2, 2, 1])
        mut = rng.choice([f'm=flip:{rng.randrange(0, 240 if which == 0 else 30000)}', f'm=trunc:{rng.randrange(0, 60 if which < 2 else 4000)}', f'm=flips:{rng.randrange(10000)}:{rng.choice([2, 3, 8])}', f'm=zero:{rng.randrange(8, 3000)}'])
        ls = [f'pnew 0 {l}'] + [(h + ' ' + mut) if j == which else h for j, h in enumerate(HDRS)] + ['pinit 0', 'psyn 0 0', 'pout 0', 'pread 0 -1', 'psyn 0 1', 'pout 0', 'pread 0 -1', 'psyn 0 2', 'pout 0', 'plap 0', 'prest 0', 'pclr 0 bdci']
        out.append(Scn(f'hdrmut-{i}-L{l}-h{which}', ls, 'header-mutation', budget=30))
    return out

def probe_links(bindir, links):
    """one clean decode per link to learn packet counts and true granule positions (used to place disturbances, not as an oracle)"""
    scs = []
    for l in links:
        ls = opening(l) + sum(([f'psyn 0 {k}', 'pout 0', 'pread 0 -1'] for k in range(400)), []) + ['pclr 0 bdci']
        scs.append(Scn(f'probe-L{l}', ls, 'probe', budget=30))
    return scs

def run_family(pid, tier, seed, rules, families, rule_desc, level, assumptions, nontrivial, extra_viol=None, extra_cov=None):
    pass

def _common(pid, tier, seed):
    rng = random.Random(seed); bindir = vlib.build('asan')
    links = sorted(LINKS)
    # probe: packet counts / granule positions per link
    pr = run_batch(pid + 'p', [Scn(f'probe-L{l}', opening(l) + sum(([f'psyn 0 {k}', 'pout 0', 'pread 0 -1'] for k in range(60)), []) + ['pclr 0 bdci'], 'probe') for l in links],
                   bindir, 'pdh', *TRACE, prelude=prelude(links), nproc=len(links))
    na = {}; gps = {}
    for l in links:
        evs = pr['scn_events'].get(f'probe-L{l}', [])
        for e in evs:
            if e.get('e') == 'PNew': na[l] = e['na']
            if e.get('e') == 'Synthesis' and e.get('rs') == 0: gps.setdefault(l, {})[e['k']] = e['dgp']
    return rng, bindir, links, na, gps, pr

def check_c11(pid, tier, seed, replay=None):
    if replay: return _replay(pid, replay, 'pdh', *TRACE)
    t0 = time.time(); q = tier == 'quick'
    rng, bindir, links, na, gps, pr = _common(pid, tier, seed)
    mc, problems = model_check('quick')
    use = [0, 1, 2, 3, 5, 6, 9]
    scns = fam_locality(rng, use, 14 if q else 1200, na, thorough=not q)
    for s_ in scns: s_.prelude = prelude(use)
    res = run_batch(pid, scns, bindir, 'pdh', *TRACE, prelude=prelude(use))
    res['infra'] += pr['infra']
    # context for the known finding: a damaged packet that still parses may claim the other block size; if no granule position has been
    # seen yet, the decoder's sample count is off by the difference and the FIRST packet that carries a granule position is begin-trimmed
    for v in res['viols']:
        evs = res['scn_events'].get(v.get('scn'), []); d = None; g = None; seen_gp = False
        for e in evs:
            if e.get('e') not in ('Synthesis', 'TrackOnly') or e.get('rs') != 0: continue
            if d is None:
                if e.get('mut') == 1 and e.get('W') != e.get('cW') and not seen_gp: d = e['k']
                elif e.get('gp', -1) >= 0: seen_gp = True
            elif g is None and e.get('gp', -1) >= 0: g = e['k']
        v['wrongW_before_first_gp'] = (d is not None and g is not None and v.get('event', {}).get('k') == g)
    def nontrivial(s, evs):   # at least one chunk after the disturbance was compared with the clean decode and had to be identical
        return sum(1 for e in evs if e.get('e') == 'PcmOut' and e.get('n', 0) > 0 and e.get('cmp') in (0, 1, 2)) >= 2
    ncmp = sum(1 for s in scns for e in res['scn_events'].get(s.name, []) if e.get('e') == 'PcmOut' and e.get('n', 0) > 0)
    return finish(pid, tier, seed, 'model_checking', scns, res, C11_RULES, t0,
                  'scenarios = real streams (1/2/6 channels, VBR and managed, impulse-rich) decoded through the packet API with one disturbance at packet d (drop one or two packets, duplicate, truncate, flip one / several bits, zero the tail, feed a header as audio, restart, track-only block) for several granule-position layouts and half rate; TLC decides for every delivered chunk whether it is the overlap of two undamaged neighbours and then requires bit-identity with the undisturbed decode wherever both exist; non-trivial = at least two chunks compared; distinct by script hash',
                  nontrivial, ['"undisturbed decode" is the packet-level decode of the same stream by the same build', 'TLC, libogg, ASan build of the current tree'],
                  CHECKER, extra_cov=dict(design_model=mc, chunks_compared=ncmp), preds={'wrong_blocksize_before_first_granule': lambda v, scn: bool(v.get('wrongW_before_first_gp'))},
                  sample_keys={'e', 'k', 'mut', 'rs', 'rb', 'n', 'cn', 'cmp', 'W', 'gp', 'eos', 'avail'})

def check_c02(pid, tier, seed, replay=None):
    if replay: return _replay(pid, replay, 'pdh', *TRACE)
    t0 = time.time(); q = tier == 'quick'
    rng, bindir, links, na, gps, pr = _common(pid, tier, seed)
    with ThreadPoolExecutor(max_workers=2) as ex:
        f1 = ex.submit(model_check, tier); f2 = ex.submit(gen_histories, seed, 60 if q else 5000, 9 if q else 12)
        (mc, problems), hists = f1.result(), f2.result()
    extra_viol = []
    for kind, name, txt in problems:
        if kind == 'design':
            os.makedirs(vlib.REPLAY, exist_ok=True); p = os.path.join(vlib.REPLAY, f'{pid}-design-{name}.txt'); open(p, 'w').write(txt)
            extra_viol.append(dict(replay=p, what=f'design-level invariant violated in {name} (an index of the transcribed blocking machine leaves the ring buffer)'))
    scns = []
    for i, (hs, h) in enumerate(hists):
        l = [0, 1, 6, 3][i % 4]
        scns.append(scn_from_hist(rng, i, hs, h, l, na.get(l, 10)))
    resolve_rel(scns, gps)
    scns += fam_lifecycle(rng, 300 if q else 60000, links, na) + fam_hdrbits(rng, 400 if q else 90000, [0, 1, 2, 4])
    # synthetic set-ups written by TLC from Setup.tla: well-formed shapes and one-field boundary mutations, decoded with silent and pseudo-random packets
    import checks.syn as SY
    cases, gstats, gproblems = SY.gen_cases(('shapes', 'mutations', 'residue'))
    for rep in range(2 if q else 30): scns += [s for s in SY.build_scenarios(random.Random(seed * 100 + rep), cases, 8 if q else 24, probes=False)]
    for j, s in enumerate(scns): s.name = s.name if not s.name.startswith(('shapes-', 'mutations-', 'residue-')) else f'{s.name}-r{j}'
    problems = problems + gproblems
    for s_ in scns: s_.prelude = prelude(links)
    res = run_batch(pid, scns, bindir, 'pdh', *TRACE, prelude=prelude(links))
    res['infra'] += pr['infra']
    if any(k == 'infra' for k, _, _ in problems): res['infra'].append('TLC failed on a design-level run')
    def nontrivial(s, evs): return len(evs) >= 8
    nrej = sum(1 for s in scns for e in res['scn_events'].get(s.name, []) if e.get('e') in ('HeaderIn', 'Synthesis', 'SynthInit') and (e.get('ret', 0) != 0 or e.get('rs', 0) != 0))
    return finish(pid, tier, seed, 'exploration', scns, res, C02_RULES, t0,
                  'scenarios = TLC-simulated adversarial histories of PktDec_MC (packet order with gaps, granule positions absent/exact/short/backdated/zero/future, end-of-stream flags, track-only blocks, partial reads, restarts) concretised on real streams + random call orders over the whole packet API alphabet (headers in any order and multiplicity, audio as header, header as audio, truncated and empty packets, init before/after headers, half-rate toggles, lapout, blockin twice, clears in pieces) + header packets with bit flips / truncations / zeroed tails followed by init and decode + synthetic set-ups written by TLC from Setup.tla (well-formed shapes and one-field boundary mutations of every part of the setup header) decoded with silent and pseudo-random packets; run under ASan+UBSan with CPU budget and exit trap; non-trivial = at least 8 recorded calls; distinct by script hash',
                  nontrivial, ['structured packets and mutations of encoder-made packets, not arbitrary byte strings; the field-boundary sweep of synthetic headers is in the C01 check',
                               'caller contract: objects initialised before use, dsp/block calls only after a successful synthesis_init'],
                  CHECKER, extra_cov=dict(design_model=mc, tla_histories=len(hists), rejections_observed=nrej), extra_viol=extra_viol,
                  sample_keys={'e', 'k', 'mut', 'rs', 'rb', 'ret', 'n', 'which', 'W', 'gp', 'eos', 'avail', 'cmd'})

"""./check setup : build all harness variants from /repo, parse every spec with SANY, smoke-run TLC."""
import os, glob, subprocess, sys
import vlib
def run():
    os.makedirs(os.path.join(vlib.BUILD,'tlc'), exist_ok=True)
    os.makedirs(vlib.EVID, exist_ok=True)
    vlib.build('asan')
    bad = 0
    for f in sorted(glob.glob(os.path.join(vlib.SPEC,'*.tla'))):
        r = subprocess.run(['java','-cp',f'{vlib.TLAJAR}:{vlib.CMJAR}','tla2sany.SANY',os.path.basename(f)], cwd=vlib.SPEC, stdout=subprocess.PIPE, stderr=subprocess.STDOUT)
        out = r.stdout.decode(errors='replace')
        if 'Semantic errors' in out or 'Parse Error' in out or 'Fatal errors' in out or r.returncode != 0:
            print('SANY FAILED', f); print(out[-1500:]); bad += 1
    print('setup ok' if not bad else f'setup: {bad} spec(s) failed to parse')
    return 1 if bad else 0

#!/usr/bin/env python3
"""vlib.py — shared machinery of the /verif checks: build of the /repo tree,
TLC launching, trace validation, evidence writing, known-findings handling."""
import os, sys, json, subprocess, hashlib, time, shutil, fcntl, re, glob, tempfile, random

VERIF = os.path.dirname(os.path.abspath(__file__))
REPO = os.environ.get('VERIF_REPO', '/repo')
BUILD = os.path.join(VERIF, 'build')
SPEC = os.path.join(VERIF, 'spec')
HARN = os.path.join(VERIF, 'harness')
# evidence describes /repo itself: a run against another tree (VERIF_REPO, used to try seeded changes) keeps its files away from it
EVID = os.path.join(VERIF, 'evidence') if REPO == '/repo' else os.path.join(VERIF, 'build', 'evidence-other-tree')
REPLAY = os.path.join(VERIF, 'replay')
TLAJAR = '/opt/veriftools/tla/tla2tools.jar'
CMJAR = '/opt/veriftools/tla/CommunityModules-deps.jar'
NCPU = os.cpu_count() or 4

LIBSRC = ['mdct.c','smallft.c','block.c','envelope.c','window.c','lsp.c','lpc.c','analysis.c','synthesis.c',
          'psy.c','info.c','floor1.c','floor0.c','res0.c','mapping0.c','registry.c','codebook.c','sharedbook.c',
          'lookup.c','bitrate.c','vorbisfile.c','vorbisenc.c']

VARIANTS = {
  'asan': dict(cc='clang', flags='-O1 -g -fno-omit-frame-pointer -fsanitize=address,bounds,integer-divide-by-zero,null,vla-bound,return,unreachable -fno-sanitize-recover=all -DXIPH_VORBIS_VERIF',
               ld='-fsanitize=address,bounds,integer-divide-by-zero,null,vla-bound,return,unreachable'),
  'plain': dict(cc='gcc', flags='-O2 -g -DXIPH_VORBIS_VERIF', ld=''),
  'tsan': dict(cc='clang', flags='-O1 -g -fsanitize=thread -DXIPH_VORBIS_VERIF', ld='-fsanitize=thread'),
}

# harness programs: name -> (sources, extra link flags)
PROGRAMS = {
  'vfh':  (['vfh.c','streams.c'], '-Wl,--wrap=exit'),
  'ench': (['ench.c','scn.c','streams.c'], '-Wl,--wrap=exit'),
  'pdh':  (['pdh.c','scn.c','streams.c'], '-Wl,--wrap=exit'),
  'insth': (['insth.c','scn.c','streams.c'], '-Wl,--wrap=exit'),
  'cmh':  (['cmh.c','scn.c','streams.c'], '-Wl,--wrap=exit -Wl,--wrap=toupper -Wl,--wrap=tolower -Wl,--wrap=strcasecmp -Wl,--wrap=strncasecmp'),
}

def log(*a):
    print(*a, file=sys.stderr, flush=True)

def sh(cmd, **kw):
    return subprocess.run(cmd, shell=isinstance(cmd,str), **kw)

def tree_stamp():
    h = hashlib.sha256()
    files = []
    for d in ('lib','include'):
        for root,_,fs in os.walk(os.path.join(REPO,d)):
            for f in fs:
                if f.endswith(('.c','.h')):
                    files.append(os.path.join(root,f))
    for p in sorted(files):
        st = os.stat(p)
        h.update(p.encode()); h.update(str(st.st_size).encode())
        with open(p,'rb') as fh: h.update(fh.read())
    for p in sorted(glob.glob(os.path.join(HARN,'*.[ch]'))):
        with open(p,'rb') as fh: h.update(p.encode()); h.update(fh.read())
    h.update(json.dumps(VARIANTS,sort_keys=True).encode()); h.update(json.dumps(PROGRAMS,sort_keys=True).encode())
    return h.hexdigest()

def build(variant='asan', programs=None):
    """(Re)build library objects from REPO working tree + harness programs. Returns dir of binaries."""
    os.makedirs(BUILD, exist_ok=True)
    tag = hashlib.sha256(REPO.encode()).hexdigest()[:8]
    out = os.path.join(BUILD, f'{variant}-{tag}')
    os.makedirs(out, exist_ok=True)
    lock = open(os.path.join(BUILD, f'.lock-{variant}-{tag}'), 'w')
    fcntl.flock(lock, fcntl.LOCK_EX)
    try:
        stamp = tree_stamp()
        sf = os.path.join(out, 'STAMP')
        want = programs or list(PROGRAMS)
        if os.path.exists(sf) and open(sf).read() == stamp and all(os.path.exists(os.path.join(out,p)) for p in want):
            return out
        v = VARIANTS[variant]
        t0 = time.time()
        procs = []
        inc = f'-I{REPO}/include -I{REPO}/lib -I{HARN}'
        for s in LIBSRC:
            o = os.path.join(out, s.replace('.c','.o'))
            procs.append((s, subprocess.Popen(f"{v['cc']} {v['flags']} -w {inc} -c {REPO}/lib/{s} -o {o}", shell=True, stderr=subprocess.PIPE)))
        hsrc = sorted(set(x for p in PROGRAMS.values() for x in p[0]))
        for s in hsrc:
            o = os.path.join(out, 'h_'+s.replace('.c','.o'))
            procs.append((s, subprocess.Popen(f"{v['cc']} {v['flags']} -Wall -Wno-unused-function {inc} -c {HARN}/{s} -o {o}", shell=True, stderr=subprocess.PIPE)))
        bad = False
        for s,p in procs:
            _,err = p.communicate()
            if p.returncode != 0:
                log(f'BUILD ERROR {s}:\n{err.decode()[:4000]}'); bad = True
            elif err and s in hsrc and os.environ.get('VERIF_WARN'):
                log(err.decode()[:2000])
        if bad: raise SystemExit(2)
        libo = ' '.join(os.path.join(out, s.replace('.c','.o')) for s in LIBSRC)
        for name,(srcs,ldx) in PROGRAMS.items():
            ho = ' '.join(os.path.join(out,'h_'+s.replace('.c','.o')) for s in srcs)
            r = sh(f"{v['cc']} {v['ld']} {ldx} -o {out}/{name} {ho} {libo} -logg -lm -lpthread", stderr=subprocess.PIPE)
            if r.returncode != 0:
                log(f'LINK ERROR {name}:\n{r.stderr.decode()[:4000]}'); raise SystemExit(2)
        open(sf,'w').write(stamp)
        log(f'[build] {variant} built from {REPO} in {time.time()-t0:.1f}s')
        return out
    finally:
        fcntl.flock(lock, fcntl.LOCK_UN); lock.close()

def run_harness(bindir, prog, script_path, out_path, timeout=600, env=None):
    e = dict(os.environ)
    e['ASAN_OPTIONS'] = 'exitcode=99:detect_leaks=0:abort_on_error=0:allocator_may_return_null=1:handle_segv=1'
    e['UBSAN_OPTIONS'] = 'print_stacktrace=1:halt_on_error=1:exitcode=99'
    if env: e.update(env)
    errp = out_path + '.stderr'
    with open(errp,'w') as ef:
        try:
            r = subprocess.run([os.path.join(bindir,prog), script_path, out_path], env=e, stderr=ef, stdout=ef, timeout=timeout)
            return r.returncode
        except subprocess.TimeoutExpired:
            return 124

# ---------------------------------------------------------------- TLC
def java_cmd(xmx='4g', serial=True, extra_props=None):
    c = ['java']
    if serial: c.append('-XX:+UseSerialGC')
    else: c.append('-XX:+UseParallelGC')
    c += [f'-Xmx{xmx}', '-Xss16m']
    for k,v in (extra_props or {}).items(): c.append(f'-D{k}={v}')
    c += ['-cp', f'{TLAJAR}:{CMJAR}', 'tlc2.TLC']
    return c

def spec_digest():
    """digest of everything under /verif/spec that TLC reads: the result of a design-level run depends on nothing else"""
    import hashlib, glob
    d = hashlib.sha256()
    for fn in sorted(glob.glob(os.path.join(SPEC, '*.tla')) + glob.glob(os.path.join(SPEC, '*.cfg'))):
        if os.path.basename(fn).startswith('.'): continue
        d.update(os.path.basename(fn).encode()); d.update(open(fn, 'rb').read())
    return d.hexdigest()[:24]

def run_tlc_cached(module, cfg, **kw):
    """run_tlc for design-level runs (no TRACE, no /repo): a successful result is kept under build/cache keyed by the digest of /verif/spec and reused;
       failures are never cached; VERIF_NOCACHE=1 disables it"""
    cdir = os.path.join(BUILD, 'cache'); os.makedirs(cdir, exist_ok=True)
    key = f"tlc-{module}-{cfg}-{kw.get('simulate')}-{kw.get('depth')}-{kw.get('seed')}-{spec_digest()}.json".replace('/', '_')
    cf = os.path.join(cdir, key)
    if os.path.exists(cf) and not os.environ.get('VERIF_NOCACHE'):
        try:
            r = json.load(open(cf)); r['cached'] = True; return r
        except Exception: pass
    r = run_tlc(module, cfg, **kw)
    if r.get('ok'):
        tmp = cf + f'.{os.getpid()}'; json.dump({k: r[k] for k in r if k in ('rc', 'out', 'generated', 'distinct', 'ok', 'violated', 'error', 'wall')}, open(tmp, 'w')); os.replace(tmp, cf)
    return r

_tlc_re_states = re.compile(r'(\d+) states generated, (\d+) distinct states found')
def run_tlc(module, cfg, workers=1, env=None, timeout=1200, xmx='4g', simulate=None, depth=None, extra=None, cwd=None, metadir=None, coverage=False, dfs=False, seed=None, deadlock=False):
    """Run TLC; returns dict(rc, out, generated, distinct, ok, violated, error)."""
    cwd = cwd or SPEC
    md = metadir or tempfile.mkdtemp(prefix='tlc-', dir=os.path.join(BUILD,'tlc') if os.path.isdir(os.path.join(BUILD,'tlc')) else None)
    props = {}
    if dfs: props['tlc2.tool.queue.IStateQueue'] = 'StateDeque'
    cmd = java_cmd(xmx=xmx, serial=(workers==1), extra_props=props)
    cmd += ['-workers', str(workers), '-metadir', md, '-config', cfg, '-noGenerateSpecTE']
    if not deadlock: cmd += ['-deadlock']  # -deadlock disables deadlock checking
    if simulate: cmd += ['-simulate', f'num={simulate}']
    if depth: cmd += ['-depth', str(depth)]
    if coverage: cmd += ['-coverage', '1']
    if seed is not None: cmd += ['-seed', str(seed)]
    if extra: cmd += extra
    cmd += [module]
    e = dict(os.environ); e.pop('JAVA_TOOL_OPTIONS', None)
    if env: e.update(env)
    t0 = time.time()
    try:
        r = subprocess.run(cmd, cwd=cwd, env=e, stdout=subprocess.PIPE, stderr=subprocess.STDOUT, timeout=timeout)
        out = r.stdout.decode(errors='replace'); rc = r.returncode
    except subprocess.TimeoutExpired as ex:
        out = (ex.stdout or b'').decode(errors='replace') + '\nTIMEOUT'; rc = 124
    shutil.rmtree(md, ignore_errors=True)
    gen = dist = 0
    for m in _tlc_re_states.finditer(out): gen, dist = int(m.group(1)), int(m.group(2))
    res = dict(rc=rc, out=out, generated=gen, distinct=dist, wall=time.time()-t0)
    res['ok'] = (rc == 0 and 'Model checking completed. No error has been found' in out) or (simulate and rc == 0)
    res['violated'] = ('is violated' in out) or ('Error: Invariant' in out) or ('Error: Action property' in out) or ('Assumption' in out and 'is false' in out) or ('Temporal properties were violated' in out) or ('Error: The postcondition' in out)
    res['error'] = (not res['ok']) and (not res['violated'])
    return res

def tlc_coverage(out):
    """Parse -coverage output: {action: (taken, generated)}"""
    cov = {}
    for m in re.finditer(r'<(\w+) line \d+, col \d+ to line \d+, col \d+ of module (\w+)>: (\d+):(\d+)', out):
        cov[m.group(2)+'.'+m.group(1)] = (int(m.group(3)), int(m.group(4)))
    return cov

def validate_trace(module, cfg, trace_path, timeout=1200, xmx='4g', extra_env=None):
    """Validate an ndjson trace with a *_Trace module. Accept = TLC finishes clean (postcondition holds)."""
    env = {'TRACE': trace_path}
    if extra_env: env.update(extra_env)
    r = run_tlc(module, cfg, workers=1, env=env, timeout=timeout, xmx=xmx)
    return r

# ---------------------------------------------------------------- findings / evidence
def load_known():
    p = os.path.join(VERIF,'known_findings.json')
    if not os.path.exists(p): return []
    return json.load(open(p))

def write_evidence(pid, tier, seed, level, coverage, wall, violations, assumptions=None):
    os.makedirs(EVID, exist_ok=True)
    ev = dict(property_id=pid, tier=tier, seed=int(seed), level=level, coverage=coverage, wall_s=round(wall,2), violations=int(violations))
    if assumptions: ev['assumptions'] = assumptions
    tmp = os.path.join(EVID, f'.{pid}.json.tmp')
    json.dump(ev, open(tmp,'w'), indent=1)
    os.replace(tmp, os.path.join(EVID, f'{pid}.json'))

def read_ndjson(path):
    out = []
    with open(path) as f:
        for ln in f:
            ln = ln.strip()
            if ln:
                try: out.append(json.loads(ln))
                except Exception: out.append({'e':'Garbled','raw':ln[:200]})
    return out

def split_scenarios(events):
    """Split list of events at Reset markers -> list of lists (each starting with Reset)."""
    scs = []; cur = None
    for e in events:
        if e.get('e') == 'Reset':
            cur = [e]; scs.append(cur)
        elif cur is not None: cur.append(e)
    return scs

#!/usr/bin/env python3
"""keep_seed.py <PID> <n> <breaks> <needs> <detected_by> [ported]  : store a confirmed seeded change under /verif/seeded/<PID>-<n>/"""
import sys, os, shutil, json, re
pid, n, breaks, needs, det = sys.argv[1:6]
src = f'/tmp/seed/{pid}/out/change{n}'
dst = f'/verif/seeded/{pid}-{n}'
os.makedirs(dst, exist_ok=True)
for f in os.listdir(src):
    if os.path.isfile(os.path.join(src,f)) and os.path.getsize(os.path.join(src,f)) < 400000:
        shutil.copy(os.path.join(src,f), dst)
conf = ''
import glob
for l in sum((open(f).read().splitlines() for f in sorted(glob.glob('/tmp/seed/confirm*.log'))), []):
    if l.startswith(f'{pid}/{n}:'): conf = l
meta = dict(property=pid, change=int(n), breaks=breaks, needs_to_manifest=needs,
            confirmed_by_me=dict(how='tools/confirm_seed.sh in the scratch worktree /tmp/seed/%s/wt (worktree of /repo HEAD at the time): patch applies, tree builds, ctest 100%% passed, demo exits 0 without the patch and non-zero with it' % pid, result=conf),
            patch='patch.diff is against /repo HEAD at the time of seeding (%s)' % os.popen('git -C /repo rev-parse --short HEAD').read().strip() + ('; ported.diff is the same change re-expressed on /repo HEAD (context changed by fix: commits)' if os.path.exists(os.path.join(dst,'ported.diff')) else ''),
            detected_by=det, run='tools/seedtest.sh <patch> <checks> (scratch worktree of /repo HEAD + VERIF_REPO, quick tier, VERIF_SEED=1)')
json.dump(meta, open(os.path.join(dst,'meta.json'),'w'), indent=1)
print('kept', dst)

#!/bin/bash
# seedtest.sh <patch.diff> <check> [<check>...] : apply a seeded change to a scratch worktree of /repo HEAD and run quick checks against it.
# Prints one line per check: DETECTED / missed.
P=$1; shift
WT=/tmp/seedrepo.$$
git -C /repo worktree add --detach $WT HEAD -q || exit 2
cd $WT
if ! git apply $P 2>/dev/null; then
  if ! git apply -3 $P 2>/dev/null; then
    if ! patch -p1 --fuzz=3 -s < $P; then echo "PATCH-FAILED $P"; cd /; git -C /repo worktree remove --force $WT; exit 3; fi
  fi
fi
cd /verif
for c in "$@"; do
  out=/tmp/seedtest.$$.$c.out
  VERIF_REPO=$WT VERIF_SEED=${VERIF_SEED:-1} ./check $c --tier ${TIER:-quick} > $out 2>&1; rc=$?
  n=$(grep -c "^VIOLATION" $out)
  if [ $rc -eq 1 ] && [ $n -gt 0 ]; then echo "DETECTED by $c ($n violation lines): $(grep -A1 '^VIOLATION' $out | grep -m1 'rules\|  ' | cut -c1-200)"; else echo "missed by $c (rc=$rc) $(tail -1 $out | cut -c1-120)"; fi
done
git -C /repo worktree remove --force $WT
rm -rf /verif/build/asan-$(python3 -c "import hashlib;print(hashlib.sha256('$WT'.encode()).hexdigest()[:8])") 2>/dev/null

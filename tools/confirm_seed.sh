#!/bin/bash
# confirm_seed.sh <PID> <n> : independently confirm a seeded change in its scratch worktree:
#  patch applies, tree builds, ctest passes, demo fails with the patch and passes without it.
P=$1; N=$2; WT=/tmp/seed/$P/wt; D=/tmp/seed/$P/out/change$N
set -o pipefail
cd $WT || exit 2
git checkout -q -- . ; git clean -fdq -e _build
LIBS="$WT/_build/lib/libvorbisfile.a $WT/_build/lib/libvorbisenc.a $WT/_build/lib/libvorbis.a -logg -lm -lpthread"
build(){ cmake -G Ninja -S $WT -B $WT/_build -DBUILD_TESTING=ON -DCMAKE_BUILD_TYPE=RelWithDebInfo -DCMAKE_C_FLAGS=-Wno-error >/dev/null 2>&1; cmake --build $WT/_build >/dev/null 2>&1; }
demo(){ if [ -f $D/demo.sh ]; then (cd $D && bash demo.sh $WT) >/tmp/seed/$P/demo$N.$1.log 2>&1; else cc -O1 -o /tmp/seed/$P/demo$N $D/demo.c -I$WT/include -I$WT/lib $LIBS >/tmp/seed/$P/demo$N.cc.log 2>&1 && timeout 120 /tmp/seed/$P/demo$N >/tmp/seed/$P/demo$N.$1.log 2>&1; fi; echo $?; }
build || { echo "$P/$N: original build failed"; exit 2; }
R0=$(demo orig)
git apply $D/patch.diff || { echo "$P/$N: patch does not apply"; exit 2; }
build || { echo "$P/$N: patched build FAILED"; git checkout -q -- .; exit 1; }
CT=$(ctest --test-dir $WT/_build -j8 --timeout 900 2>&1 | grep -c "100% tests passed")
R1=$(demo patched)
git checkout -q -- . ; build
echo "$P/$N: demo_orig_exit=$R0 demo_patched_exit=$R1 ctest_pass=$CT lines_changed=$(grep -c '^[+-][^+-]' $D/patch.diff)"

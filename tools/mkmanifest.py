#!/usr/bin/env python3
import json, sys, os
sys.path.insert(0,'/verif')
from checks.registry import CHECKS, META, NOT_APPLICABLE
ids=[json.loads(l)['id'] for l in open('/verif/properties.jsonl')]
hooks_commits=[]
try:
    hooks_commits=json.load(open('/verif/hooks.json'))['source_commits']
except Exception: pass
m={"version":1,"setup_cmd":"./check setup",
 "hooks":{"guard":"XIPH_VORBIS_VERIF","enable":"harness build compiles /repo/lib/*.c with -DXIPH_VORBIS_VERIF (clang ASan+UBSan subset), see vlib.py VARIANTS","baseline_off_cmd":"(test -f /repo/_build/build.ninja || cmake -G Ninja -S /repo -B /repo/_build -DBUILD_TESTING=ON >/dev/null) && cmake --build /repo/_build && ctest --test-dir /repo/_build -j8 --timeout 900","source_commits":hooks_commits,"add_only":True},
 "engines":[{"name":"tlc","path":"/opt/veriftools/tla/tla2tools.jar","serves_properties":sorted(CHECKS),"kind_free_text":"TLC model checker: exhaustive checks of the TLA+ specs in /verif/spec, behaviour generation (-simulate), trace validation of ndjson traces recorded from the real library"}],
 "checks":[], "not_applicable":[], "notes":"see DESIGN.md; known_findings.json lists genuine defects (all repaired so far by fix: commits)"}
for pid in ids:
    if pid in CHECKS:
        x=META[pid]
        m["checks"].append({"property_id":pid,"quick_cmd":f"./check {pid} --tier quick","thorough_cmd":f"./check {pid} --tier thorough",
          "evidence_file":f"/verif/evidence/{pid}.json","replay_cmd_template":f"./check {pid} --replay {{path}}","engine":"tlc",
          "level_claimed":{"category":x['level'],"text":x['text'],"design_ref":x['design']},"level_note":x['note'],"technique":x['technique']})
    else:
        m["not_applicable"].append({"property_id":pid,"reason":NOT_APPLICABLE.get(pid,"check not built yet (framework under construction; planned per DESIGN.md section 5)")})
json.dump(m,open('/verif/MANIFEST.json','w'),indent=1)
print('checks',len(m['checks']),'n/a',len(m['not_applicable']))

#!/usr/bin/env python3
"""Print the prompt given to an independent seeding sub-agent for one property.
Only the property text and the scratch worktree path are disclosed."""
import json,sys
pid=sys.argv[1]; n=sys.argv[2] if len(sys.argv)>2 else "2"
p=[json.loads(l) for l in open('/verif/properties.jsonl') if json.loads(l)['id']==pid][0]
print(f"""You are helping to evaluate a verification framework for xiph/vorbis (libvorbis, the reference C implementation of Ogg Vorbis: encoder, decoder, vorbisfile). Your job is to play the role of a developer who introduces a realistic, subtle regression.

You have your own scratch git worktree of the repository at /tmp/seed/{pid}/wt (current development head, clean). Work ONLY inside /tmp/seed/{pid}/ . Never read or write /repo or /verif (they are off limits; do not look at them at all). No network is available.

Build and test the worktree like this (takes ~1-2 minutes):
  cmake -G Ninja -S /tmp/seed/{pid}/wt -B /tmp/seed/{pid}/wt/_build -DBUILD_TESTING=ON -DCMAKE_BUILD_TYPE=RelWithDebInfo -DCMAKE_C_FLAGS=-Wno-error >/dev/null
  cmake --build /tmp/seed/{pid}/wt/_build
  ctest --test-dir /tmp/seed/{pid}/wt/_build -j8 --timeout 900      (must report 100% passed)
Static libs land in /tmp/seed/{pid}/wt/_build/lib/libvorbis.a, libvorbisenc.a, libvorbisfile.a; libogg is a system library (-logg). Link demo programs as: cc demo.c -I/tmp/seed/{pid}/wt/include [-I/tmp/seed/{pid}/wt/lib] /tmp/seed/{pid}/wt/_build/lib/libvorbisfile.a /tmp/seed/{pid}/wt/_build/lib/libvorbisenc.a /tmp/seed/{pid}/wt/_build/lib/libvorbis.a -logg -lm

The semantic property under study:

  Title: {p['title']}
  Statement: {p['statement']}
  Quantified over: {p['quantifier']['text']}

Task: produce {n} DIFFERENT source changes to the library (files under lib/ or include/ of the worktree), each of which
  (a) still compiles, and the existing test suite (ctest above) still passes 100%,
  (b) BREAKS the property above (a real behavioural violation of the statement, not a style change),
  (c) needs something specific to manifest: a particular multi-step sequence of operations, an unusual but legal input or configuration, a fault at a particular point, a boundary value, or two cooperating sites that each look fine alone. It must NOT be something that ordinary use (encode a file, decode it front to back) exposes at once.
  (d) looks like a plausible developer mistake or misguided optimisation/refactoring (off-by-one, wrong comparison, reordered statements, dropped special case, stale cached value, missed reset, wrong variable), a few lines at most.
Please make the {n} changes target different mechanisms/code sites behind the property.

For each change i (1..{n}) deliver, in /tmp/seed/{pid}/out/change<i>/ :
  - patch.diff : `git diff` of the worktree for that change alone (against the worktree's HEAD), applicable with `git apply`.
  - demo.c (or demo.sh + sources): a small self-contained demonstration program that exits 0 on the ORIGINAL code and exits non-zero (printing what went wrong) WITH the change. It must generate any input it needs itself (e.g. encode noise with libvorbisenc in-process); no external files. Keep its run time under ~20 s.
  - notes.md : which part of the property it breaks, what exactly is needed for it to manifest, and the exact commands you ran with their outcomes (build, ctest summary line, demo on original => exit 0, demo with patch => non-zero).
You must actually verify all of (a),(b): build + ctest with the patch applied, demo result with and without the patch. Important: the demo must pass on the ORIGINAL code - the original code has some pre-existing quirks, so if your demo fails on the original, narrow the demo rather than blaming the original. After finishing each change, revert the worktree (git -C /tmp/seed/{pid}/wt checkout -- .) so the changes are independent. At the end leave the worktree reverted to its HEAD.

Report back a short summary: for each change one paragraph (site, effect, trigger) and whether all verifications succeeded.""")

#!/usr/bin/env python3
"""Regenerate the tables of DESIGN.md that are derived from data: repaired defects (known_findings.json) and seeded changes (seeded/*/meta.json)."""
import json, glob, os, re
D = '/verif/DESIGN.md'; s = open(D).read()
def c(x): return str(x).replace('|', '/').replace('\n', ' ')
k = json.load(open('/verif/known_findings.json'))
fixed = [e for e in k if e.get('status') == 'fixed']
rows = [f"| {e['property']} | `{e['commit']}` | `{c(e['where'])}` | {c(e['what'])} |" for e in fixed]
i = s.index('| property | commit | where | what failed |'); j = s.index('\n\n', i)
s = s[:i] + '| property | commit | where | what failed |\n|---|---|---|---|\n' + '\n'.join(rows) + s[j:]
s = re.sub(r'\*\*Repaired\*\* \(\d+ `fix:` commits', f'**Repaired** ({len(fixed)} `fix:` commits', s)
def keyf(d): m = re.match(r'(C\d+)-(\d+)', os.path.basename(d)); return (m.group(1), int(m.group(2)))
rows = []
for d in sorted(glob.glob('/verif/seeded/C*'), key=keyf):
    m = json.load(open(d + '/meta.json'))
    rows.append(f"| {os.path.basename(d)} | {c(m['breaks'])} | {c(m['needs_to_manifest'])} | {c(m['detected_by'])} |")
i = s.index('| id | breaks | needs | detected by |'); j = s.index('\n\n', i)
s = s[:i] + '| id | breaks | needs | detected by |\n|---|---|---|---|\n' + '\n'.join(rows) + s[j:]
open(D, 'w').write(s); print('repaired', len(fixed), 'seeds', len(rows))

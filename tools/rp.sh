#!/bin/sh
# rp.sh <replay.txt> : run a replay script through the asan harness and print compact events
B=$(ls -d /verif/build/asan-* | head -1)
ASAN_OPTIONS=exitcode=99:detect_leaks=0 $B/vfh $1 /tmp/rp.ndjson 2>/tmp/rp.err
python3 - <<'P'
import json
for i,l in enumerate(open('/tmp/rp.ndjson'),1):
    e=json.loads(l)
    if e['e']=='Stream':
        print(i,'Stream total',e['total'],[(x['id'],x['N'],x['start'],x['bs0'],x['bs1'],x['beg'],x['doff'],x['end']) for x in e['links']], 'pb', [p[:6] for p in e['pb']]); continue
    keep=['e','mode','len','pos','sym','link','rel','expect','ret','bs','t0','ta','id','mf','tell','rs0','rs','cur','off','hs','flag','sig','word']
    print(i,{k:e[k] for k in keep if k in e})
P
tail -5 /tmp/rp.err

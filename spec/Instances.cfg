SPECIFICATION Spec
CONSTANTS NP = 3
 Steps = 4
 Gen = FALSE
INVARIANT Confluent
VIEW View
CHECK_DEADLOCK FALSE

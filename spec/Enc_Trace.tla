----------------------------- MODULE Enc_Trace -----------------------------
(***************************************************************************)
(* Trace validation of recorded encoder-side executions (harness ench):    *)
(* set-up life cycle (EncSetup), blocking machine and round trip through   *)
(* the decoder (Block), rate manager (Bitrate).  One ndjson line = one     *)
(* step; every rule is evaluated at every step; violated rule names are    *)
(* printed as VIOL lines; disagreement with the implementation-shaped      *)
(* transcriptions is printed as DRIFT (model fidelity, never an alarm).    *)
(***************************************************************************)
EXTENDS EncSetup, Block, Bitrate, TLC, Json, IOUtils
Tr == ndJsonDeserialize(IOEnv.TRACE)

Slots == 0..3
VARIABLES l, scn, nviol, ndrift,
          st,      \* slot -> EncSetup abstract state
          bk,      \* slot -> blocking bookkeeping of the encoder in that slot
          dk,      \* slot -> decoder model for "dec" runs
          br       \* rate manager: [P, on, res, dmax, dmin, dmaxR, dminR]
vars == <<l, scn, nviol, ndrift, st, bk, dk, br>>

NoP == [K |-> 15, minb |-> 0, maxb |-> 0, avgb |-> 0, spl |-> 1, R |-> 0, fill |-> 0, rn |-> 0, mxn |-> 0, mnn |-> 0, bs0 |-> 0, bs1 |-> 0, realok |-> FALSE]
NoBr == [P |-> NoP, on |-> FALSE, res |-> 0, dmax |-> 0, dmin |-> 0, dmaxR |-> 0, dminR |-> 0]
NoBk == [ready |-> FALSE, B |-> <<0, 0>>, N |-> 0, fed |-> FALSE, k |-> 0, lastW |-> 0, lastNW |-> 0, endpos |-> 0, eos |-> 0, lastGp |-> 0,
         m |-> EncInit(<<0, 0>>), managed |-> FALSE, hardmax |-> FALSE, vbru |-> 0, vbrn |-> 0, vbrl |-> 0]
NoDk == [d |-> DecRestart(<<0, 0>>, 0), total |-> 0, hs |-> 0, ok |-> FALSE]

Report(kind, rules, e) ==
  IF rules = {} THEN TRUE
  ELSE PrintT(kind \o " " \o ToJson([line |-> l, scn |-> Tr[scn].scn, ev |-> e.e, rules |-> rules]))

Init == /\ l = 1 /\ scn = 1 /\ nviol = 0 /\ ndrift = 0
        /\ st = [x \in Slots |-> InitEnc] /\ bk = [x \in Slots |-> NoBk] /\ dk = [x \in Slots |-> NoDk] /\ br = NoBr

Step(rules, drift, e) ==
  /\ Report("VIOL", rules, e) /\ Report("DRIFT", drift, e)
  /\ nviol' = nviol + Cardinality(rules) /\ ndrift' = ndrift + Cardinality(drift)
  /\ l' = l + 1 /\ UNCHANGED scn

(* ---------------- rate manager ---------------- *)
Samples(P, W) == (IF W = 1 THEN P.bs1 ELSE P.bs0) \div 2
AddBlockStep(e) ==
  LET P == br.P
      obsBits == 8 * e.bytes
      dmax1 == DMax(P, e.W, br.dmax, e.bytes)
      dmin1 == DMin(P, e.W, br.dmin, e.bytes)
      dmaxR1 == IF P.realok /\ P.mxn > 0 THEN MaxI(0, br.dmaxR + obsBits * P.rn - P.mxn * Samples(P, e.W)) ELSE 0
      dminR1 == IF P.realok /\ P.mnn > 0 THEN MaxI(0, br.dminR + P.mnn * Samples(P, e.W) - obsBits * P.rn) ELSE 0
      dom == Domain(P)
      okc == e.choice \in 0..(P.K - 1)
      rules ==
        (IF dom /\ ~WindowMaxOK(P, dmax1) THEN {"HardMaxWindow"} ELSE {}) \cup
        (IF dom /\ ~WindowMinOK(P, dmin1) THEN {"HardMinWindow"} ELSE {}) \cup
        (IF e.ret # 0 THEN {"AddBlockReturnsZero"} ELSE {}) \cup
        (IF okc /\ e.bytes < e.sz[e.choice + 1] /\ P.maxb = 0 THEN {"TruncationOnlyUnderHardMax"} ELSE {}) \cup
        (IF okc /\ e.bytes > e.sz[e.choice + 1] /\ P.minb = 0 THEN {"PaddingOnlyUnderHardMin"} ELSE {}) \cup
        (IF ~okc THEN {"ChoiceInRange"} ELSE {}) \cup
        (IF dom /\ P.realok /\ P.mxn > 0 /\ dmaxR1 > P.R * P.rn THEN {"HardMaxRealUnits"} ELSE {}) \cup
        (IF dom /\ P.realok /\ P.mnn > 0 /\ dminR1 > P.R * P.rn THEN {"HardMinRealUnits"} ELSE {})
      drift == IF dom /\ okc /\ ~(\E o \in Outcomes(P, e.W, e.sz, e.res0) : o.choice = e.choice /\ o.bytes = e.bytes /\ o.res = e.res)
               THEN {"DecisionDiffersFromTranscription"} ELSE {}
  IN /\ Step(rules, drift, e)
     \* a run that already broke the bound is reported once: restart its accumulator
     /\ br' = [br EXCEPT !.res = e.res,
                         !.dmax = IF "HardMaxWindow" \in rules THEN 0 ELSE dmax1, !.dmin = IF "HardMinWindow" \in rules THEN 0 ELSE dmin1,
                         !.dmaxR = IF "HardMaxRealUnits" \in rules THEN 0 ELSE dmaxR1, !.dminR = IF "HardMinRealUnits" \in rules THEN 0 ELSE dminR1]
     /\ UNCHANGED <<st, bk, dk>>

(* ---------------- encoder blocking ---------------- *)
EncStateMatches(m, e) == m.cur = e.cur /\ m.centerW = e.cw /\ m.lW = e.slW /\ m.W = e.sW /\ m.eof = e.eof /\ m.gp = e.sgp /\ m.seq = e.sseq /\ m.pre = (e.pre = 1)

WroteStep(e) ==
  LET b == bk[e.x]
      m1 == IF e.n > 0 THEN EncWrote(b.B, b.m, e.n) ELSE EncEOF(b.B, b.m)
      rules == (IF b.ready /\ e.ret # 0 THEN {"WroteSucceeds"} ELSE {}) \cup
               (IF b.ready /\ b.fed /\ e.n > 0 THEN {} ELSE {})
      drift == IF b.ready /\ e.ret = 0 /\ ~b.fed /\ ~EncStateMatches(m1, e) THEN {"EncoderStateDiffersFromTranscription"} ELSE {}
  IN /\ Step(rules, drift, e)
     /\ bk' = [bk EXCEPT ![e.x] = [b EXCEPT !.N = IF e.ret = 0 /\ e.n > 0 /\ ~b.fed THEN b.N + e.n ELSE b.N,
                                            !.fed = b.fed \/ (e.ret = 0 /\ e.n <= 0),
                                            !.m = [cur |-> e.cur, centerW |-> e.cw, lW |-> e.slW, W |-> e.sW, nW |-> e.snW, eof |-> e.eof, gp |-> e.sgp, seq |-> e.sseq, pre |-> (e.pre = 1)]]]
     /\ UNCHANGED <<st, dk, br>>

PktStep(e) ==
  LET b == bk[e.x]
      ep == IF b.k = 0 THEN 0 ELSE b.endpos + Bs(b.B, b.lastW) \div 4 + Bs(b.B, e.W) \div 4
      okW == e.W \in {0, 1}
      rules ==
        (IF e.type # 0 \/ ~okW THEN {"AudioPacketHeaderValid"} ELSE {}) \cup
        (IF okW /\ e.gp < b.lastGp THEN {"GranulesNeverDecrease"} ELSE {}) \cup
        (IF okW /\ e.gp # (IF b.fed THEN MinOf(ep, b.N) ELSE ep) THEN {"GranuleIsSampleEnd"} ELSE {}) \cup
        (IF b.eos > 0 THEN {"EosOnlyOnLastPacket"} ELSE {}) \cup
        (IF e.eos = 1 /\ ~b.fed THEN {"EosOnlyAfterEndOfInput"} ELSE {}) \cup
        (IF e.eos = 1 /\ e.gp # b.N THEN {"LastGranuleIsN"} ELSE {}) \cup
        (IF okW /\ e.W = 1 /\ b.k > 0 /\ e.lW # b.lastW THEN {"WindowFlagsAgree"} ELSE {}) \cup
        (IF okW /\ b.k > 0 /\ b.lastW = 1 /\ b.lastNW # e.W THEN {"WindowFlagsAgree"} ELSE {}) \cup
        (IF e.no # 3 + b.k THEN {"PacketNumbersSequential"} ELSE {}) \cup
        (IF e.bytes < 1 THEN {"PacketNotEmpty"} ELSE {})
      \* the logged state after the packet must be reachable from the previous one by one blockout for some envelope answer
      drift == IF okW /\ ~(\E env \in {-1, 0, 1} : LET r == EncBlockout(b.B, b.m, env) IN r.ret = 1 /\ EncStateMatches(r.e, e) /\ r.pkt.W = e.W /\ r.pkt.gp = e.gp /\ r.pkt.eos = (e.eos = 1))
               THEN {"EncoderStateDiffersFromTranscription"} ELSE {}
  IN /\ Step(rules, drift, e)
     /\ bk' = [bk EXCEPT ![e.x] = [b EXCEPT !.k = b.k + 1, !.lastW = IF okW THEN e.W ELSE 0, !.lastNW = e.nW, !.endpos = ep, !.eos = b.eos + e.eos, !.lastGp = e.gp,
                                            !.m = [cur |-> e.cur, centerW |-> e.cw, lW |-> e.slW, W |-> e.sW, nW |-> e.snW, eof |-> e.eof, gp |-> e.sgp, seq |-> e.sseq, pre |-> (e.pre = 1)]]]
     /\ UNCHANGED <<st, dk, br>>

EncDoneStep(e) ==
  LET b == bk[e.x]
      rules == (IF b.eos # 1 \/ e.eos # 1 THEN {"ExactlyOneEos"} ELSE {}) \cup
               (IF b.lastGp # b.N \/ e.N # b.N THEN {"LastGranuleIsN"} ELSE {})
  IN Step(rules, {}, e) /\ UNCHANGED <<st, bk, dk, br>>

(* ---------------- decoding what the encoder produced ---------------- *)
DecHdrStep(e) ==
  LET b == bk[e.x]  s == st[e.x]
      rules == (IF e.ret # 0 THEN {"HeadersAccepted"} ELSE {}) \cup
               (IF e.ret = 0 /\ (e.dch # s.ch \/ e.drate # s.rate \/ e.dbru # b.vbru \/ e.dbrn # b.vbrn \/ e.dbrl # b.vbrl) THEN {"HeaderConveysInfo"} ELSE {}) \cup
               (IF e.ret = 0 /\ e.i = 2 /\ (e.dbs0 # b.B[1] \/ e.dbs1 # b.B[2]) THEN {"HeaderConveysInfo"} ELSE {})
  IN Step(rules, {}, e) /\ UNCHANGED <<st, bk, dk, br>>

DecInitStep(e) ==
  LET b == bk[e.x]
      rules == (IF e.ret # 0 THEN {"SynthesisInitSucceeds"} ELSE {}) \cup
               (IF e.hs = 1 /\ b.B[1] > 64 /\ (e.rh # 0 \/ e.hsp # 1) THEN {"HalfRateAccepted"} ELSE {})
  IN /\ Step(rules, {}, e)
     /\ dk' = [dk EXCEPT ![e.x] = [d |-> DecRestart(b.B, e.hsp), total |-> 0, hs |-> e.hsp, ok |-> (e.ret = 0)]]
     /\ UNCHANGED <<st, bk, br>>

DecStateMatches(d, e) == d.lW = e.dlW /\ d.W = e.dW /\ d.centerW = e.dcw /\ d.cur = e.dcur /\ d.ret = e.dret /\ d.gp = e.dgp /\ d.seq = e.dseq /\ d.sc = e.dsc /\ d.eof = e.deof

DecPktStep(e) ==
  LET b == bk[e.x]  k == dk[e.x]
      d1 == DecBlockin(b.B, k.d, e.W, e.no, e.gp, e.eos = 1, TRUE)
      n1 == DecAvail(d1)
      okW == e.W \in {0, 1}
      rules ==
        (IF e.rs # 0 \/ e.rb # 0 THEN {"PacketDecodes"} ELSE {}) \cup
        \* "without bitrate management" is what the application asked for (st.man), not what the engine happens to do
        (IF ~st[e.x].man /\ e.rs = 0 /\ ~(8 * (e.bytes - 1) < e.used /\ e.used <= 8 * e.bytes) THEN {"ConsumedToLastByte"} ELSE {}) \cup
        (IF st[e.x].man /\ ~b.hardmax /\ e.rs = 0 /\ e.used > 8 * e.bytes THEN {"NeverRunsOutOfBits"} ELSE {}) \cup
        (IF okW /\ k.ok /\ e.rs = 0 /\ e.rb = 0 /\ e.n # n1 THEN {"SamplesPerPacket"} ELSE {})
      drift == IF okW /\ k.ok /\ e.rs = 0 /\ e.rb = 0 /\ ~DecStateMatches(d1, e) THEN {"DecoderStateDiffersFromTranscription"} ELSE {}
  IN /\ Step(rules, drift, e)
     /\ dk' = [dk EXCEPT ![e.x] = [k EXCEPT !.total = k.total + (IF e.n > 0 THEN e.n ELSE 0),
                                            !.d = [lW |-> e.dlW, W |-> e.dW, centerW |-> e.dcw, cur |-> e.dcur, ret |-> IF e.n > 0 THEN e.dret + e.n ELSE e.dret,
                                                   gp |-> e.dgp, seq |-> e.dseq, sc |-> e.dsc, eof |-> e.deof, hs |-> k.hs]]]
     /\ UNCHANGED <<st, bk, br>>

DecDoneStep(e) ==
  LET b == bk[e.x]  k == dk[e.x]
      want == IF k.hs = 1 THEN (b.N + 1) \div 2 ELSE b.N
      rules == IF k.ok /\ b.eos = 1 /\ (e.total # want \/ k.total # e.total) THEN {"RoundTripCount"} ELSE {}
  IN Step(rules, {}, e) /\ UNCHANGED <<st, bk, dk, br>>

VfTotalStep(e) ==
  LET b == bk[e.x]  s == st[e.x]
      rules == IF b.eos # 1 THEN {} ELSE
               (IF e.ret # 0 THEN {"VorbisfileOpens"} ELSE {}) \cup
               (IF e.ret = 0 /\ e.total # b.N THEN {"PcmTotalIsN"} ELSE {}) \cup
               (IF e.ret = 0 /\ (e.read # b.N \/ e.holes # 0 \/ e.last # 0) THEN {"LinearReadDeliversN"} ELSE {}) \cup
               (IF e.ret = 0 /\ (e.vch # s.ch \/ e.vrate # s.rate) THEN {"HeaderConveysInfo"} ELSE {})
  IN Step(rules, {}, e) /\ UNCHANGED <<st, bk, dk, br>>

(* ---------------- set-up life cycle ---------------- *)
SetSt(x, s1) == st' = [st EXCEPT ![x] = s1]
Quiet == {"Flush", "Skip", "Note", "BlockClear", "DspClear", "CommentClear", "Blockout"}

Next ==
  /\ l <= Len(Tr)
  /\ LET e == Tr[l] IN
     CASE e.e = "Reset" ->
            /\ scn' = l /\ l' = l + 1 /\ st' = [x \in Slots |-> InitEnc] /\ bk' = [x \in Slots |-> NoBk] /\ dk' = [x \in Slots |-> NoDk] /\ br' = NoBr
            /\ UNCHANGED <<nviol, ndrift>>
       [] e.e = "InfoInit" -> Step(ChkInfoInit(st[e.x], e), {}, e) /\ SetSt(e.x, NxtInfoInit(st[e.x], e)) /\ bk' = [bk EXCEPT ![e.x] = NoBk] /\ UNCHANGED <<dk, br>>
       [] e.e \in {"SetupVbr", "SetupManaged"} -> Step(ChkSetup(st[e.x], e, FALSE), {}, e) /\ SetSt(e.x, NxtSetup(st[e.x], e, FALSE)) /\ UNCHANGED <<bk, dk, br>>
       [] e.e \in {"InitVbr", "InitManaged"} ->
            /\ Step(ChkSetup(st[e.x], e, TRUE), {}, e) /\ SetSt(e.x, NxtSetup(st[e.x], e, TRUE))
            /\ bk' = [bk EXCEPT ![e.x] = [NoBk EXCEPT !.B = IF e.ret = 0 THEN <<e.bs0, e.bs1>> ELSE <<0, 0>>, !.vbru = e.bru, !.vbrn = e.brn, !.vbrl = e.brl]] /\ UNCHANGED <<dk, br>>
       [] e.e = "SetupInit" ->
            /\ Step(ChkSetupInit(st[e.x], e), {}, e) /\ SetSt(e.x, NxtSetupInit(st[e.x], e))
            /\ bk' = [bk EXCEPT ![e.x] = IF e.ret = 0 THEN [NoBk EXCEPT !.B = <<e.bs0, e.bs1>>, !.vbru = e.bru, !.vbrn = e.brn, !.vbrl = e.brl] ELSE @] /\ UNCHANGED <<dk, br>>
       [] e.e = "Ctl" -> Step(ChkCtl(st[e.x], e), {}, e) /\ SetSt(e.x, NxtCtl(st[e.x], e)) /\ UNCHANGED <<bk, dk, br>>
       [] e.e = "AnalysisInit" ->
            /\ Step(ChkAnalysisInit(st[e.x], e), {}, e)
            /\ bk' = [bk EXCEPT ![e.x] = [bk[e.x] EXCEPT !.ready = (e.ret = 0 /\ e.rb = 0), !.m = EncInit(bk[e.x].B), !.N = 0, !.fed = FALSE, !.k = 0, !.eos = 0, !.lastGp = 0, !.endpos = 0]]
            /\ UNCHANGED <<st, dk, br>>
       [] e.e = "HeaderOut" -> Step(ChkHeaderOut(st[e.x], e), {}, e) /\ UNCHANGED <<st, bk, dk, br>>
       [] e.e = "InfoClear" -> Step(ChkInfoClear(st[e.x], e), {}, e) /\ SetSt(e.x, InitEnc) /\ UNCHANGED <<bk, dk, br>>
       [] e.e = "BrInit" ->
            /\ Report("VIOL", IF e.managed = 1 /\ e.unit = 0 /\ ~st[e.x].man THEN {"NoRateManagerWhenSwitchedOff"} ELSE {}, e)
            /\ br' = [P |-> [K |-> e.K, minb |-> e.minb, maxb |-> e.maxb, avgb |-> e.avgb, spl |-> e.spl, R |-> e.R, fill |-> e.fill,
                             rn |-> e.rn, mxn |-> e.mxn, mnn |-> e.mnn, bs0 |-> e.bs0, bs1 |-> e.bs1, realok |-> (e.realok = 1)],
                      on |-> (e.managed = 1), res |-> e.res, dmax |-> 0, dmin |-> 0, dmaxR |-> 0, dminR |-> 0]
            /\ bk' = [bk EXCEPT ![e.x] = [bk[e.x] EXCEPT !.managed = (e.managed = 1), !.hardmax = (e.maxb > 0)]]
            /\ nviol' = nviol + (IF e.managed = 1 /\ e.unit = 0 /\ ~st[e.x].man THEN 1 ELSE 0)
            /\ l' = l + 1 /\ UNCHANGED <<scn, ndrift, st, dk>>
       [] e.e = "AddBlock" -> IF br.on THEN AddBlockStep(e) ELSE (l' = l + 1 /\ UNCHANGED <<scn, nviol, ndrift, st, bk, dk, br>>)
       [] e.e = "Wrote" -> WroteStep(e)
       [] e.e = "Pkt" -> PktStep(e)
       [] e.e = "EncDone" -> EncDoneStep(e)
       [] e.e = "DecHdr" -> DecHdrStep(e)
       [] e.e = "DecInit" -> DecInitStep(e)
       [] e.e = "DecPkt" -> DecPktStep(e)
       [] e.e = "DecDone" -> DecDoneStep(e)
       [] e.e = "VfTotal" -> VfTotalStep(e)
       [] e.e = "End" ->
            /\ Step((IF e.objleft = 0 /\ e.live # 0 THEN {"ClearReleasesEverything"} ELSE {}), {}, e) /\ UNCHANGED <<st, bk, dk, br>>
       [] e.e \in {"Crash", "Hang", "Exit"} ->
            /\ Step({IF e.e = "Crash" THEN "NoCrash" ELSE IF e.e = "Hang" THEN "CallsTerminate" ELSE "LibraryNeverExits"}, {}, e) /\ UNCHANGED <<st, bk, dk, br>>
       [] e.e \in Quiet -> l' = l + 1 /\ UNCHANGED <<scn, nviol, ndrift, st, bk, dk, br>>
       [] OTHER -> Step({"UnknownEvent"}, {}, e) /\ UNCHANGED <<st, bk, dk, br>>

Spec == Init /\ [][Next]_vars
TypeOK == nviol >= 0 /\ ndrift >= 0 /\ br.dmax >= 0 /\ br.dmin >= 0
\* ties the traces to the design-level invariant of Bitrate_MC: while nothing was flagged, the observed reservoir dominates the worst run
DominatesObserved == (br.on /\ nviol = 0 /\ ndrift = 0 /\ Domain(br.P)) => (br.P.maxb > 0 => br.dmax <= br.res) /\ (br.P.minb > 0 => br.dmin <= br.P.R - br.res)
Accepted == TLCGet("stats").diameter = Len(Tr) + 1
=============================================================================

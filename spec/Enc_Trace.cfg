SPECIFICATION Spec
INVARIANT TypeOK
INVARIANT DominatesObserved
POSTCONDITION Accepted
CHECK_DEADLOCK FALSE

---------------------------- MODULE OggSync_MC ----------------------------
(***************************************************************************)
(* _get_next_page under every schedule of the read callback, on every      *)
(* small file of pages and garbage, from every start offset and with every *)
(* boundary: the offset stays truthful, the loop ends, and which page is   *)
(* returned (and where the offset stands then) does not depend on how the  *)
(* source cut its data up - it is what the page-level models assume: the   *)
(* first valid page that begins at or after the offset (and before the     *)
(* boundary).                                                              *)
(***************************************************************************)
EXTENDS OggSync, TLC
CONSTANTS MaxLen, READ, BoundRule        \* BoundRule: "ge" (the code) | "gt" (pinned: one byte late)
VARIABLES F, r, bound, st, start, res     \* st: "pick" | "run" | "done"
vars == <<F, r, bound, st, start, res>>
\* files: sequences over page(2), page(3), "O", "g"
RECURSIVE Build(_)
Build(items) == IF items = <<>> THEN [c |-> <<>>, len |-> <<>>]
                ELSE LET t == Build(Tail(items))  h == Head(items) IN
                     IF h = "p2" THEN [c |-> <<"P", "p">> \o t.c, len |-> <<2, 0>> \o t.len]
                     ELSE IF h = "p3" THEN [c |-> <<"P", "p", "p">> \o t.c, len |-> <<3, 0, 0>> \o t.len]
                     ELSE [c |-> <<h>> \o t.c, len |-> <<0>> \o t.len]
Items == {"p2", "p3", "O", "g"}
Files == { Build(s) : s \in UNION { [1..n -> Items] : n \in 1..4 } }
Init == F = <<>> /\ r = <<>> /\ bound = 0 /\ st = "pick" /\ start = 0 /\ res = 0
Pick == /\ st = "pick"
        /\ \E f \in { x \in Files : Len(x.c) <= MaxLen } : \E o \in 0..Len(f.c) : \E b \in {-1} \cup 1..3 :
             /\ F' = f /\ start' = o /\ r' = [off |-> o, base |-> o, fill |-> 0, ret |-> 0, src |-> o]
             /\ bound' = (IF b > 0 THEN o + b ELSE b) /\ st' = "run" /\ res' = 0
Past(o) == IF BoundRule = "ge" THEN o >= bound ELSE o > bound
\* one trip round the loop of _get_next_page
Iter == /\ st = "run"
        /\ IF bound > 0 /\ Past(r.off) THEN st' = "done" /\ res' = -1 /\ UNCHANGED r
           ELSE LET s == PageSeek(F, r) IN
                IF s.more < 0 THEN r' = [s.r EXCEPT !.off = @ - s.more] /\ UNCHANGED <<st, res>>
                ELSE IF s.more > 0 THEN r' = [s.r EXCEPT !.off = @ + s.more] /\ st' = "done" /\ res' = r.off + 1000      \* a page, at r.off
                ELSE IF r.src >= FileEnd(F) THEN st' = "done" /\ res' = -2 /\ UNCHANGED r
                ELSE \E n \in CanDeliver(F, r, READ) : r' = GetData(F, r, n) /\ UNCHANGED <<st, res>>
        /\ UNCHANGED <<F, bound, start>>
Next == Pick \/ Iter
Spec == Init /\ [][Next]_vars /\ WF_vars(Next)
Running == st # "pick"
OffsetTruthful == Running => OffsetTruth(r)
\* what the page-level models assume
FirstPage == LET c == { i \in start..(Len(F.c) - 1) : ValidAt(F, i) /\ i + F.len[i + 1] <= Len(F.c) } IN IF c = {} THEN -1 ELSE CHOOSE i \in c : \A j \in c : i <= j
ResultIsTheFirstPage == st = "done" =>
  LET fp == FirstPage IN
  IF fp # -1 /\ (bound < 0 \/ fp < bound) THEN res = fp + 1000 /\ r.off = fp + F.len[fp + 1]
  ELSE res < 0 /\ (res = -2 => r.off >= FileEnd(F) - (HB - 1))
\* the same as with a source that delivers everything at once
SameAsOneBigRead == st = "done" =>
  LET ref == RefNext(F, [off |-> start, base |-> start, fill |-> 0, ret |-> 0, src |-> start], bound, 40) IN
  (res >= 1000 => ref.ret = res - 1000 /\ ref.r.off = r.off) /\ (res < 0 => ref.ret \in {-1, -2})          \* (whether "nothing before the boundary" or "end of data" is said where garbage runs up to the end does depend on the schedule; no caller tells them apart)
Ends == <>(st = "done")
=============================================================================

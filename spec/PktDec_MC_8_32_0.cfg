SPECIFICATION Spec
CONSTANTS BS0 = 8
 BS1 = 32
 HS = 0
 MaxLen = 6
 Gen = FALSE
 Toggles = FALSE
INVARIANT BufOK
INVARIANT PendingOK
INVARIANT RetInsideCur
INVARIANT StoreOK
INVARIANT LapoutOK
CHECK_DEADLOCK FALSE

SPECIFICATION Spec
CONSTANTS BS0 = 8
 BS1 = 32
 HS = 0
 MaxLen = 6
 Gen = FALSE
INVARIANT BufOK
INVARIANT PendingOK
INVARIANT RetInsideCur
CHECK_DEADLOCK FALSE

SPECIFICATION Spec
CONSTANTS MaxLinks = 2
 Shapes = {1,3}
 PPPs = {2,9}
 S0s = {1}
 ETs = {0,1}
 Muxes = {0,2}
 BIdx = {1}
 DiscardVi = "link"
 Streaming = TRUE
 PinSer = TRUE
 PinBos = FALSE
 Spans = {0}
 Dmg = {}
 PLen = 2
 ReadLens = {100}
 MaxCalls = 14
 Ops = {"read"}
INVARIANT NoLoopBoundHit
INVARIANT InOrder
CHECK_DEADLOCK FALSE

SPECIFICATION Spec
CONSTANTS MaxLinks = 2
 Shapes = {2,3}
 PPPs = {2,9}
 S0s = {1,2}
 ETs = {0,1}
 Muxes = {0}
 BIdx = {1,2}
 DiscardVi = "link"
 Streaming = FALSE
 PinSer = FALSE
 PinBos = FALSE
 Spans = {0}
 Dmg = {}
 PLen = 2
 ReadLens = {100}
 MaxCalls = 2
 Ops = {"read","pcm","raw","page"}
INVARIANT NoLoopBoundHit
INVARIANT OpenOK
INVARIANT PositionTruth
INVARIANT ReadContinues
INVARIANT ReadOutcome
INVARIANT InOrder
INVARIANT SeekOutcome
CHECK_DEADLOCK FALSE

SPECIFICATION Spec
CONSTANTS MaxLinks = 3
 Lens = {1,2,4}
 Chunk = 4
 Read = 2
 Shapes = {1,2,3,4,5,6,7,8,9,10,11,12,13}
 Damage = 0
 Clamp = TRUE
 Trim = FALSE
 SearchFrom = "dataoffset"
INVARIANT OpenSucceeds
INVARIANT LinkTableIsTheTruth
CHECK_DEADLOCK FALSE

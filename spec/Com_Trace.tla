----------------------------- MODULE Com_Trace -----------------------------
(***************************************************************************)
(* Trace validation of recorded comment-header executions (harness cmh)    *)
(* against Comments.tla.  Strings travel in canonical run-length form.     *)
(***************************************************************************)
EXTENDS Comments, TLC, Json, IOUtils
Tr == ndJsonDeserialize(IOEnv.TRACE)
VARIABLES l, scn, nviol, src, dec, vendor
vars == <<l, scn, nviol, src, dec, vendor>>
Report(rules, e) == IF rules = {} THEN TRUE ELSE PrintT("VIOL " \o ToJson([line |-> l, scn |-> Tr[scn].scn, ev |-> e.e, rules |-> rules]))
Init == l = 1 /\ scn = 1 /\ nviol = 0 /\ src = <<>> /\ dec = <<>> /\ vendor = <<>>
Step(rules, e) == Report(rules, e) /\ nviol' = nviol + Cardinality(rules) /\ l' = l + 1 /\ UNCHANGED scn
\* concatenation of run lists, kept canonical
RCat(a, b) == IF a = <<>> THEN b ELSE IF b = <<>> THEN a
              ELSE IF a[Len(a)][1] = b[1][1] THEN SubSeq(a, 1, Len(a) - 1) \o << <<b[1][1], a[Len(a)][2] + b[1][2]>> >> \o Tail(b) ELSE a \o b
TagBytes(r) == [i \in 1..RLen(r) |-> RAt(r, i - 1)]      \* tags are short
Next ==
  /\ l <= Len(Tr)
  /\ LET e == Tr[l] IN
     CASE e.e = "Reset" -> scn' = l /\ l' = l + 1 /\ src' = <<>> /\ dec' = <<>> /\ vendor' = <<>> /\ UNCHANGED nviol
       [] e.e = "CNew" -> Step({}, e) /\ src' = <<>> /\ UNCHANGED <<dec, vendor>>
       [] e.e \in {"CAdd", "CRaw"} -> Step((IF e.n # Len(src) + 1 THEN {"AddAppendsOne"} ELSE {}), e) /\ src' = Append(src, e.s) /\ UNCHANGED <<dec, vendor>>
       [] e.e = "CTag" -> Step((IF e.n # Len(src) + 1 THEN {"AddAppendsOne"} ELSE {}), e) /\ src' = Append(src, RCat(RCat(e.t, << <<61, 1>> >>), e.v)) /\ UNCHANGED <<dec, vendor>>
       [] e.e = "RoundTrip" ->
            /\ Step((IF e.ro # 0 THEN {"HeaderOutSucceeds"} ELSE {}) \cup
                    (IF e.ro = 0 /\ e.ri # 0 THEN {"DecoderAcceptsCommentHeader"} ELSE {}) \cup
                    (IF e.src # src THEN {"SourceSetIsWhatWasAdded"} ELSE {}) \cup
                    (IF e.ro = 0 /\ e.ri = 0 /\ e.nd # Len(src) THEN {"RoundTripCount"} ELSE {}) \cup
                    (IF e.ro = 0 /\ e.ri = 0 /\ e.nd = Len(src) /\ \E i \in 1..Len(src) : RLen(e.dec[i]) # RLen(src[i]) THEN {"RoundTripLengths"} ELSE {}) \cup
                    (IF e.ro = 0 /\ e.ri = 0 /\ e.nd = Len(src) /\ e.dec # src THEN {"RoundTripBytes"} ELSE {}) \cup
                    (IF e.ro = 0 /\ e.ri = 0 /\ (e.vendor = <<>> \/ (vendor # <<>> /\ e.vendor # vendor)) THEN {"VendorStringDelivered"} ELSE {}) \cup
                    (IF e.ro = 0 /\ e.ri = 0 /\ ~(\A i \in 1..Len(e.dec) : Canonical(e.dec[i])) THEN {"TraceWellFormed"} ELSE {}), e)
            /\ dec' = (IF e.ro = 0 /\ e.ri = 0 THEN e.dec ELSE <<>>) /\ vendor' = (IF e.ro = 0 /\ e.ri = 0 /\ vendor = <<>> THEN e.vendor ELSE vendor) /\ UNCHANGED src
       [] e.e = "Query" ->
            LET cs == IF e.src THEN src ELSE dec  tag == TagBytes(e.t)  want == NthMatch(cs, tag, e.k) IN
            Step((IF e.idx # want THEN {"QueryReturnsNthMatch"} ELSE {}) \cup
                 (IF want # 0 /\ e.idx = want /\ e.off # Len(tag) + 1 THEN {"QueryPointsBehindTheEquals"} ELSE {}), e) /\ UNCHANGED <<src, dec, vendor>>
       [] e.e = "QueryCount" ->
            LET cs == IF e.src THEN src ELSE dec IN
            Step((IF e.cnt # QueryCount(cs, TagBytes(e.t)) THEN {"QueryCountMatches"} ELSE {}), e) /\ UNCHANGED <<src, dec, vendor>>
       [] e.e = "CClear" -> Step({}, e) /\ src' = <<>> /\ dec' = <<>> /\ UNCHANGED vendor
       [] e.e = "Truncated" ->
            /\ Step((IF e.ro = 0 /\ e.ri = 0 THEN {"TruncatedHeaderRefused"} ELSE {}) \cup
                    (IF e.ro = 0 /\ e.ri # 0 /\ (e.nd # 0 \/ e.ven # 0 \/ e.arr # 0) THEN {"RefusedHeaderLeavesNothing"} ELSE {}), e)
            /\ dec' = <<>> /\ UNCHANGED <<src, vendor>>
       [] e.e = "End" -> Step((IF e.objleft = 0 /\ e.live # 0 THEN {"ClearReleasesEverything"} ELSE {}), e) /\ UNCHANGED <<src, dec, vendor>>
       [] e.e \in {"Crash", "Hang", "Exit"} -> Step({IF e.e = "Crash" THEN "NoCrash" ELSE IF e.e = "Hang" THEN "CallsTerminate" ELSE "LibraryNeverExits"}, e) /\ UNCHANGED <<src, dec, vendor>>
       [] OTHER -> Step({"UnknownEvent"}, e) /\ UNCHANGED <<src, dec, vendor>>
Spec == Init /\ [][Next]_vars
TypeOK == nviol >= 0
Accepted == TLCGet("stats").diameter = Len(Tr) + 1
=============================================================================

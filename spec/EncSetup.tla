------------------------------ MODULE EncSetup ------------------------------
(***************************************************************************)
(* Life cycle of encoder set-up (lib/vorbisenc.c) at API level.            *)
(* An info struct is abstracted to                                         *)
(*   [stage, ch, rate, low, ib, cpl]                                       *)
(* stage: "none" (never initialised / cleared), "inited" (vorbis_info_init *)
(* done), "chosen" (a setup_vbr / setup_managed call succeeded), "stone"   *)
(* (setup_init succeeded: settings frozen).  low / ib / cpl are the values *)
(* a LOWPASS / IBLOCK / COUPLING get request must return when they are     *)
(* known (set explicitly since the last mode choice), -1000000 = unknown.  *)
(* man = bitrate management as REQUESTED by the application (managed mode  *)
(* chosen and not switched off through the control interface).            *)
(* Every call is written as Chk<Call>(s,e) = names of the rules the        *)
(* observed call e violates, Nxt<Call>(s,e) = abstract state afterwards.   *)
(***************************************************************************)
EXTENDS Integers, Sequences, FiniteSets

E_FAULT == -129   E_IMPL == -130   E_INVAL == -131
SetupCodes == {0, E_FAULT, E_IMPL, E_INVAL}
Unknown == -1000000

InitEnc == [stage |-> "none", ch |-> 0, rate |-> 0, low |-> Unknown, ib |-> Unknown, cpl |-> Unknown, man |-> FALSE]

Cleared(e) == e.vcs = 0 /\ e.vch = 0 /\ e.vrate = 0

NxtInfoInit(s, e) == [InitEnc EXCEPT !.stage = "inited"]
ChkInfoInit(s, e) == IF e.vcs = 1 /\ e.vch = 0 /\ e.vrate = 0 THEN {} ELSE {"InfoInitGivesEmptyInfo"}

\* three-step (one = FALSE) and one-step (one = TRUE) mode selection
ChkSetup(s, e, one) ==
  (IF e.ret \notin SetupCodes THEN {"SetupReturnsDocumentedCode"} ELSE {}) \cup
  (IF one /\ e.ret # 0 /\ ~Cleared(e) THEN {"OneStepFailureClearsInfo"} ELSE {}) \cup
  (IF one /\ e.ret = 0 /\ (e.vch # e.ch \/ e.vrate # e.rate) THEN {"SuccessReportsChannelsAndRate"} ELSE {}) \cup
  (IF one /\ e.ret = 0 /\ e.stone # 1 THEN {"OneStepSuccessFreezesSettings"} ELSE {})

NxtSetup(s, e, one) ==
  IF e.ret = 0 THEN [stage |-> IF one THEN "stone" ELSE "chosen", ch |-> e.ch, rate |-> e.rate, low |-> Unknown, ib |-> Unknown, cpl |-> 1,
                     man |-> (e.e \in {"SetupManaged", "InitManaged"})]
  ELSE IF one THEN InitEnc
  \* a refused choice may or may not have disturbed an earlier successful one (an argument check refuses before anything is touched,
  \* a missing template refuses after the old choice is gone): nothing is promised about setup_init until the next successful choice
  ELSE [s EXCEPT !.stage = IF s.stage = "chosen" THEN "maybe" ELSE s.stage]

ChkSetupInit(s, e) ==
  (IF e.ret \notin SetupCodes THEN {"SetupReturnsDocumentedCode"} ELSE {}) \cup
  (IF s.stage = "inited" /\ e.ret = 0 THEN {"SetupInitNeedsAChosenMode"} ELSE {}) \cup
  (IF s.stage = "chosen" /\ e.ret = 0 /\ (e.vch # s.ch \/ e.vrate # s.rate) THEN {"SuccessReportsChannelsAndRate"} ELSE {}) \cup
  (IF e.ret = 0 /\ e.stone # 1 THEN {"SetupInitFreezesSettings"} ELSE {})
NxtSetupInit(s, e) == IF e.ret = 0 THEN [s EXCEPT !.stage = "stone", !.ch = e.vch, !.rate = e.vrate] ELSE s

\* control requests.  what: rm2get rm2set rm2null lowget lowset ibget ibset cpget cpset raw
IsSet(w) == w \in {"rm2set", "rm2null", "lowset", "ibset", "cpset"}
Clamp(x, lo, hi) == IF x < lo THEN lo ELSE IF x > hi THEN hi ELSE x
KnownRequests == {16, 17, 18, 19, 20, 21, 32, 33, 48, 49, 64, 65}
ChkCtl(s, e) ==
  (IF e.ret \notin {0, E_INVAL, E_IMPL} THEN {"CtlReturnsDocumentedCode"} ELSE {}) \cup
  (IF s.stage = "stone" /\ IsSet(e.what) /\ e.ret # E_INVAL THEN {"NoChangeAfterSetupInit"} ELSE {}) \cup
  (IF s.stage = "stone" /\ e.what = "raw" /\ e.number % 16 # 0 /\ e.number \in KnownRequests /\ e.ret # E_INVAL THEN {"NoChangeAfterSetupInit"} ELSE {}) \cup
  (IF e.what = "raw" /\ e.number \notin KnownRequests /\ e.ret = 0 THEN {"UnknownRequestIsRefused"} ELSE {}) \cup
  (IF e.what = "lowget" /\ e.ret = 0 /\ s.low # Unknown /\ e.hz # s.low THEN {"GetReturnsWhatWasSet"} ELSE {}) \cup
  (IF e.what = "ibget" /\ e.ret = 0 /\ s.ib # Unknown /\ e.x10 # s.ib THEN {"GetReturnsWhatWasSet"} ELSE {}) \cup
  (IF e.what = "cpget" /\ e.ret = 0 /\ s.cpl # Unknown /\ e.v # s.cpl THEN {"GetReturnsWhatWasSet"} ELSE {}) \cup
  \* (a get request may be refused: RATEMANAGE2_GET has a non-zero low nibble and is treated like a set request once settings are frozen;
  \*  the property only asks for a documented code, so no rule demands that gets succeed)
  (IF e.what = "rm2set" /\ e.ret = 0 /\ s.stage # "stone" /\
      (\/ (e.min > 0 /\ e.avg > 0 /\ e.min > e.avg) \/ (e.max > 0 /\ e.avg > 0 /\ e.max < e.avg) \/ (e.min > 0 /\ e.max > 0 /\ e.min > e.max)
       \/ e.damp1000 <= 0 \/ e.resbits < 0 \/ e.bias1000 < 0 \/ e.bias1000 > 1000)
   THEN {"InconsistentRateRequestRefused"} ELSE {})
NxtCtl(s, e) ==
  IF e.ret # 0 THEN (IF e.what = "cpset" /\ s.stage # "stone" THEN [s EXCEPT !.cpl = Unknown] ELSE s)      \* a refused coupling request may already have stored the flag
  ELSE CASE e.what = "lowset" -> [s EXCEPT !.low = Clamp(e.hz, 2000, 99000)]
         [] e.what = "ibset"  -> [s EXCEPT !.ib = Clamp(e.x10, -150, 0)]
         [] e.what = "cpset"  -> [s EXCEPT !.cpl = IF e.v # 0 THEN 1 ELSE 0]
         [] e.what = "rm2null" -> [s EXCEPT !.man = FALSE]
         [] e.what = "rm2set" -> [s EXCEPT !.man = (e.act # 0)]
         [] OTHER -> s

\* after a successful set-up everything downstream works
ChkAnalysisInit(s, e) == IF s.stage = "stone" /\ (e.ret # 0 \/ e.rb # 0) THEN {"AnalysisInitSucceedsAfterSetup"} ELSE {}
ChkHeaderOut(s, e) ==
  (IF e.ret # 0 THEN {"HeaderOutSucceeds"} ELSE {}) \cup
  (IF e.ret = 0 /\ (e.idch # s.ch \/ e.idrate # s.rate \/ e.idch # e.vch \/ e.idrate # e.vrate \/ e.idbs0 # e.bs0 \/ e.idbs1 # e.bs1
                    \/ e.idmax # e.bru \/ e.idnom # e.brn \/ e.idmin # e.brl \/ e.idver # 0 \/ e.idframe # 1 \/ e.bos # 1 \/ e.b0 # 30)
   THEN {"IdHeaderMatchesInfo"} ELSE {})
ChkInfoClear(s, e) == IF Cleared(e) THEN {} ELSE {"InfoClearEmptiesInfo"}
=============================================================================

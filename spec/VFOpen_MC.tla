------------------------------ MODULE VFOpen_MC ------------------------------
(***************************************************************************)
(* The link discovery of a seekable open, checked over chained streams     *)
(* built from a catalogue of link shapes: with and without a multiplexed   *)
(* foreign stream (its BOS page before or after the Vorbis one), the two   *)
(* remaining header packets on one page or on two, audio pages with and    *)
(* without granule position, foreign pages between and behind them, a      *)
(* non-zero initial granule position; page lengths around the probe step.  *)
(* Checked: the open succeeds and the link table is the truth (where each  *)
(* link begins, its serial number, where its audio begins, its initial     *)
(* offset and its length).                                                 *)
(***************************************************************************)
EXTENDS VFOpen, TLC
CONSTANTS MaxLinks, Lens, Chunk, Read, Shapes, Trim, Damage, Clamp, SearchFrom
G0s == IF Trim THEN {0, 2, -2} ELSE {0, 2}      \* -2: the first page announces fewer samples than its packets account for
VARIABLES chain,         \* sequence of [shape, len, g0]
          dmg,           \* the damage done to the page sequence: a sequence of [k, kind] (empty: none)
          res,           \* what the open makes of it (computed once per file)
          judged         \* res is there
vars == <<chain, dmg, res, judged>>
K == [chunk |-> Chunk, near |-> 3, read |-> Read, backup |-> "begin", handover |-> "refetch", clamp |-> Clamp, searchfrom |-> SearchFrom]

\* shape = [mux, hdr, data]: mux 0 none / 1 foreign BOS after ours / 2 before; hdr = pages the two remaining header packets take; data over {"v","n","f"}
Catalogue == <<
  [mux |-> 0, hdr |-> 1, data |-> <<"v">>], [mux |-> 0, hdr |-> 2, data |-> <<"v">>], [mux |-> 0, hdr |-> 1, data |-> <<"v", "v">>],
  [mux |-> 0, hdr |-> 1, data |-> <<"n", "v">>], [mux |-> 0, hdr |-> 2, data |-> <<"v", "n", "v">>],
  [mux |-> 1, hdr |-> 1, data |-> <<"f", "v">>], [mux |-> 1, hdr |-> 2, data |-> <<"v", "f", "v">>], [mux |-> 2, hdr |-> 1, data |-> <<"f", "v", "f", "v">>],
  [mux |-> 2, hdr |-> 2, data |-> <<"f", "v">>], [mux |-> 1, hdr |-> 1, data |-> <<"v", "f">>], [mux |-> 2, hdr |-> 1, data |-> <<"n", "f", "v", "f">>],
  [mux |-> 1, hdr |-> 1, data |-> <<"f", "f", "f", "v">>], [mux |-> 0, hdr |-> 1, data |-> <<"v", "v", "v", "v">>],
  \* 14, 15: a Vorbis stream that consists of its headers only (no audio page at all)
  [mux |-> 0, hdr |-> 1, data |-> <<>>], [mux |-> 1, hdr |-> 2, data |-> <<"f">>] >>

VSer(i) == 10 * i + 1
FSer(i) == 10 * i + 2
\* pages of link i (without offsets): [len, ser, gp, bos, hp, bs]
LinkPages(i, c) ==
  LET sh == Catalogue[c.shape]  L == c.len
      vb == [len |-> 1, ser |-> VSer(i), gp |-> 0, bos |-> TRUE, hp |-> 1, bs |-> <<>>]
      fb == [len |-> 1, ser |-> FSer(i), gp |-> 0, bos |-> TRUE, hp |-> 0, bs |-> <<>>]
      bosp == IF sh.mux = 0 THEN <<vb>> ELSE IF sh.mux = 1 THEN <<vb, fb>> ELSE <<fb, vb>>
      hdrp == IF sh.hdr = 1 THEN << [len |-> L, ser |-> VSer(i), gp |-> 0, bos |-> FALSE, hp |-> 2, bs |-> <<>>] >>
              ELSE << [len |-> L, ser |-> VSer(i), gp |-> 0, bos |-> FALSE, hp |-> 1, bs |-> <<>>], [len |-> 1, ser |-> VSer(i), gp |-> 0, bos |-> FALSE, hp |-> 1, bs |-> <<>>] >>
      nv(k) == Cardinality({ j \in 1..k : sh.data[j] = "v" })
      datap == [k \in 1..Len(sh.data) |->
                 IF sh.data[k] = "v" THEN [len |-> L, ser |-> VSer(i), gp |-> c.g0 + 3 * nv(k), bos |-> FALSE, hp |-> 0, bs |-> <<4, 8>>]
                 ELSE IF sh.data[k] = "n" THEN [len |-> L, ser |-> VSer(i), gp |-> -1, bos |-> FALSE, hp |-> 0, bs |-> <<>>]
                 ELSE [len |-> L, ser |-> FSer(i), gp |-> 7, bos |-> FALSE, hp |-> 0, bs |-> <<>>]]
  IN bosp \o hdrp \o datap
RECURSIVE Flat(_, _)
Flat(ch, i) == IF i > Len(ch) THEN <<>> ELSE LinkPages(i, ch[i]) \o Flat(ch, i + 1)
RECURSIVE WithOff(_, _, _)
WithOff(ps, k, o) == IF k > Len(ps) THEN <<>> ELSE << [off |-> o, len |-> ps[k].len, ser |-> ps[k].ser, gp |-> ps[k].gp, bos |-> ps[k].bos, hp |-> ps[k].hp, bs |-> ps[k].bs,
                                                         ours |-> FALSE] >> \o WithOff(ps, k + 1, o + ps[k].len)
\* damage: a file of well-formed pages (every checksum right) that no encoder wrote - one page with another serial number, BOS flag or granule position, missing or doubled
DamageKinds == {"ser-foreign", "ser-other", "ser-new", "bos", "gp-none", "gp-zero", "gp-big", "gp-neg", "drop", "dup"}
Hit(ps, m) ==
  LET p == ps[m.k]
      lk == (p.ser \div 10)
      q == CASE m.kind = "ser-foreign" -> [p EXCEPT !.ser = FSer(lk)]
             [] m.kind = "ser-other" -> [p EXCEPT !.ser = VSer(IF lk = 1 THEN 2 ELSE 1)]
             [] m.kind = "ser-new" -> [p EXCEPT !.ser = 99]
             [] m.kind = "bos" -> [p EXCEPT !.bos = ~@]
             [] m.kind = "gp-none" -> [p EXCEPT !.gp = -1]
             [] m.kind = "gp-zero" -> [p EXCEPT !.gp = 0]
             [] m.kind = "gp-big" -> [p EXCEPT !.gp = 50]
             [] m.kind = "gp-neg" -> [p EXCEPT !.gp = -5]
             [] OTHER -> p
  IN IF m.kind = "drop" THEN SubSeq(ps, 1, m.k - 1) \o SubSeq(ps, m.k + 1, Len(ps))
     ELSE IF m.kind = "dup" THEN SubSeq(ps, 1, m.k) \o SubSeq(ps, m.k, Len(ps))
     ELSE [ps EXCEPT ![m.k] = q]
RECURSIVE HitAll(_, _, _)
HitAll(ps, d, i) == IF i > Len(d) THEN ps ELSE IF d[i].k > Len(ps) THEN HitAll(ps, d, i + 1) ELSE HitAll(Hit(ps, d[i]), d, i + 1)
PGof(ch, d) == WithOff(HitAll(Flat(ch, 1), d, 1), 1, 0)
PG == PGof(chain, dmg)
VSof(ch) == { VSer(i) : i \in 1..Len(ch) }
\* the truth
NPagesBefore(i) == LET RECURSIVE S(_) S(j) == IF j = 0 THEN 0 ELSE S(j - 1) + Len(LinkPages(j, chain[j])) IN S(i - 1)
LinkStart(i) == PG[NPagesBefore(i) + 1].off
HdrPages(i) == (IF Catalogue[chain[i].shape].mux = 0 THEN 1 ELSE 2) + Catalogue[chain[i].shape].hdr
DataOff(i) == LET k == NPagesBefore(i) + HdrPages(i) IN PG[k].off + PG[k].len
NV(i) == LET d == Catalogue[chain[i].shape].data IN Cardinality({ j \in 1..Len(d) : d[j] = "v" })
First(i) == IF NV(i) = 0 \/ chain[i].g0 < 0 THEN 0 ELSE chain[i].g0
Truth == [i \in 1..Len(chain) |-> [off |-> LinkStart(i), ser |-> VSer(i), doff |-> DataOff(i), first |-> First(i), len |-> IF NV(i) = 0 THEN 0 ELSE chain[i].g0 + 3 * NV(i) - First(i)]]

\* the file is chosen in two steps (the chain, then the damage) so that TLC's workers share the files among them
MaxPagesOfChain == MaxLinks * 7
Chains == UNION { [1..n -> [shape : Shapes, len : Lens, g0 : G0s]] : n \in 1..MaxLinks }
Damages == UNION { [1..n -> [k : 1..MaxPagesOfChain, kind : DamageKinds]] : n \in 1..Damage }
OpenOf(ch, d) == Open(PGof(ch, d), VSof(ch), K)
Init == chain = <<>> /\ dmg = <<>> /\ res = <<>> /\ judged = FALSE
PickChain == chain = <<>> /\ chain' \in Chains /\ dmg' = <<>> /\ judged' = (Damage = 0) /\ res' = IF Damage = 0 THEN OpenOf(chain', <<>>) ELSE <<>>
PickDamage == chain # <<>> /\ ~judged /\ judged' = TRUE /\ dmg' \in Damages /\ chain' = chain /\ res' = OpenOf(chain, dmg')
Next == PickChain \/ PickDamage
Spec == Init /\ [][Next]_vars
Judged == judged
R == res
OpenSucceeds == Judged => R.ok
LinkTableIsTheTruth == Judged /\ R.ok => R.links = Truth
\* on damaged files there is no truth to compare the table with; what must hold is that the open ends, asks only for offsets inside the file, and
\* - when it accepts the file - hands the rest of the library a table it can work with
ProbeSet == { R.probes[i] : i \in 1..Len(R.probes) }
NoLoopBoundHit == Judged => -999 \notin ProbeSet
ProbesInsideFile == Judged => \A o \in ProbeSet \ {-999} : o >= 0 /\ o <= DataEnd(PG)
TableSane == Judged /\ R.ok => /\ Len(R.links) >= 1
                               /\ \A i \in 1..Len(R.links) : R.links[i].off >= 0 /\ R.links[i].doff > R.links[i].off /\ R.links[i].doff <= DataEnd(PG) /\ R.links[i].len >= 0 /\ R.links[i].first >= 0
                               /\ \A i \in 1..(Len(R.links) - 1) : R.links[i].doff <= R.links[i + 1].off
\* how often the damaged file is accepted at all (coverage, printed by the check)
=============================================================================

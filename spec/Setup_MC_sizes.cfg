SPECIFICATION Spec
CONSTANTS Family = "sizes"
INVARIANT FamiliesOK
INVARIANT Export
CHECK_DEADLOCK FALSE

SPECIFICATION Spec
CONSTANTS Family = "sizes"
INVARIANT FamiliesOK
INVARIANT ReaderInvertsWriter
INVARIANT Export
CHECK_DEADLOCK FALSE

------------------------------- MODULE Setup -------------------------------
(***************************************************************************)
(* The identification and setup headers of Vorbis I as a WRITER and a      *)
(* VALIDITY predicate on a set-up record (Vorbis I spec sections 4.2.2,    *)
(* 4.2.4, 3.2.1, 7.2.2, 8.6.1; lib/info.c, codebook.c, floor1.c, floor0.c, *)
(* res0.c, mapping0.c).                                                    *)
(*                                                                         *)
(* Fields(s) is the header as a sequence of <<value, nbits>> pairs; the    *)
(* harness packs them LSb first and knows nothing else about the syntax.   *)
(* SetupOK(s) says whether the record is a well-formed set-up (what every  *)
(* conforming decoder must accept and be able to initialise from).         *)
(*                                                                         *)
(*  s  = [ch, rate, e0, e1 (block size exponents), books, floors,          *)
(*        residues, maps, modes]                                           *)
(*  book    = [dim, entries, ordered, sparse, lens, maptype, qmin, qdelta, *)
(*             qbits, qseq, quant]      lens[i] = 0 : unused entry         *)
(*  floor   = [type = 1, parts, cdim, csubs, cbook, csub, mult, rb, posts] *)
(*          | [type = 0, order, frate, bark, ampbits, ampdb, fbooks]       *)
(*  residue = [type, begin, end, psize, nclass, gbook, cascade, rbooks]    *)
(*  map     = [submaps, coupling, mux, sfloor, sres]                       *)
(*  mode    = [bf, wt, tt, map]                                            *)
(* All indices inside the record are 0-based as in the stream.             *)
(***************************************************************************)
EXTENDS Integers, Sequences, FiniteSets

RECURSIVE ILog(_)
ILog(v) == IF v <= 0 THEN 0 ELSE 1 + ILog(v \div 2)
RECURSIVE Pow2(_)
Pow2(n) == IF n <= 0 THEN 1 ELSE 2 * Pow2(n - 1)
RECURSIVE Cat(_)
Cat(ss) == IF ss = <<>> THEN <<>> ELSE ss[1] \o Cat(Tail(ss))
RECURSIVE SumSeq(_)
SumSeq(q) == IF q = <<>> THEN 0 ELSE q[1] + SumSeq(Tail(q))
RECURSIVE BitCount(_)
BitCount(v) == IF v <= 0 THEN 0 ELSE (v % 2) + BitCount(v \div 2)
Rng(q) == { q[i] : i \in 1..Len(q) }
F32(v) == << <<v % 65536, 16>>, <<(v \div 65536) % 65536, 16>> >>          \* a 32-bit field as two halves (TLC integers are 32 bit signed)
Str(bytes) == [i \in 1..Len(bytes) |-> <<bytes[i], 8>>]
Vorbis == <<118, 111, 114, 98, 105, 115>>
\* a small integer as the packed float of the format (21-bit mantissa, biased exponent 788 = 2^0, sign in bit 31); the 32-bit pattern is held as a
\* signed TLC integer, which F32 splits into halves correctly for negative values too
PackedInt(v) == IF v >= 0 THEN 788 * 2097152 + v ELSE (788 * 2097152 - v) - 2147483647 - 1
Unpacked(p) == IF p >= 0 THEN p - 788 * 2097152 ELSE -((p + 2147483647 + 1) - 788 * 2097152)

(* ------------------------------ writer ------------------------------ *)
IdFields(s) ==
  << <<1, 8>> >> \o Str(Vorbis) \o F32(0) \o << <<s.ch, 8>> >> \o F32(s.rate) \o F32(0) \o F32(0) \o F32(0)
  \o << <<s.e0, 4>>, <<s.e1, 4>>, <<1, 1>> >>

\* lattice size of a maptype-1 book: the largest v with v^dim <= entries
RECURSIVE IPow(_, _)
IPow(b, e) == IF e <= 0 THEN 1 ELSE b * IPow(b, e - 1)
\* b^e > lim without ever forming a number wider than the 32-bit integers of TLC (dimensions go up to 65535)
RECURSIVE PowGt(_, _, _)
PowGt(b, e, lim) == IF e <= 0 THEN 1 > lim ELSE IF b <= 1 THEN b > lim ELSE IF lim < 1 THEN TRUE ELSE PowGt(b, e - 1, lim \div b)
QuantVals1(entries, dim) == IF dim <= 0 THEN 0 ELSE CHOOSE v \in 0..entries : ~PowGt(v, dim, entries) /\ PowGt(v + 1, dim, entries)

RECURSIVE OrderedRuns(_, _, _)
\* the ordered length encoding: for each length from `len` on, how many of the remaining entries have it
OrderedRuns(lens, i, len) ==
  IF i > Len(lens) THEN <<>>
  ELSE LET cnt == Cardinality({ j \in i..Len(lens) : lens[j] = len }) IN
       << <<cnt, ILog(Len(lens) - (i - 1))>> >> \o OrderedRuns(lens, i + cnt, len + 1)

BookFields(b) ==
  << <<5653314 % 65536, 16>>, <<5653314 \div 65536, 8>>, <<b.dim, 16>>, <<b.entries % 65536, 16>>, <<b.entries \div 65536, 8>>, <<b.ordered, 1>> >> \o
  (IF b.ordered = 1
   THEN << <<b.lens[1] - 1, 5>> >> \o OrderedRuns(b.lens, 1, b.lens[1])
   ELSE << <<b.sparse, 1>> >> \o
        Cat([i \in 1..Len(b.lens) |-> IF b.sparse = 1 THEN (IF b.lens[i] > 0 THEN << <<1, 1>>, <<b.lens[i] - 1, 5>> >> ELSE << <<0, 1>> >>)
                                                     ELSE << <<b.lens[i] - 1, 5>> >>])) \o
  << <<b.maptype, 4>> >> \o
  (IF b.maptype \in {1, 2}
   THEN F32(b.qmin) \o F32(b.qdelta) \o << <<b.qbits - 1, 4>>, <<b.qseq, 1>> >> \o [i \in 1..Len(b.quant) |-> <<b.quant[i], b.qbits>>]
   ELSE <<>>)

Floor1Fields(f) ==
  << <<Len(f.parts), 5>> >> \o [i \in 1..Len(f.parts) |-> <<f.parts[i], 4>>] \o
  Cat([c \in 1..Len(f.cdim) |-> << <<f.cdim[c] - 1, 3>>, <<f.csubs[c], 2>> >> \o (IF f.csubs[c] > 0 THEN << <<f.cbook[c], 8>> >> ELSE <<>>)
                               \o [k \in 1..Pow2(f.csubs[c]) |-> <<f.csub[c][k] + 1, 8>>]]) \o
  << <<f.mult - 1, 2>>, <<f.rb, 4>> >> \o [i \in 1..Len(f.posts) |-> <<f.posts[i], f.rb>>]
Floor0Fields(f) ==
  << <<f.order, 8>>, <<f.frate, 16>>, <<f.bark, 16>>, <<f.ampbits, 6>>, <<f.ampdb, 8>>, <<Len(f.fbooks) - 1, 4>> >> \o [i \in 1..Len(f.fbooks) |-> <<f.fbooks[i], 8>>]
FloorFields(f) == << <<f.type, 16>> >> \o (IF f.type = 1 THEN Floor1Fields(f) ELSE IF f.type = 0 THEN Floor0Fields(f) ELSE <<>>)

ResidueFields(r) ==
  << <<r.type, 16>>, <<r.begin % 65536, 16>>, <<r.begin \div 65536, 8>>, <<r.end % 65536, 16>>, <<r.end \div 65536, 8>>,
     <<(r.psize - 1) % 65536, 16>>, <<(r.psize - 1) \div 65536, 8>>, <<r.nclass - 1, 6>>, <<r.gbook, 8>> >> \o
  Cat([j \in 1..Len(r.cascade) |-> << <<r.cascade[j] % 8, 3>> >> \o (IF r.cascade[j] >= 8 THEN << <<1, 1>>, <<r.cascade[j] \div 8, 5>> >> ELSE << <<0, 1>> >>)]) \o
  [j \in 1..Len(r.rbooks) |-> <<r.rbooks[j], 8>>]

MapFields(m, ch) ==
  << <<0, 16>> >> \o
  (IF m.submaps > 1 THEN << <<1, 1>>, <<m.submaps - 1, 4>> >> ELSE << <<0, 1>> >>) \o
  (IF Len(m.coupling) > 0 THEN << <<1, 1>>, <<Len(m.coupling) - 1, 8>> >> \o Cat([i \in 1..Len(m.coupling) |-> << <<m.coupling[i][1], ILog(ch - 1)>>, <<m.coupling[i][2], ILog(ch - 1)>> >>])
   ELSE << <<0, 1>> >>) \o
  << <<0, 2>> >> \o
  (IF m.submaps > 1 THEN [i \in 1..Len(m.mux) |-> <<m.mux[i], 4>>] ELSE <<>>) \o
  Cat([i \in 1..Len(m.sfloor) |-> << <<0, 8>>, <<m.sfloor[i], 8>>, <<m.sres[i], 8>> >>])

SetupFields(s) ==
  << <<5, 8>> >> \o Str(Vorbis) \o << <<Len(s.books) - 1, 8>> >> \o Cat([i \in 1..Len(s.books) |-> BookFields(s.books[i])]) \o
  << <<0, 6>>, <<0, 16>> >> \o                                                               \* one time-domain placeholder
  << <<Len(s.floors) - 1, 6>> >> \o Cat([i \in 1..Len(s.floors) |-> FloorFields(s.floors[i])]) \o
  << <<Len(s.residues) - 1, 6>> >> \o Cat([i \in 1..Len(s.residues) |-> ResidueFields(s.residues[i])]) \o
  << <<Len(s.maps) - 1, 6>> >> \o Cat([i \in 1..Len(s.maps) |-> MapFields(s.maps[i], s.ch)]) \o
  << <<Len(s.modes) - 1, 6>> >> \o Cat([i \in 1..Len(s.modes) |-> << <<s.modes[i].bf, 1>>, <<s.modes[i].wt, 16>>, <<s.modes[i].tt, 16>>, <<s.modes[i].map, 8>> >>]) \o
  << <<1, 1>> >>

(* ------------------------------ validity ------------------------------ *)
IdOK(s) == s.rate >= 1 /\ s.ch >= 1 /\ s.ch <= 255 /\ s.e0 >= 6 /\ s.e0 <= s.e1 /\ s.e1 <= 13

\* Huffman tree: the lengths (1..32) must describe a complete tree, or exactly one used entry of length 1.
\* Completeness = the Kraft sum is exactly 1; evaluated from the longest length upwards as a carry chain (words of length l pair up into
\* words of length l - 1), which needs no number wider than the entry count
\* (the plain sum, for lengths <= 16: used by Codebook_MC to cross-check the carry chain)
Kraft(lens) == SumSeq([i \in 1..Len(lens) |-> IF lens[i] > 0 THEN Pow2(16 - lens[i]) ELSE 0])
KraftOne(lens) == LET odd == Cardinality({ i \in 1..Len(lens) : lens[i] = 1 }) IN
                  \* at length 1 the chain must end with exactly two halves: carry from below + words of length 1 = 2
                  LET RECURSIVE Up(_, _) Up(l, carry) == IF l = 1 THEN carry + odd = 2
                                                        ELSE LET t == Cardinality({ i \in 1..Len(lens) : lens[i] = l }) + carry IN t % 2 = 0 /\ Up(l - 1, t \div 2)
                  IN Up(32, 0)
UsedCount(lens) == Cardinality({ i \in 1..Len(lens) : lens[i] > 0 })
TreeOK(lens) == KraftOne(lens) \/ (UsedCount(lens) = 1 /\ \E i \in 1..Len(lens) : lens[i] = 1)
BookOK(b) ==
  /\ b.entries = Len(b.lens) /\ b.entries >= 1 /\ b.dim >= 1 /\ ILog(b.dim) + ILog(b.entries) <= 24
  /\ \A i \in 1..Len(b.lens) : b.lens[i] \in 0..32
  /\ (b.ordered = 1 => (\A i \in 1..Len(b.lens) : b.lens[i] >= 1) /\ \A i \in 1..(Len(b.lens) - 1) : b.lens[i] <= b.lens[i + 1])
  /\ (b.ordered = 0 /\ b.sparse = 0 => \A i \in 1..Len(b.lens) : b.lens[i] >= 1)
  /\ TreeOK(b.lens)
  /\ b.maptype \in {0, 1, 2}
  /\ (b.maptype = 1 => Len(b.quant) = QuantVals1(b.entries, b.dim)) /\ (b.maptype = 2 => Len(b.quant) = b.entries * b.dim)
  /\ (b.maptype \in {1, 2} => b.qbits \in 1..16 /\ \A i \in 1..Len(b.quant) : b.quant[i] < Pow2(b.qbits))

Floor1OK(f, s) ==
  /\ Len(f.parts) <= 31 /\ \A i \in 1..Len(f.parts) : f.parts[i] \in 0..15 /\ f.parts[i] + 1 <= Len(f.cdim)
  /\ Len(f.cdim) = (IF f.parts = <<>> THEN 0 ELSE 1 + (CHOOSE m \in Rng(f.parts) : \A x \in Rng(f.parts) : x <= m))
  /\ \A c \in 1..Len(f.cdim) : /\ f.cdim[c] \in 1..8 /\ f.csubs[c] \in 0..3
                               /\ (f.csubs[c] > 0 => f.cbook[c] \in 0..(Len(s.books) - 1))
                               /\ Len(f.csub[c]) = Pow2(f.csubs[c]) /\ \A k \in 1..Len(f.csub[c]) : f.csub[c][k] \in -1..(Len(s.books) - 1)
  /\ f.mult \in 1..4 /\ f.rb \in 0..15
  /\ Len(f.posts) = SumSeq([i \in 1..Len(f.parts) |-> f.cdim[f.parts[i] + 1]]) /\ Len(f.posts) <= 63
  /\ \A i \in 1..Len(f.posts) : f.posts[i] >= 0 /\ f.posts[i] < Pow2(f.rb)
  \* no two posts (including the implicit ones at 0 and 2^rb) share an X: that would be a zero-length segment
  /\ \A i \in 1..Len(f.posts) : f.posts[i] # 0 /\ \A j \in 1..Len(f.posts) : i # j => f.posts[i] # f.posts[j]
Floor0OK(f, s) ==
  /\ f.order >= 1 /\ f.frate >= 1 /\ f.bark >= 1 /\ Len(f.fbooks) \in 1..16
  /\ \A i \in 1..Len(f.fbooks) : f.fbooks[i] \in 0..(Len(s.books) - 1) /\ s.books[f.fbooks[i] + 1].maptype # 0 /\ s.books[f.fbooks[i] + 1].dim >= 1
FloorOK(f, s) == (f.type = 1 /\ Floor1OK(f, s)) \/ (f.type = 0 /\ Floor0OK(f, s))

ResidueOK(r, s) ==
  /\ r.type \in {0, 1, 2} /\ r.begin >= 0 /\ r.end >= 0 /\ r.psize >= 1 /\ r.nclass \in 1..64 /\ Len(r.cascade) = r.nclass
  /\ r.gbook \in 0..(Len(s.books) - 1)
  /\ Len(r.rbooks) = SumSeq([j \in 1..Len(r.cascade) |-> BitCount(r.cascade[j])])
  /\ \A j \in 1..Len(r.rbooks) : r.rbooks[j] \in 0..(Len(s.books) - 1) /\ s.books[r.rbooks[j] + 1].maptype # 0
  /\ LET g == s.books[r.gbook + 1] IN g.dim >= 1 /\ g.dim <= 12 /\ ~PowGt(r.nclass, g.dim, g.entries)

MapOK(m, s) ==
  /\ m.submaps \in 1..16
  /\ \A i \in 1..Len(m.coupling) : m.coupling[i][1] # m.coupling[i][2] /\ m.coupling[i][1] \in 0..(s.ch - 1) /\ m.coupling[i][2] \in 0..(s.ch - 1)
  /\ Len(m.coupling) <= 256
  /\ (m.submaps > 1 => Len(m.mux) = s.ch /\ \A i \in 1..Len(m.mux) : m.mux[i] \in 0..(m.submaps - 1))
  /\ Len(m.sfloor) = m.submaps /\ Len(m.sres) = m.submaps
  /\ \A i \in 1..m.submaps : m.sfloor[i] \in 0..(Len(s.floors) - 1) /\ m.sres[i] \in 0..(Len(s.residues) - 1)

SetupOK(s) ==
  /\ IdOK(s)
  /\ Len(s.books) \in 1..256 /\ \A i \in 1..Len(s.books) : BookOK(s.books[i])
  /\ Len(s.floors) \in 1..64 /\ \A i \in 1..Len(s.floors) : FloorOK(s.floors[i], s)
  /\ Len(s.residues) \in 1..64 /\ \A i \in 1..Len(s.residues) : ResidueOK(s.residues[i], s)
  /\ Len(s.maps) \in 1..64 /\ \A i \in 1..Len(s.maps) : MapOK(s.maps[i], s)
  /\ Len(s.modes) \in 1..64 /\ \A i \in 1..Len(s.modes) : s.modes[i].bf \in {0, 1} /\ s.modes[i].wt = 0 /\ s.modes[i].tt = 0 /\ s.modes[i].map \in 0..(Len(s.maps) - 1)

(* ------------------------------ audio packets ------------------------------ *)
\* a packet whose every channel declares its floor unused: the block is silent and nothing else is read
SilentPacket(s, mode, lw, nw) ==
  << <<0, 1>>, <<mode, ILog(Len(s.modes) - 1)>> >> \o
  (IF s.modes[mode + 1].bf = 1 THEN << <<lw, 1>>, <<nw, 1>> >> ELSE <<>>) \o
  Cat([c \in 1..s.ch |-> LET m == s.maps[s.modes[mode + 1].map + 1]
                             sm == IF m.submaps > 1 /\ c <= Len(m.mux) /\ m.mux[c] + 1 <= Len(m.sfloor) THEN m.mux[c] ELSE 0
                             f == s.floors[m.sfloor[sm + 1] + 1]
                         IN IF f.type = 0 THEN << <<0, f.ampbits>> >> ELSE << <<0, 1>> >>])
=============================================================================

------------------------------ MODULE Setup_MC ------------------------------
(***************************************************************************)
(* Generator of synthetic set-ups for the real decoder (spec -> code):     *)
(* a family of small well-formed set-ups (every block-size pair, 1..3      *)
(* channels, residue types 0/1/2, coupling, two submaps, floor 0 / 1,      *)
(* ordered / sparse / single-entry / lattice / explicit books) and, for    *)
(* each, named mutations that put one field on or across its boundary.     *)
(* For every case TLC evaluates SetupOK (the verdict the decoder is held   *)
(* to when it says TRUE) and writes the headers and some silent audio      *)
(* packets as <<value, bits>> lists.                                       *)
(***************************************************************************)
EXTENDS AudioPacket, AudioRead, TLC, Json
CONSTANTS Family        \* "sizes" | "shapes" | "mutations"
VARIABLES c, done, cw, cwt      \* cw / cwt: the codeword tables of the books of the case and of its twin, computed once per case (TLC would re-derive them at every codeword otherwise)
vars == <<c, done, cw, cwt>>

Full(k, dim) == [dim |-> dim, entries |-> Pow2(k), ordered |-> 0, sparse |-> 0, lens |-> [i \in 1..Pow2(k) |-> k], maptype |-> 0, qmin |-> 0, qdelta |-> 0, qbits |-> 1, qseq |-> 0, quant |-> <<>>]
Lattice(k, dim) == [Full(k, dim) EXCEPT !.maptype = 1, !.qmin = PackedInt(0), !.qdelta = PackedInt(1), !.qbits = 2, !.quant = [i \in 1..QuantVals1(Pow2(k), dim) |-> (i - 1) % 4]]
Explicit(k, dim) == [Full(k, dim) EXCEPT !.maptype = 2, !.qmin = PackedInt(0), !.qdelta = PackedInt(0), !.qbits = 1, !.quant = [i \in 1..(Pow2(k) * dim) |-> 0]]
OrderedBook == [Full(2, 1) EXCEPT !.ordered = 1, !.entries = 5, !.lens = <<1, 2, 3, 4, 4>>]
SparseBook == [Full(2, 1) EXCEPT !.sparse = 1, !.entries = 6, !.lens = <<2, 0, 2, 2, 0, 2>>]
SingleBook == [Full(2, 1) EXCEPT !.sparse = 1, !.entries = 3, !.lens = <<0, 1, 0>>]

\* a lattice book with any number of entries: complete tree with lengths k and k + 1; values -1, 0, 1, ... per lattice coordinate
LatticeN(n, dim) == LET k == ILog(n) - 1  a == Pow2(k + 1) - n IN
                    [dim |-> dim, entries |-> n, ordered |-> 0, sparse |-> 0, lens |-> [i \in 1..n |-> IF n = Pow2(k) THEN k ELSE IF i <= a THEN k ELSE k + 1], maptype |-> 1,
                     qmin |-> PackedInt(-1), qdelta |-> PackedInt(1), qbits |-> 4, qseq |-> 0, quant |-> [i \in 1..QuantVals1(n, dim) |-> (i - 1) % 16]]
Floor1(bookidx, rb) == [type |-> 1, parts |-> <<0>>, cdim |-> <<2>>, csubs |-> <<0>>, cbook |-> <<0>>, csub |-> << <<bookidx>> >>, mult |-> 1, rb |-> rb, posts |-> <<Pow2(rb - 1), Pow2(rb - 2)>>]
Floor0(bookidx) == [type |-> 0, order |-> 2, frate |-> 8000, bark |-> 16, ampbits |-> 4, ampdb |-> 100, fbooks |-> <<bookidx>>]
Res(t, e0, stages) == [type |-> t, begin |-> 0, end |-> Pow2(e0 - 1), psize |-> 8, nclass |-> 2, gbook |-> 1, cascade |-> IF stages THEN <<1, 0>> ELSE <<0, 0>>, rbooks |-> IF stages THEN <<2>> ELSE <<>>]
Map1(coupled) == [submaps |-> 1, coupling |-> IF coupled THEN << <<0, 1>> >> ELSE <<>>, mux |-> <<>>, sfloor |-> <<0>>, sres |-> <<0>>]
Modes == << [bf |-> 0, wt |-> 0, tt |-> 0, map |-> 0], [bf |-> 1, wt |-> 0, tt |-> 0, map |-> 0] >>

Base(ch, e0, e1, rt) ==
  [ch |-> ch, rate |-> 44100, e0 |-> e0, e1 |-> e1,
   books |-> << Full(2, 1), Full(2, 2), Lattice(2, 2) >>,
   floors |-> << Floor1(0, 4) >>, residues |-> << Res(rt, e0, FALSE) >>, maps |-> << Map1(ch >= 2) >>, modes |-> Modes]

Shapes ==
  { [name |-> "res0-stages", s |-> [Base(1, 6, 8, 0) EXCEPT !.residues = << Res(0, 6, TRUE) >>]],
    [name |-> "res1-stages", s |-> [Base(2, 7, 7, 1) EXCEPT !.residues = << Res(1, 7, TRUE) >>]],
    [name |-> "res2-stages", s |-> [Base(2, 6, 9, 2) EXCEPT !.residues = << Res(2, 6, TRUE) >>]],
    [name |-> "explicit-book", s |-> [Base(1, 6, 7, 1) EXCEPT !.books = << Full(2, 1), Full(2, 2), Explicit(2, 2) >>, !.residues = << Res(1, 6, TRUE) >>]],
    [name |-> "ordered-book", s |-> [Base(1, 6, 6, 1) EXCEPT !.books = << OrderedBook, Full(2, 2), Lattice(2, 2) >>]],
    [name |-> "sparse-book", s |-> [Base(1, 8, 11, 1) EXCEPT !.books = << SparseBook, Full(2, 2), Lattice(2, 2) >>]],
    [name |-> "single-entry-book", s |-> [Base(1, 6, 8, 1) EXCEPT !.books = << SingleBook, Full(2, 2), Lattice(2, 2) >>]],
    [name |-> "floor0", s |-> [Base(1, 6, 8, 1) EXCEPT !.floors = << Floor0(2) >>]],
    [name |-> "two-submaps", s |-> [Base(3, 6, 8, 1) EXCEPT !.floors = << Floor1(0, 4), Floor1(0, 5) >>, !.residues = << Res(1, 6, FALSE), Res(2, 6, FALSE) >>,
                                       !.maps = << [submaps |-> 2, coupling |-> << <<0, 2>> >>, mux |-> <<0, 1, 0>>, sfloor |-> <<0, 1>>, sres |-> <<0, 1>>] >>]],
    [name |-> "three-modes", s |-> [Base(2, 6, 10, 1) EXCEPT !.maps = << Map1(TRUE), Map1(FALSE) >>,
                                       !.modes = Modes \o << [bf |-> 1, wt |-> 0, tt |-> 0, map |-> 1] >>]],
    [name |-> "unreferenced-mappings", s |-> [Base(2, 6, 9, 1) EXCEPT !.maps = << Map1(TRUE), Map1(FALSE), Map1(TRUE), Map1(FALSE) >>]],
    [name |-> "unreferenced-floors-residues-books", s |-> [Base(2, 6, 9, 1) EXCEPT !.floors = << Floor1(0, 4), Floor1(0, 5), Floor1(0, 6) >>, !.residues = << Res(1, 6, FALSE), Res(0, 6, TRUE), Res(2, 6, TRUE) >>,
                                                                       !.books = << Full(2, 1), Full(2, 2), Lattice(2, 2), Explicit(2, 2), OrderedBook, SparseBook >>]],
    [name |-> "255-channels", s |-> [Base(255, 6, 6, 1) EXCEPT !.maps = << Map1(FALSE) >>]],
    [name |-> "floor1-no-partitions", s |-> [Base(1, 6, 8, 1) EXCEPT !.floors = << [Floor1(0, 4) EXCEPT !.parts = <<>>, !.cdim = <<>>, !.csubs = <<>>, !.cbook = <<>>, !.csub = <<>>, !.posts = <<>>] >>]] }

B0 == Base(2, 6, 8, 1)
Mutations ==
  { [name |-> "rate-0", s |-> [B0 EXCEPT !.rate = 0]], [name |-> "channels-0", s |-> [B0 EXCEPT !.ch = 0]],
    [name |-> "bs0-exp-5", s |-> [B0 EXCEPT !.e0 = 5]], [name |-> "bs1-exp-14", s |-> [B0 EXCEPT !.e1 = 14]], [name |-> "bs0-above-bs1", s |-> [B0 EXCEPT !.e0 = 9]],
    [name |-> "book-dim-0", s |-> [B0 EXCEPT !.books[1].dim = 0]],
    [name |-> "lattice-book-dim-0", s |-> [B0 EXCEPT !.books[3].dim = 0, !.books[3].quant = <<>>]],
    [name |-> "book-dim-65535", s |-> [B0 EXCEPT !.books[1].dim = 65535]],
    [name |-> "book-overpopulated", s |-> [B0 EXCEPT !.books[1].lens = <<1, 1, 2, 2>>]],
    [name |-> "book-underpopulated", s |-> [B0 EXCEPT !.books[1].lens = <<2, 2, 2, 3>>]],
    [name |-> "book-lengths-1-2-3-3", s |-> [B0 EXCEPT !.books[1].lens = <<1, 2, 3, 3>>]],
    [name |-> "book-maptype-3", s |-> [B0 EXCEPT !.books[1].maptype = 3]],
    [name |-> "lattice-quant-short", s |-> [B0 EXCEPT !.books[3].quant = <<0>>]],
    [name |-> "floor-type-2", s |-> [B0 EXCEPT !.floors[1].type = 2]],
    [name |-> "floor1-post-equals-0", s |-> [B0 EXCEPT !.floors[1].posts = <<8, 0>>]],
    [name |-> "floor1-post-repeated", s |-> [B0 EXCEPT !.floors[1].posts = <<8, 8>>]],
    [name |-> "floor1-post-at-range-minus-1", s |-> [B0 EXCEPT !.floors[1].rb = 3, !.floors[1].posts = <<4, 7>>]],
    [name |-> "floor1-rangebits-0", s |-> [B0 EXCEPT !.floors[1].rb = 0, !.floors[1].posts = <<0, 0>>]],
    [name |-> "floor1-class-book-out-of-range", s |-> [B0 EXCEPT !.floors[1].csubs = <<1>>, !.floors[1].cbook = <<3>>, !.floors[1].csub = << <<0, 0>> >>]],
    [name |-> "floor1-subbook-out-of-range", s |-> [B0 EXCEPT !.floors[1].csub = << <<3>> >>]],
    [name |-> "floor1-subbook-none", s |-> [B0 EXCEPT !.floors[1].csub = << <<-1>> >>]],
    [name |-> "floor1-partition-class-15", s |-> [B0 EXCEPT !.floors[1].parts = <<15>>]],
    [name |-> "floor0-order-0", s |-> [B0 EXCEPT !.floors = << [Floor0(2) EXCEPT !.order = 0] >>]],
    [name |-> "floor0-book-without-values", s |-> [B0 EXCEPT !.floors = << Floor0(0) >>]],
    [name |-> "floor0-ampbits-0", s |-> [B0 EXCEPT !.floors = << [Floor0(2) EXCEPT !.ampbits = 0] >>]],
    [name |-> "residue-type-3", s |-> [B0 EXCEPT !.residues[1].type = 3]],
    [name |-> "residue-begin-after-end", s |-> [B0 EXCEPT !.residues[1].begin = 100, !.residues[1].end = 10]],
    [name |-> "residue-end-beyond-block", s |-> [B0 EXCEPT !.residues[1].end = 16777215]],
    [name |-> "residue-groupbook-out-of-range", s |-> [B0 EXCEPT !.residues[1].gbook = 3]],
    [name |-> "residue-classes-exceed-groupbook", s |-> [B0 EXCEPT !.residues[1].nclass = 3, !.residues[1].cascade = <<0, 0, 0>>]],
    [name |-> "residue-stage-book-without-values", s |-> [B0 EXCEPT !.residues[1].cascade = <<1, 0>>, !.residues[1].rbooks = <<0>>]],
    [name |-> "residue-stage-book-out-of-range", s |-> [B0 EXCEPT !.residues[1].cascade = <<1, 0>>, !.residues[1].rbooks = <<9>>]],
    [name |-> "residue-cascade-all-8-stages", s |-> [B0 EXCEPT !.residues[1].cascade = <<255, 0>>, !.residues[1].rbooks = <<2, 2, 2, 2, 2, 2, 2, 2>>]],
    [name |-> "residue-partition-size-1", s |-> [B0 EXCEPT !.residues[1].psize = 1]],
    [name |-> "residue-groupbook-dim-0", s |-> [B0 EXCEPT !.books[2].dim = 0]],
    [name |-> "coupling-mag-equals-ang", s |-> [B0 EXCEPT !.maps[1].coupling = << <<1, 1>> >>]],
    [name |-> "coupling-channel-out-of-range", s |-> [Base(3, 6, 8, 1) EXCEPT !.maps[1].coupling = << <<0, 3>> >>]],
    [name |-> "mux-beyond-submaps", s |-> [B0 EXCEPT !.maps[1].submaps = 2, !.maps[1].mux = <<0, 2>>, !.maps[1].sfloor = <<0, 0>>, !.maps[1].sres = <<0, 0>>]],
    [name |-> "submap-floor-out-of-range", s |-> [B0 EXCEPT !.maps[1].sfloor = <<1>>]],
    [name |-> "submap-residue-out-of-range", s |-> [B0 EXCEPT !.maps[1].sres = <<1>>]],
    [name |-> "mode-mapping-out-of-range", s |-> [B0 EXCEPT !.modes[2].map = 1]],
    [name |-> "mode-windowtype-1-after-four-mappings", s |-> [B0 EXCEPT !.maps = << Map1(TRUE), Map1(FALSE), Map1(TRUE), Map1(FALSE) >>, !.modes[1].wt = 1]],
    [name |-> "mapping-refused-after-three-floors-residues", s |-> [B0 EXCEPT !.floors = << Floor1(0, 4), Floor1(0, 5), Floor1(0, 6) >>, !.residues = << Res(1, 6, FALSE), Res(0, 6, TRUE), Res(2, 6, TRUE) >>, !.maps[1].sres = <<3>>]],
    [name |-> "mode-windowtype-1", s |-> [B0 EXCEPT !.modes[1].wt = 1]],
    [name |-> "mode-transformtype-1", s |-> [B0 EXCEPT !.modes[1].tt = 1]] }

VarBook(dim, mt) == [dim |-> dim, entries |-> 4, ordered |-> 1, sparse |-> 0, lens |-> <<1, 2, 3, 3>>, maptype |-> mt, qmin |-> PackedInt(-1), qdelta |-> PackedInt(2), qbits |-> 2, qseq |-> 0,
                     quant |-> IF mt = 1 THEN [i \in 1..QuantVals1(4, dim) |-> i % 3] ELSE <<>>]
\* residue decode: variable-length classification book, two classes with different cascades (class 1: stage 0, class 2: stage 1), fixed- and variable-length value books
ResSetup(ch, e0, e1, rt, psize, coupled) ==
  [ch |-> ch, rate |-> 44100, e0 |-> e0, e1 |-> e1,
   books |-> << Full(2, 1), VarBook(2, 0), [Lattice(2, 2) EXCEPT !.qmin = PackedInt(-2)], VarBook(2, 1), Full(1, 1) >>,        \* value books hold -2..1 and -1, 1, 3: both signs reach the coupling
   floors |-> << [type |-> 1, parts |-> <<0, 1>>, cdim |-> <<2, 1>>, csubs |-> <<0, 1>>, cbook |-> <<0, 4>>, csub |-> << <<0>>, <<1, -1>> >>, mult |-> 2, rb |-> 5, posts |-> <<16, 8, 24>>] >>,
   residues |-> << [type |-> rt, begin |-> 0, end |-> Pow2(e1), psize |-> psize, nclass |-> 2, gbook |-> 1, cascade |-> <<1, 2>>, rbooks |-> <<2, 3>>] >>,
   maps |-> << [submaps |-> 1, coupling |-> IF coupled THEN << <<0, 1>> >> ELSE <<>>, mux |-> <<>>, sfloor |-> <<0>>, sres |-> <<0>>] >>, modes |-> Modes]
\* floor 1 configurations beyond the plain one: every multiplier, range bits from 4 to 8 (posts far beyond the half block of 32 / 64), one to three classes with
\* one to four values each, class sub-books with unused slots (value 0) and books of 2 .. 64 entries (books 5 and 6 are appended to the set-up), up to 20 posts
FloorShapes == <<
  [type |-> 1, parts |-> <<0, 0, 0>>, cdim |-> <<2>>, csubs |-> <<0>>, cbook |-> <<0>>, csub |-> << <<5>> >>, mult |-> 1, rb |-> 6, posts |-> <<32, 16, 48, 8, 24, 40>>],
  [type |-> 1, parts |-> <<0, 1, 2>>, cdim |-> <<1, 2, 3>>, csubs |-> <<0, 1, 2>>, cbook |-> <<0, 4, 0>>, csub |-> << <<6>>, <<5, -1>>, <<0, 5, -1, 6>> >>, mult |-> 3, rb |-> 7, posts |-> <<64, 32, 96, 16, 48, 80>>],
  [type |-> 1, parts |-> <<0>>, cdim |-> <<4>>, csubs |-> <<0>>, cbook |-> <<0>>, csub |-> << <<6>> >>, mult |-> 4, rb |-> 4, posts |-> <<8, 4, 12, 2>>],
  [type |-> 1, parts |-> <<0, 0, 0, 0, 0>>, cdim |-> <<4>>, csubs |-> <<1>>, cbook |-> <<4>>, csub |-> << <<5, 6>> >>, mult |-> 2, rb |-> 7,
   posts |-> <<64, 32, 96, 16, 48, 80, 112, 8, 24, 40, 56, 72, 88, 104, 120, 4, 12, 20, 28, 36>>],
  [type |-> 1, parts |-> <<1, 0>>, cdim |-> <<2, 2>>, csubs |-> <<2, 0>>, cbook |-> <<3, 0>>, csub |-> << <<-1, -1, -1, -1>>, <<5>> >>, mult |-> 1, rb |-> 5, posts |-> <<31, 1, 30, 2>>],
  [type |-> 1, parts |-> <<0, 0>>, cdim |-> <<3>>, csubs |-> <<0>>, cbook |-> <<0>>, csub |-> << <<6>> >>, mult |-> 1, rb |-> 8, posts |-> <<255, 1, 128, 33, 31, 32>>],
  [type |-> 1, parts |-> <<2, 1, 0, 1, 2>>, cdim |-> <<1, 1, 2>>, csubs |-> <<1, 0, 1>>, cbook |-> <<4, 0, 4>>, csub |-> << <<6, 5>>, <<0>>, <<-1, 6>> >>, mult |-> 2, rb |-> 6, posts |-> <<10, 20, 30, 40, 50, 60, 5>>] >>
ExplicitVals == [Full(2, 2) EXCEPT !.maptype = 2, !.qmin = PackedInt(0), !.qdelta = PackedInt(1), !.qbits = 3, !.quant = <<0, 1, 1, 3, 2, 2, 3, 5>>]
\* sequence mode: each component is the running sum of the stored values, restarting at every entry; chosen so that the sums equal ExplicitVals
SequenceVals == [ExplicitVals EXCEPT !.qseq = 1, !.quant = <<0, 1, 1, 2, 2, 0, 3, 2>>]
\* modes that do not map identically onto the mappings: mode 0 -> mapping 1, mode 1 -> mapping 0, the two mappings use different residues
Crossed(s) == [s EXCEPT !.residues = s.residues \o << [s.residues[1] EXCEPT !.cascade = <<0, 1>>, !.rbooks = <<3>>] >>,
                        !.maps = << s.maps[1], [s.maps[1] EXCEPT !.sres = <<1>>] >>,
                        !.modes = << [bf |-> 0, wt |-> 0, tt |-> 0, map |-> 1], [bf |-> 1, wt |-> 0, tt |-> 0, map |-> 0] >>]
ResCases == { [name |-> "residue-explicit-values", seq |-> TRUE, s |-> [ResSetup(ch, 6, 7, rt, 8, FALSE) EXCEPT !.books[3] = ExplicitVals]] : ch \in {1, 2}, rt \in {0, 1, 2} } \cup
            { [name |-> "residue-crossed-modes", seq |-> FALSE, s |-> Crossed(ResSetup(ch, 6, 7, rt, 4, FALSE))] : ch \in {1, 2}, rt \in {0, 1, 2} } \cup
            { [name |-> "residue-sequence-books", seq |-> FALSE, s |-> [ResSetup(ch, 6, 7, rt, 8, FALSE) EXCEPT !.books[3] = [Lattice(2, 2) EXCEPT !.qseq = 1, !.qmin = PackedInt(-1)], !.books[4] = [VarBook(4, 1) EXCEPT !.qseq = 1],
                                                                                                              !.residues[1].cascade = <<3, 2>>, !.residues[1].rbooks = <<2, 3, 3>>]] : ch \in {1, 2}, rt \in {0, 1, 2} } \cup
            { [name |-> "residue-window", seq |-> FALSE, s |-> [ResSetup(ch, 6, 7, rt, ps, ch = 2) EXCEPT !.residues[1].begin = be[1], !.residues[1].end = be[2]]] :
                ch \in {1, 2}, rt \in {0, 1, 2}, ps \in {4, 8, 5, 3}, be \in {<<0, 64>>, <<8, 24>>, <<4, 30>>, <<3, 1000>>, <<16, 17>>, <<32, 64>>} } \cup
            { [name |-> "residue-three-channels", seq |-> FALSE, s |-> [ResSetup(3, 6, 7, rt, 4, FALSE) EXCEPT !.maps[1].coupling = cp, !.residues[1].nclass = 3, !.residues[1].cascade = <<1, 2, 5>>, !.residues[1].rbooks = <<2, 3, 3, 2>>,
                                                                                                       !.books[2] = [VarBook(1, 0) EXCEPT !.lens = <<1, 2, 2>>, !.entries = 3]]] :
                rt \in {0, 1, 2}, cp \in { << <<0, 1>>, <<2, 0>> >>, << <<2, 1>>, <<1, 0>> >>, << <<0, 2>> >> } } \cup
            { [name |-> "residue-unused-floors", seq |-> FALSE, s |-> ResSetup(2, 6, 7, rt, 8, cp), fls |-> << <<1, 0>>, <<0, 1>>, <<0, 0>>, <<1, 1>>, <<0, 1>> >>] : rt \in {0, 1, 2}, cp \in BOOLEAN } \cup
            { [name |-> "residue-two-submaps", seq |-> FALSE,
               s |-> LET b == ResSetup(3, 6, 7, rta, 4, FALSE) IN
                     [b EXCEPT !.floors = << b.floors[1], [b.floors[1] EXCEPT !.mult = 1, !.posts = <<10, 20, 5>>] >>,
                               !.residues = << b.residues[1], [b.residues[1] EXCEPT !.type = rtb, !.psize = 8, !.cascade = <<2, 1>>, !.rbooks = <<3, 2>>] >>,
                               !.maps = << [submaps |-> 2, coupling |-> cp, mux |-> <<0, 1, 0>>, sfloor |-> <<0, 1>>, sres |-> <<0, 1>>] >>],
               fls |-> << <<1, 1, 1>>, <<1, 0, 1>>, <<0, 1, 0>>, <<0, 0, 1>>, <<1, 1, 0>> >>] :
                rta \in {0, 1, 2}, rtb \in {0, 1, 2}, cp \in { <<>>, << <<0, 2>> >>, << <<0, 1>> >>, << <<1, 2>>, <<0, 1>> >> } } \cup
            { [name |-> "residue-lattice-sizes", seq |-> FALSE, s |-> [ResSetup(1, 6, 6, 1, 8, FALSE) EXCEPT !.books[3] = LatticeN(n, dim), !.residues[1].cascade = <<1, 0>>, !.residues[1].rbooks = <<2>>]] :
                n \in {2, 3, 4, 5, 7, 8, 9, 15, 16, 17, 24, 25, 26, 27, 28, 31, 32, 33}, dim \in 1..5 } \cup
            { [name |-> "residue-sparse-value-books", seq |-> FALSE,
               s |-> [ResSetup(ch, 6, 7, rt, 8, FALSE) EXCEPT
                        !.books[3] = [dim |-> 2, entries |-> 6, ordered |-> 0, sparse |-> 1, lens |-> <<2, 0, 2, 2, 0, 2>>, maptype |-> 2, qmin |-> PackedInt(-3), qdelta |-> PackedInt(1), qbits |-> 4, qseq |-> sq,
                                      quant |-> <<0, 1, 2, 3, 4, 5, 6, 7, 8, 9, 10, 11>>],
                        !.books[4] = [dim |-> 2, entries |-> 7, ordered |-> 0, sparse |-> 1, lens |-> <<0, 1, 0, 2, 3, 0, 3>>, maptype |-> 1, qmin |-> PackedInt(-1), qdelta |-> PackedInt(1), qbits |-> 2, qseq |-> 0,
                                      quant |-> <<0, 1>>]]] : ch \in {1, 2}, rt \in {0, 1, 2}, sq \in {0, 1} } \cup
            { [name |-> "residue-floor0", seq |-> FALSE,
               s |-> [ResSetup(ch, 6, 7, rt, 8, ch = 2) EXCEPT !.floors = << [type |-> 0, order |-> ord, frate |-> 8000, bark |-> 16, ampbits |-> 4, ampdb |-> 100, fbooks |-> fb] >>],
               fls |-> IF ch = 1 THEN << <<1>>, <<1>>, <<0>>, <<1>>, <<1>> >> ELSE << <<1, 1>>, <<1, 0>>, <<0, 1>>, <<0, 0>>, <<1, 1>> >>] :
                ch \in {1, 2}, rt \in {0, 1, 2}, ord \in {1, 2, 5}, fb \in { <<2>>, <<3, 2>>, <<2, 3, 3>> } } \cup
            { [name |-> "floor-shapes", seq |-> FALSE, s |-> [ResSetup(ch, 6, 7, 1, 8, FALSE) EXCEPT !.books = @ \o << Full(4, 1), Full(6, 1) >>, !.floors = << FloorShapes[k] >>]] : ch \in {1, 2}, k \in 1..Len(FloorShapes) } \cup
            { [name |-> "residue-dim-not-dividing", seq |-> FALSE, s |-> [ResSetup(ch, 6, 7, rt, 8, FALSE) EXCEPT !.books[3] = Lattice(2, dd[1]), !.books[4] = VarBook(dd[2], 1)]] :
                ch \in {1, 2}, rt \in {0, 1, 2}, dd \in {<<3, 5>>, <<100, 3>>, <<7, 1000>>, <<16, 12>>} } \cup
            { [name |-> "residue", seq |-> FALSE, s |-> ResSetup(ch, 6, e1, rt, ps, cp)] : ch \in {1, 2}, e1 \in {6, 7}, rt \in {0, 1, 2}, ps \in {4, 8}, cp \in {FALSE, TRUE} }
Sizes == { [name |-> "sizes", s |-> Base(ch, e0, e1, rt)] : ch \in {1, 2}, e0 \in 6..13, e1 \in 6..13, rt \in {1} }
Cases == CASE Family = "sizes" -> { x \in Sizes : x.s.e0 <= x.s.e1 } [] Family = "shapes" -> Shapes [] Family = "residue" -> { x \in ResCases : x.s.ch >= 2 \/ x.s.maps[1].coupling = <<>> } [] OTHER -> Mutations

\* with every packet: what the floor of the LAST channel must decode to (posts after unwrapping, table index per bin)
FloorOf(s, mode) == s.floors[s.maps[s.modes[mode + 1].map + 1].sfloor[1] + 1]
HalfOf(s, mode) == Pow2(IF s.modes[mode + 1].bf = 1 THEN s.e1 ELSE s.e0) \div 2
MapOf(s, mode) == s.maps[s.modes[mode + 1].map + 1]
Ones(n) == [i \in 1..n |-> 1]
\* the floor whose integer domain is probed is the one decoded last: that of the last channel, if it is in use
LastFloor(s, mode) == s.floors[MapOf(s, mode).sfloor[SubmapOf(MapOf(s, mode), s.ch) + 1] + 1]
\* (each intermediate result is computed once per packet and the later ones are built from it)
FP(s, mode, lw, nw, salt, fl) ==
  LET m == MapOf(s, mode)  half == HalfOf(s, mode)
      rv == PacketResidue(s, mode, salt, fl)
      cv == Decouple(rv, m.coupling, Len(m.coupling))
      flo(k) == s.floors[m.sfloor[SubmapOf(m, k) + 1] + 1]
      curves == [k \in 1..s.ch |-> IF fl[k] = 1 /\ flo(k).type = 1 THEN Floor1Curve(s, flo(k), salt + k, half) ELSE <<>>]
      pv == [k \in 1..s.ch |-> IF fl[k] = 0 THEN [x \in 1..half |-> <<0, 0, 0>>] ELSE IF flo(k).type # 1 THEN <<>> ELSE [x \in 1..half |-> FMul(DbTable[curves[k][x] + 1], cv[k][x])]]
  IN [W |-> s.modes[mode + 1].bf, ns |-> 1, f |-> FullPacket(s, mode, lw, nw, salt, fl),
      fit |-> IF fl[s.ch] = 1 /\ LastFloor(s, mode).type = 1 THEN Floor1Fit(s, LastFloor(s, mode), salt + s.ch) ELSE <<>>,
      yc |-> curves[s.ch], rv |-> rv, cv |-> cv, pv |-> pv]
CWOf(s0) == [b \in 1..Len(s0.books) |-> Codewords(s0.books[b].lens)]
FullAudio(s0, fls) == LET s == s0 @@ [cw |-> cw] IN << FP(s, 0, 0, 0, 1, fls[1]), FP(s, 1, 0, 1, 2, fls[2]), FP(s, 1, 1, 0, 3, fls[3]), FP(s, 0, 0, 0, 4, fls[4]), FP(s, 0, 0, 0, 5, fls[5]) >>
\* the twin needs the packets only
FPbits(s, mode, lw, nw, salt, fl) == [W |-> s.modes[mode + 1].bf, ns |-> 1, f |-> FullPacket(s, mode, lw, nw, salt, fl)]
TwinAudio(s0, fls) == LET s == s0 @@ [cw |-> cwt] IN << FPbits(s, 0, 0, 0, 1, fls[1]), FPbits(s, 1, 0, 1, 2, fls[2]), FPbits(s, 1, 1, 0, 3, fls[3]), FPbits(s, 0, 0, 0, 4, fls[4]), FPbits(s, 0, 0, 0, 5, fls[5]) >>
\* floor flags of the five packets of a case: all in use unless the case says otherwise
Fls(cs) == IF "fls" \in DOMAIN cs THEN cs.fls ELSE [k \in 1..5 |-> Ones(cs.s.ch)]
\* the same classes and the same residue values, but one classification word per partition instead of one per pair: an identical spectrum through a different layout
Twin(s) == IF Family = "residue" /\ c.seq THEN [s EXCEPT !.books[3] = SequenceVals] ELSE [s EXCEPT !.residues[1].gbook = 4]
Audio(s) == IF Family = "residue" THEN FullAudio(s, Fls(c)) ELSE IF Len(s.modes) >= 2 /\ s.ch >= 1 /\ s.ch <= 255 /\ \A i \in 1..Len(s.modes) : s.modes[i].map + 1 <= Len(s.maps) /\ \A m \in 1..Len(s.maps) : Len(s.maps[m].sfloor) >= 1 /\ \A j \in 1..Len(s.maps[m].sfloor) : s.maps[m].sfloor[j] + 1 <= Len(s.floors)
            THEN << [W |-> 0, f |-> SilentPacket(s, 0, 0, 0)], [W |-> 1, f |-> SilentPacket(s, 1, 0, 1)], [W |-> 1, f |-> SilentPacket(s, 1, 1, 0)], [W |-> 0, f |-> SilentPacket(s, 0, 0, 0)], [W |-> 0, f |-> SilentPacket(s, 0, 0, 0)] >>
            ELSE <<>>
Init == /\ c \in Cases /\ done = FALSE
        /\ cw = (IF Family = "residue" THEN CWOf(c.s) ELSE <<>>)
        /\ cwt = (IF Family = "residue" /\ SetupOK(Twin(c.s)) THEN CWOf(Twin(c.s)) ELSE <<>>)
Next == ~done /\ done' = TRUE /\ UNCHANGED <<c, cw, cwt>>
Spec == Init /\ [][Next]_vars

\* the generator's own sanity: the two well-formed families are well-formed, every mutation of the third is exactly one field away and most are ill-formed
\* the strict reader inverts the writer: on the wire image of every generated set-up it recovers the record field for field (well-formed families), and
\* it accepts whatever the validity predicate accepts (every family, mutations included)
\* (value fields of a book without values are not on the wire: compared after setting them to the reader's defaults)
NormBook(b) == IF b.maptype = 0 THEN [b EXCEPT !.qmin = 0, !.qdelta = 0, !.qbits = 1, !.qseq = 0, !.quant = <<>>] ELSE b
Norm(s) == [s EXCEPT !.books = [i \in 1..Len(s.books) |-> NormBook(s.books[i])]]
IdRec(s) == [ok |-> TRUE, ch |-> s.ch, rate |-> s.rate, e0 |-> s.e0, e1 |-> s.e1]
ReaderInvertsWriter == LET r == ReadSetup(PackBytes(SetupFields(c.s)), IdRec(c.s)) IN
                       /\ (Family \in {"sizes", "shapes", "residue"} => r.ok /\ r.s = Norm(c.s))
                       /\ (SetupOK(c.s) => r.ok /\ r.s = Norm(c.s))
                       /\ ReadId(PackBytes(IdFields(c.s))).ok = (c.s.ch \in 0..255 /\ c.s.e0 \in 0..15 /\ c.s.e1 \in 0..15 /\ c.s.rate >= 0)
\* the strict audio reader inverts the packet writer: on the wire image of every generated packet it finds exactly the bits that were written, the same
\* mode and window flags, and the same channels with a floor in use
PktArgs == << <<0, 0, 0, 1>>, <<1, 0, 1, 2>>, <<1, 1, 0, 3>>, <<0, 0, 0, 4>>, <<0, 0, 0, 5>> >>
AudioReaderInvertsWriter ==
  Family = "residue" =>
    LET s == c.s @@ [cw |-> cw]  cms == [b \in 1..Len(c.s.books) |-> CwMap(c.s.books[b].lens)]  fls == Fls(c) IN
    \A k \in 1..5 :
      LET a == PktArgs[k]  fields == FullPacket(s, a[1], a[2], a[3], a[4], fls[k])
          r == ReadAudio(c.s, cms, PackBytes(fields)) IN
      /\ r.ok /\ r.bits = FoldFunction(LAMBDA x, y : x + y, 0, [i \in 1..Len(fields) |-> fields[i][2]])
      /\ r.mode = a[1] /\ r.lw = (IF c.s.modes[a[1] + 1].bf = 1 THEN a[2] ELSE 0) /\ r.nw = (IF c.s.modes[a[1] + 1].bf = 1 THEN a[3] ELSE 0)
      /\ r.used = [ch \in 1..c.s.ch |-> fls[k][ch] = 1]
FamiliesOK == (Family \in {"sizes", "shapes", "residue"} => SetupOK(c.s))
Export == done => PrintT("CASE " \o ToJson([name |-> c.name, res |-> IF Len(c.s.residues) >= 1 THEN <<c.s.residues[1].type, c.s.residues[1].psize, c.s.residues[1].begin>> ELSE <<>>, ok |-> SetupOK(c.s), idok |-> IdOK(c.s), ch |-> c.s.ch, e0 |-> c.s.e0, e1 |-> c.s.e1, id |-> IdFields(c.s), setup |-> SetupFields(c.s), audio |-> Audio(c.s),
                                              twin |-> IF Family = "residue" THEN [ok |-> SetupOK(Twin(c.s)), setup |-> SetupFields(Twin(c.s)), audio |-> IF SetupOK(Twin(c.s)) THEN TwinAudio(Twin(c.s), Fls(c)) ELSE <<>>] ELSE [ok |-> FALSE, setup |-> <<>>, audio |-> <<>>]]))
=============================================================================

SPECIFICATION Spec
CONSTANTS MaxLinks = 1
 Shapes = {1,3}
 PPPs = {2,9}
 S0s = {1}
 ETs = {0,1}
 Muxes = {0,1}
 BIdx = {1}
 Spans = {0}
 Dmg = {}
 DiscardVi = "link"
 Streaming = FALSE
 PinSer = FALSE
 PinBos = FALSE
 PLen = 2
 ReadLens = {1,100}
 MaxCalls = 3
 Ops = {"read","raw","pcm","lap","fault"}
INVARIANT NoLoopBoundHit
INVARIANT OpenOK
INVARIANT PositionTruth
INVARIANT ReadContinues
INVARIANT ReadOutcome
INVARIANT SeekOutcome
INVARIANT LapOutcome
INVARIANT FaultOutcome
CHECK_DEADLOCK FALSE

SPECIFICATION Spec
CONSTANTS Family = "residue"
INVARIANT FamiliesOK
INVARIANT ReaderInvertsWriter
INVARIANT AudioReaderInvertsWriter
CHECK_DEADLOCK FALSE

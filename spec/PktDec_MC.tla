----------------------------- MODULE PktDec_MC -----------------------------
(***************************************************************************)
(* Design-level check of the decoder blocking machine (Block.tla) under an *)
(* adversarial caller and adversarial packets: any block-flag sequence,    *)
(* packet numbers in order or with gaps, granule positions absent / exact  *)
(* / one short / backdated before the block / zero / in the future, any    *)
(* end-of-stream flags, track-only blocks, partial and complete reads,     *)
(* restarts, and blockin attempted while samples are still pending.        *)
(* Invariants: every index stays inside the two-half ring buffer, the      *)
(* number of pending samples is never negative, never exceeds one block    *)
(* advance, and a packet never yields more than (b_prev + b_this)/4.       *)
(* With Gen = TRUE the caller side is exported for replay on real streams. *)
(***************************************************************************)
EXTENDS Block, TLC, Json, FiniteSets
CONSTANTS BS0, BS1, HS, MaxLen, Gen, Toggles
B == <<BS0, BS1>>
VARIABLES d, n, lastAdv, hist, primed, solid, lapn, trk      \* trk: a track-only block has been taken in since the last block with PCM
vars == <<d, n, lastAdv, hist, primed, solid, lapn, trk>>
Init == d = DecRestart(B, HS) /\ n = 0 /\ lastAdv = 0 /\ hist = <<>> /\ primed = FALSE /\ solid = FALSE /\ lapn = 0 /\ trk = FALSE

GpKinds == {"none", "exact", "short1", "back", "zero", "far", "neg"}
GpOf(kind, sc1, adv) ==
  CASE kind = "none" -> -1 [] kind = "exact" -> sc1 [] kind = "short1" -> IF sc1 > 0 THEN sc1 - 1 ELSE 0
    [] kind = "back" -> IF sc1 - adv - 3 > 0 THEN sc1 - adv - 3 ELSE 0 [] kind = "zero" -> 0 [] kind = "neg" -> -5 [] OTHER -> sc1 + 5

Syn(w, gap, gk, eos, pcm) ==
  /\ DecBlockinAllowed(d)
  /\ LET adv == Bs(B, d.W) \div 4 + Bs(B, w) \div 4
         no  == IF d.seq = -1 THEN 3 ELSE d.seq + 1 + gap
         \* the count the decoder will have when it sees this packet (what an honest stream would announce)
         sc1 == IF d.seq = -1 \/ gap > 0 \/ d.sc = -1 THEN (IF d.gp >= 0 /\ gap = 0 /\ d.seq # -1 THEN d.gp + adv ELSE adv) ELSE (IF d.gp >= 0 THEN d.gp + adv ELSE d.sc + adv)
         g   == GpOf(gk, sc1, adv)
     IN /\ d' = DecBlockin(B, d, w, no, g, eos, pcm)
        /\ lastAdv' = IF pcm THEN ShrI(adv, d.hs) ELSE lastAdv
        /\ primed' = (primed \/ pcm) /\ solid' = (IF pcm THEN FALSE ELSE solid) /\ lapn' = 0 /\ trk' = ~pcm
        /\ hist' = (IF Gen THEN Append(hist, <<IF pcm THEN "syn" ELSE "trk", gap, gk, IF eos THEN 1 ELSE 0>>) ELSE hist)
  /\ n' = n + 1
Read(all) ==
  /\ DecAvail(d) > 0
  /\ d' = DecRead(d, IF all THEN DecAvail(d) ELSE 1)
  /\ hist' = (IF Gen THEN Append(hist, <<"read", IF all THEN -1 ELSE 1>>) ELSE hist) /\ n' = n + 1 /\ UNCHANGED <<lastAdv, primed, solid, lapn, trk>>
Restart == /\ d' = [DecRestart(B, d.hs) EXCEPT !.lW = d.lW, !.W = d.W] /\ lastAdv' = 0 /\ primed' = FALSE /\ solid' = FALSE /\ lapn' = 0 /\ trk' = FALSE
           /\ hist' = (IF Gen THEN Append(hist, <<"rest">>) ELSE hist) /\ n' = n + 1
\* blockin while samples are pending is refused (OV_EINVAL) and changes nothing
\* vorbis_synthesis_halfrate is accepted at any time and blockin / restart read the flag live, while the buffer was sized at initialisation
Toggle == /\ Toggles /\ d' = [d EXCEPT !.hs = 1 - d.hs] /\ hist' = (IF Gen THEN Append(hist, <<"hr", 1 - d.hs>>) ELSE hist) /\ n' = n + 1 /\ UNCHANGED <<lastAdv, primed, solid, lapn, trk>>
\* vorbis_synthesis_lapout at any time (vorbisfile calls it from the lapping seeks and from ov_crosslap)
Lapout == /\ ~Toggles /\ LET r == DecLapout(B, d, solid) IN d' = r.d /\ solid' = r.solid /\ lapn' = r.n
          /\ hist' = (IF Gen THEN Append(hist, <<"lap">>) ELSE hist) /\ n' = n + 1 /\ UNCHANGED <<lastAdv, primed, trk>>
Refused == ~DecBlockinAllowed(d) /\ UNCHANGED <<d, lastAdv, primed, solid, lapn, trk>> /\ hist' = (IF Gen THEN Append(hist, <<"syn", 0, "exact", 0>>) ELSE hist) /\ n' = n + 1

Next == /\ n < MaxLen
        /\ \/ \E w \in {0, 1}, gap \in {0, 1}, gk \in GpKinds, eos \in BOOLEAN, pcm \in BOOLEAN :
                Syn(w, gap, gk, eos, pcm)
           \/ \E all \in BOOLEAN : Read(all)
           \/ Restart
           \/ Toggle
           \/ Lapout
           \/ Refused
Spec == Init /\ [][Next]_vars

BufOK        == Toggles \/ DecBufOK(B, d)
\* the buffer is allocated for full rate (pcm_storage = blocksizes[1]) whatever the flag was at initialisation: indices stay inside it under any toggling
StoreOK      == d.ret = -1 \/ (0 <= d.ret /\ d.ret <= d.cur /\ d.cur <= BS1)
\* (until the repair of the begin trim in vorbis_synthesis_blockin this bound held for primed decoders only: a track-only block plus a granule position
\*  below the count moved pcm_returned off its -1 marker, and a following lapout pushed it negative - found on the real library through a damaged stream)
PendingOK    == DecAvail(d) >= 0 /\ (~Toggles => DecAvail(d) <= lastAdv)
\* lapout never leaves the buffer and never reports a negative count
\* (after a track-only block lW / W describe that block while the buffer still holds the layout of the last block with PCM: lapout then consolidates
\*  by the wrong rule and its count can be negative - the real decoder does the same, -320 observed; the indices stay inside the buffer, which is what
\*  memory safety needs, and vorbisfile always decodes a block with PCM between its track-only blocks and a lapout)
LapoutOK     == StoreOK /\ (~trk => lapn >= 0)
RetInsideCur == d.ret = -1 \/ d.ret <= d.cur
\* witnesses (expected to be violated): the end trim and the begin trim are both exercised
NeverEndTrim   == ~(d.eof = 1 /\ DecAvail(d) > 0 /\ DecAvail(d) < lastAdv)
Export == (Gen /\ n = MaxLen) => PrintT("HIST " \o ToJson(hist))
View == <<d, lastAdv, primed, solid, lapn, trk, IF Gen THEN n ELSE 0>>
=============================================================================

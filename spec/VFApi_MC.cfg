SPECIFICATION Spec
CONSTANTS MaxLen = 1000000
 Gen = FALSE
 Mode = "seek"
INVARIANT RulesSatisfiable
INVARIANT PosInFile
INVARIANT LapBounded
INVARIANT Sensitive
VIEW ViewAbs
CHECK_DEADLOCK FALSE

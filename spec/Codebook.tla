------------------------------ MODULE Codebook ------------------------------
(***************************************************************************)
(* Huffman codeword assignment and decode of Vorbis I codebooks (spec      *)
(* section 3.2.1; lib/sharedbook.c _make_words, lib/codebook.c decode).    *)
(* Entries are visited in order; an entry of length L > 0 receives the     *)
(* lowest-valued L-bit word (read most significant bit first) that is      *)
(* neither an assigned codeword, nor has one as a prefix, nor is a prefix  *)
(* of one.  Unused entries (length 0) receive nothing.                     *)
(***************************************************************************)
EXTENDS Integers, Sequences, FiniteSets

RECURSIVE P2(_)
P2(n) == IF n <= 0 THEN 1 ELSE 2 * P2(n - 1)
\* word a of length la is a prefix of (or equal to) word b of length lb >= la
WordIsPrefix(a, la, b, lb) == la <= lb /\ b \div P2(lb - la) = a
Clash(a, la, b, lb) == WordIsPrefix(a, la, b, lb) \/ WordIsPrefix(b, lb, a, la)

\* assigned = sequence of [w, l] for the entries handled so far (l = 0: none)
Free(assigned, v, L) == \A j \in 1..Len(assigned) : assigned[j].l = 0 \/ ~Clash(assigned[j].w, assigned[j].l, v, L)
RECURSIVE Assign(_, _, _)
Assign(lens, i, assigned) ==
  IF i > Len(lens) THEN assigned
  ELSE IF lens[i] = 0 THEN Assign(lens, i + 1, Append(assigned, [w |-> -1, l |-> 0]))
  ELSE LET cand == { v \in 0..(P2(lens[i]) - 1) : Free(assigned, v, lens[i]) } IN
       IF cand = {} THEN Append(assigned, [w |-> -2, l |-> lens[i]])                    \* overpopulated: no word left
       ELSE Assign(lens, i + 1, Append(assigned, [w |-> CHOOSE v \in cand : \A u \in cand : v <= u, l |-> lens[i]]))
Codewords(lens) == Assign(lens, 1, <<>>)
Overpopulated(lens) == LET a == Codewords(lens) IN Len(a) < Len(lens) \/ \E j \in 1..Len(a) : a[j].w = -2

\* the bits of a codeword in stream order (most significant first), as one-bit fields
RECURSIVE WordBits(_, _)
WordBits(w, L) == IF L = 0 THEN <<>> ELSE << <<(w \div P2(L - 1)) % 2, 1>> >> \o WordBits(w % P2(L - 1), L - 1)

\* decode: walk the bits; result [entry (1-based, 0 = no codeword matches), used]
RECURSIVE Walk(_, _, _, _)
Walk(cw, bits, acc, n) ==
  LET hit == { j \in 1..Len(cw) : cw[j].l = n /\ cw[j].l > 0 /\ cw[j].w = acc } IN
  IF n > 0 /\ hit # {} THEN [entry |-> CHOOSE j \in hit : TRUE, used |-> n]
  ELSE IF n >= Len(bits) \/ n >= 32 THEN [entry |-> 0, used |-> n]
  ELSE Walk(cw, bits, 2 * acc + bits[n + 1], n + 1)
Decode(cw, bits) == Walk(cw, bits, 0, 0)
=============================================================================

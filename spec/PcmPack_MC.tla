----------------------------- MODULE PcmPack_MC -----------------------------
(***************************************************************************)
(* Exhaustive sanity of PcmPack over a boundary set of single-precision     *)
(* values, and export of that set for injection into the real ov_read       *)
(* (through ov_read_filter) -- spec -> code direction of C17.               *)
(***************************************************************************)
EXTENDS PcmPack, TLC, Json, Sequences
VARIABLES i, done
\* exponents: zero/denormal, tiny, around 2^-16..2^-13 (16-bit rounding), around 2^-8..2^-6 (8-bit rounding),
\* 0.5, 1, 2, just below/at/above the clip rails, beyond int range, huge, inf/NaN
Exps  == {0, 1, 90, 103, 104, 110, 111, 112, 113, 114, 118, 119, 120, 121, 125, 126, 127, 128, 133, 134, 141, 142, 143, 157, 158, 159, 200, 254, 255}
Mants == {0, 1, 2, 2097152, 4194304, 4194305, 6291456, 8387840, 8388352, 8388606, 8388607}
Probe == { <<s, ex, m>> : s \in {0,1}, ex \in Exps, m \in Mants }
Fmt   == { <<w, sg>> : w \in {1,2}, sg \in {0,1} }

Sane(p, f) ==
  LET A == AllowedSigned(p[1], p[2], p[3], f[1]) IN
  /\ A # {} /\ \A v \in A : LoW(f[1]) <= v /\ v <= HiW(f[1])
  /\ (p[2] = 255 /\ p[3] # 0) \/ Cardinality(A) <= 2
  \* beyond the range the rail has the sign of the input
  /\ (p[2] >= 143 /\ p[2] < 255) => A = {IF p[1] = 1 THEN LoW(f[1]) ELSE HiW(f[1])}
  /\ (p[2] = 255 /\ p[3] = 0) => A = {IF p[1] = 1 THEN LoW(f[1]) ELSE HiW(f[1])}
  \* zero and denormals give the mid value
  /\ p[2] = 0 => A = {0}
  \* sign symmetry except at the rails
  /\ \A v \in A : (v > LoW(f[1]) /\ v < HiW(f[1])) => -v \in AllowedSigned(1 - p[1], p[2], p[3], f[1])
  \* stored form is a byte / 16-bit word
  /\ \A u \in AllowedStored(p[1], p[2], p[3], f[1], f[2]) : 0 <= u /\ u < Pow2(8 * f[1])

\* exact values: 1.0 -> rail (32768 clips to 32767), 0.5 -> 16384, -0.5 -> -16384, tie 2^-16 -> {0,1}
Spot ==
  /\ AllowedSigned(0,127,0,2) = {32767} /\ AllowedSigned(1,127,0,2) = {-32768}
  /\ AllowedSigned(0,126,0,2) = {16384} /\ AllowedSigned(1,126,0,2) = {-16384}
  /\ AllowedSigned(0,111,0,2) = {0,1}   /\ AllowedSigned(0,112,4194304,2) = {1,2}
  /\ AllowedSigned(0,126,8388352,2) = {32767} /\ AllowedSigned(0,126,8387840,2) = {32766,32767}
  /\ AllowedSigned(0,126,0,1) = {64} /\ AllowedSigned(0,119,0,1) = {0,1} /\ AllowedSigned(0,127,0,1) = {127}
  /\ AllowedStored(1,126,0,2,1) = {49152} /\ AllowedStored(1,126,0,2,0) = {16384} /\ AllowedStored(0,0,0,1,0) = {128}

Init == i = 0 /\ done = FALSE
Next == /\ ~done /\ done' = TRUE /\ i' = Cardinality(Probe)
        /\ PrintT("PROBE " \o ToJson(Probe))
Spec == Init /\ [][Next]_<<i, done>>
AllSane == \A p \in Probe, f \in Fmt : Sane(p, f)
=============================================================================

---- MODULE Tmp2_TTrace_1790674712 ----
EXTENDS Sequences, TLCExt, Toolbox, Naturals, TLC, Tmp2

_expression ==
    LET Tmp2_TEExpression == INSTANCE Tmp2_TEExpression
    IN Tmp2_TEExpression!expression
----

_trace ==
    LET Tmp2_TETrace == INSTANCE Tmp2_TETrace
    IN Tmp2_TETrace!trace
----

_inv ==
    ~(
        TLCGet("level") = Len(_TETrace)
        /\
        c = ([name |-> "residue", s |-> [books |-> <<[dim |-> 1, entries |-> 4, ordered |-> 0, sparse |-> 0, lens |-> <<2, 2, 2, 2>>, maptype |-> 0, qmin |-> 0, qdelta |-> 0, qbits |-> 1, qseq |-> 0, quant |-> <<>>], [dim |-> 2, entries |-> 4, ordered |-> 1, sparse |-> 0, lens |-> <<1, 2, 3, 3>>, maptype |-> 0, qmin |-> -494927871, qdelta |-> 1652555778, qbits |-> 2, qseq |-> 0, quant |-> <<>>], [dim |-> 2, entries |-> 4, ordered |-> 0, sparse |-> 0, lens |-> <<2, 2, 2, 2>>, maptype |-> 1, qmin |-> -494927870, qdelta |-> 1652555777, qbits |-> 2, qseq |-> 0, quant |-> <<0, 1>>], [dim |-> 2, entries |-> 4, ordered |-> 1, sparse |-> 0, lens |-> <<1, 2, 3, 3>>, maptype |-> 1, qmin |-> -494927871, qdelta |-> 1652555778, qbits |-> 2, qseq |-> 0, quant |-> <<1, 2>>], [dim |-> 1, entries |-> 2, ordered |-> 0, sparse |-> 0, lens |-> <<1, 1>>, maptype |-> 0, qmin |-> 0, qdelta |-> 0, qbits |-> 1, qseq |-> 0, quant |-> <<>>]>>, floors |-> <<[rb |-> 5, type |-> 1, parts |-> <<0, 1>>, cdim |-> <<2, 1>>, csubs |-> <<0, 1>>, cbook |-> <<0, 4>>, csub |-> <<<<0>>, <<1, -1>>>>, mult |-> 2, posts |-> <<16, 8, 24>>]>>, e0 |-> 6, ch |-> 1, e1 |-> 6, rate |-> 44100, residues |-> <<[type |-> 0, begin |-> 0, end |-> 64, psize |-> 4, nclass |-> 2, gbook |-> 1, cascade |-> <<1, 2>>, rbooks |-> <<2, 3>>]>>, maps |-> <<[submaps |-> 1, coupling |-> <<>>, mux |-> <<>>, sfloor |-> <<0>>, sres |-> <<0>>]>>, modes |-> <<[bf |-> 0, wt |-> 0, tt |-> 0, map |-> 0], [bf |-> 1, wt |-> 0, tt |-> 0, map |-> 0]>>], seq |-> FALSE])
        /\
        done = (TRUE)
    )
----

_init ==
    /\ c = _TETrace[1].c
    /\ done = _TETrace[1].done
----

_next ==
    /\ \E i,j \in DOMAIN _TETrace:
        /\ \/ /\ j = i + 1
              /\ i = TLCGet("level")
        /\ c  = _TETrace[i].c
        /\ c' = _TETrace[j].c
        /\ done  = _TETrace[i].done
        /\ done' = _TETrace[j].done

\* Uncomment the ASSUME below to write the states of the error trace
\* to the given file in Json format. Note that you can pass any tuple
\* to `JsonSerialize`. For example, a sub-sequence of _TETrace.
    \* ASSUME
    \*     LET J == INSTANCE Json
    \*         IN J!JsonSerialize("Tmp2_TTrace_1790674712.json", _TETrace)

=============================================================================

 Note that you can extract this module `Tmp2_TEExpression`
  to a dedicated file to reuse `expression` (the module in the 
  dedicated `Tmp2_TEExpression.tla` file takes precedence 
  over the module `Tmp2_TEExpression` below).

---- MODULE Tmp2_TEExpression ----
EXTENDS Sequences, TLCExt, Toolbox, Naturals, TLC, Tmp2

expression == 
    [
        \* To hide variables of the `Tmp2` spec from the error trace,
        \* remove the variables below.  The trace will be written in the order
        \* of the fields of this record.
        c |-> c
        ,done |-> done
        
        \* Put additional constant-, state-, and action-level expressions here:
        \* ,_stateNumber |-> _TEPosition
        \* ,_cUnchanged |-> c = c'
        
        \* Format the `c` variable as Json value.
        \* ,_cJson |->
        \*     LET J == INSTANCE Json
        \*     IN J!ToJson(c)
        
        \* Lastly, you may build expressions over arbitrary sets of states by
        \* leveraging the _TETrace operator.  For example, this is how to
        \* count the number of times a spec variable changed up to the current
        \* state in the trace.
        \* ,_cModCount |->
        \*     LET F[s \in DOMAIN _TETrace] ==
        \*         IF s = 1 THEN 0
        \*         ELSE IF _TETrace[s].c # _TETrace[s-1].c
        \*             THEN 1 + F[s-1] ELSE F[s-1]
        \*     IN F[_TEPosition - 1]
    ]

=============================================================================



Parsing and semantic processing can take forever if the trace below is long.
 In this case, it is advised to uncomment the module below to deserialize the
 trace from a generated binary file.

\*
\*---- MODULE Tmp2_TETrace ----
\*EXTENDS IOUtils, TLC, Tmp2
\*
\*trace == IODeserialize("Tmp2_TTrace_1790674712.bin", TRUE)
\*
\*=============================================================================
\*

---- MODULE Tmp2_TETrace ----
EXTENDS TLC, Tmp2

trace == 
    <<
    ([c |-> [name |-> "residue", s |-> [books |-> <<[dim |-> 1, entries |-> 4, ordered |-> 0, sparse |-> 0, lens |-> <<2, 2, 2, 2>>, maptype |-> 0, qmin |-> 0, qdelta |-> 0, qbits |-> 1, qseq |-> 0, quant |-> <<>>], [dim |-> 2, entries |-> 4, ordered |-> 1, sparse |-> 0, lens |-> <<1, 2, 3, 3>>, maptype |-> 0, qmin |-> -494927871, qdelta |-> 1652555778, qbits |-> 2, qseq |-> 0, quant |-> <<>>], [dim |-> 2, entries |-> 4, ordered |-> 0, sparse |-> 0, lens |-> <<2, 2, 2, 2>>, maptype |-> 1, qmin |-> -494927870, qdelta |-> 1652555777, qbits |-> 2, qseq |-> 0, quant |-> <<0, 1>>], [dim |-> 2, entries |-> 4, ordered |-> 1, sparse |-> 0, lens |-> <<1, 2, 3, 3>>, maptype |-> 1, qmin |-> -494927871, qdelta |-> 1652555778, qbits |-> 2, qseq |-> 0, quant |-> <<1, 2>>], [dim |-> 1, entries |-> 2, ordered |-> 0, sparse |-> 0, lens |-> <<1, 1>>, maptype |-> 0, qmin |-> 0, qdelta |-> 0, qbits |-> 1, qseq |-> 0, quant |-> <<>>]>>, floors |-> <<[rb |-> 5, type |-> 1, parts |-> <<0, 1>>, cdim |-> <<2, 1>>, csubs |-> <<0, 1>>, cbook |-> <<0, 4>>, csub |-> <<<<0>>, <<1, -1>>>>, mult |-> 2, posts |-> <<16, 8, 24>>]>>, e0 |-> 6, ch |-> 1, e1 |-> 6, rate |-> 44100, residues |-> <<[type |-> 0, begin |-> 0, end |-> 64, psize |-> 4, nclass |-> 2, gbook |-> 1, cascade |-> <<1, 2>>, rbooks |-> <<2, 3>>]>>, maps |-> <<[submaps |-> 1, coupling |-> <<>>, mux |-> <<>>, sfloor |-> <<0>>, sres |-> <<0>>]>>, modes |-> <<[bf |-> 0, wt |-> 0, tt |-> 0, map |-> 0], [bf |-> 1, wt |-> 0, tt |-> 0, map |-> 0]>>], seq |-> FALSE],done |-> FALSE]),
    ([c |-> [name |-> "residue", s |-> [books |-> <<[dim |-> 1, entries |-> 4, ordered |-> 0, sparse |-> 0, lens |-> <<2, 2, 2, 2>>, maptype |-> 0, qmin |-> 0, qdelta |-> 0, qbits |-> 1, qseq |-> 0, quant |-> <<>>], [dim |-> 2, entries |-> 4, ordered |-> 1, sparse |-> 0, lens |-> <<1, 2, 3, 3>>, maptype |-> 0, qmin |-> -494927871, qdelta |-> 1652555778, qbits |-> 2, qseq |-> 0, quant |-> <<>>], [dim |-> 2, entries |-> 4, ordered |-> 0, sparse |-> 0, lens |-> <<2, 2, 2, 2>>, maptype |-> 1, qmin |-> -494927870, qdelta |-> 1652555777, qbits |-> 2, qseq |-> 0, quant |-> <<0, 1>>], [dim |-> 2, entries |-> 4, ordered |-> 1, sparse |-> 0, lens |-> <<1, 2, 3, 3>>, maptype |-> 1, qmin |-> -494927871, qdelta |-> 1652555778, qbits |-> 2, qseq |-> 0, quant |-> <<1, 2>>], [dim |-> 1, entries |-> 2, ordered |-> 0, sparse |-> 0, lens |-> <<1, 1>>, maptype |-> 0, qmin |-> 0, qdelta |-> 0, qbits |-> 1, qseq |-> 0, quant |-> <<>>]>>, floors |-> <<[rb |-> 5, type |-> 1, parts |-> <<0, 1>>, cdim |-> <<2, 1>>, csubs |-> <<0, 1>>, cbook |-> <<0, 4>>, csub |-> <<<<0>>, <<1, -1>>>>, mult |-> 2, posts |-> <<16, 8, 24>>]>>, e0 |-> 6, ch |-> 1, e1 |-> 6, rate |-> 44100, residues |-> <<[type |-> 0, begin |-> 0, end |-> 64, psize |-> 4, nclass |-> 2, gbook |-> 1, cascade |-> <<1, 2>>, rbooks |-> <<2, 3>>]>>, maps |-> <<[submaps |-> 1, coupling |-> <<>>, mux |-> <<>>, sfloor |-> <<0>>, sres |-> <<0>>]>>, modes |-> <<[bf |-> 0, wt |-> 0, tt |-> 0, map |-> 0], [bf |-> 1, wt |-> 0, tt |-> 0, map |-> 0]>>], seq |-> FALSE],done |-> TRUE])
    >>
----


=============================================================================

---- CONFIG Tmp2_TTrace_1790674712 ----
CONSTANTS
    Family = "residue"

INVARIANT
    _inv

CHECK_DEADLOCK
    \* CHECK_DEADLOCK off because of PROPERTY or INVARIANT above.
    FALSE

INIT
    _init

NEXT
    _next

CONSTANT
    _TETrace <- _trace

ALIAS
    _expression
=============================================================================
\* Generated on Tue Sep 29 09:38:35 UTC 2026
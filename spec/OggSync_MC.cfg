SPECIFICATION Spec
CONSTANTS MaxLen = 7
 READ = 3
 BoundRule = "ge"
INVARIANT OffsetTruthful
INVARIANT ResultIsTheFirstPage
INVARIANT SameAsOneBigRead
PROPERTY Ends
CHECK_DEADLOCK FALSE

SPECIFICATION Spec
CONSTANTS Family = "mutations"
INVARIANT FamiliesOK
INVARIANT Export
CHECK_DEADLOCK FALSE

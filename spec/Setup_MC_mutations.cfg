SPECIFICATION Spec
CONSTANTS Family = "mutations"
INVARIANT FamiliesOK
INVARIANT ReaderInvertsWriter
INVARIANT Export
CHECK_DEADLOCK FALSE

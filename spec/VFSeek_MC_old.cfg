SPECIFICATION Spec
CONSTANTS MaxPages = 4
 EndAt = "lastpage"
 Lens = {1,2,4}
 Chunk = 4
INVARIANT Terminates
INVARIANT FindsTheRightPage
INVARIANT FirstPageHandOver
CHECK_DEADLOCK FALSE

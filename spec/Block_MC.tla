------------------------------ MODULE Block_MC ------------------------------
(***************************************************************************)
(* Encoder blocking machine composed with the decoder blocking machine:    *)
(* the application submits N samples in pieces of any sizes, the envelope  *)
(* search answers anything it could, every emitted packet is handed to the *)
(* decoder either with its granule position or without (= every way of    *)
(* placing packets on pages; the end-of-stream packet always ends a page). *)
(* Checked: granule positions are the sample ends and never decrease, the  *)
(* window flags agree with the neighbours, exactly one end-of-stream       *)
(* packet which is last and carries N, the decoder delivers exactly N      *)
(* (ceil(N/2) at half rate) samples, buffer indices stay inside the ring,  *)
(* and after end of input every blockout call makes progress.              *)
(***************************************************************************)
EXTENDS Block, TLC, FiniteSets, Json
CONSTANTS BS0, BS1, MaxN, MaxPiece, HS, Gen
B == <<BS0, BS1>>
VARIABLES e, d, N, phase, k, lastW, lastNW, endpos, eosCount, lastGp, delivered, flagsOK, gpOK, stuck, hist
vars == <<e, d, N, phase, k, lastW, lastNW, endpos, eosCount, lastGp, delivered, flagsOK, gpOK, stuck, hist>>

Init == /\ e = EncInit(B) /\ d = DecRestart(B, HS) /\ N = 0 /\ phase = "feed" /\ k = 0 /\ lastW = 0 /\ lastNW = 0 /\ endpos = 0
        /\ eosCount = 0 /\ lastGp = 0 /\ delivered = 0 /\ flagsOK = TRUE /\ gpOK = TRUE /\ stuck = FALSE /\ hist = <<>>

Wrote(n) == /\ phase = "feed" /\ N + n <= MaxN /\ e' = EncWrote(B, e, n) /\ N' = N + n /\ hist' = IF Gen THEN Append(hist, n) ELSE hist
            /\ UNCHANGED <<d, phase, k, lastW, lastNW, endpos, eosCount, lastGp, delivered, flagsOK, gpOK, stuck>>
WroteEOF == /\ phase = "feed" /\ e' = EncEOF(B, e) /\ phase' = "drain" /\ UNCHANGED hist
            /\ UNCHANGED <<d, N, k, lastW, lastNW, endpos, eosCount, lastGp, delivered, flagsOK, gpOK, stuck>>

Blockout(env, keep) ==
  /\ e.eof # -1
  /\ LET r == EncBlockout(B, e, env) IN
     IF r.ret = 0
     THEN /\ e' = r.e /\ stuck' = (stuck \/ phase = "drain")
          /\ UNCHANGED <<d, N, phase, k, lastW, lastNW, endpos, eosCount, lastGp, delivered, flagsOK, gpOK, hist>>
     ELSE LET p  == r.pkt
              ep == IF k = 0 THEN 0 ELSE endpos + Bs(B, lastW) \div 4 + Bs(B, p.W) \div 4
              g  == IF keep \/ p.eos THEN p.gp ELSE -1
              d1 == DecBlockin(B, d, p.W, p.seq, g, p.eos, TRUE)
              n  == DecAvail(d1)
          IN /\ e' = r.e
             /\ d' = DecRead(d1, n)
             /\ delivered' = delivered + n
             /\ k' = k + 1 /\ lastW' = p.W /\ lastNW' = p.nW /\ endpos' = ep
             /\ eosCount' = eosCount + (IF p.eos THEN 1 ELSE 0)
             /\ lastGp' = p.gp
             /\ flagsOK' = (flagsOK /\ (k > 0 => p.lW = lastW /\ (lastW = 1 => lastNW = p.W)) /\ (k = 0 => p.lW = 0))
             /\ gpOK' = (gpOK /\ p.gp >= lastGp /\ (phase = "feed" => p.gp = ep) /\ (phase = "drain" => p.gp = MinOf(ep, N)) /\ DecBlockinAllowed(d) /\ DecBufOK(B, d1))
             /\ UNCHANGED <<N, phase, stuck, hist>>

Next == \/ \E n \in 1..MaxPiece : Wrote(n)
        \/ WroteEOF
        \/ \E env \in EnvAnswers(B, e), keep \in BOOLEAN : Blockout(env, keep)

Spec == Init /\ [][Next]_vars

Done == e.eof = -1
Flags      == flagsOK
Granules   == gpOK
OneEos     == eosCount <= 1 /\ (eosCount = 1 => Done)
Last       == Done => eosCount = 1 /\ lastGp = N
RoundTrip  == Done => delivered = (IF HS = 1 THEN (N + 1) \div 2 ELSE N)
NeverOver  == delivered <= (IF HS = 1 THEN (N + 1) \div 2 ELSE N) \/ phase = "feed"
Progress   == ~stuck                      \* after end of input no blockout call returns "need more data"
BufOK      == DecBufOK(B, d)
NotDone    == ~Done                       \* witness: expected to be violated
Export     == (Gen /\ Done) => PrintT("HIST " \o ToJson([pieces |-> hist, n |-> N, bs |-> B]))
View       == <<e, d, N, phase, k, lastW, lastNW, endpos, eosCount, lastGp, delivered, flagsOK, gpOK, stuck>>
=============================================================================

------------------------------- MODULE VFApi -------------------------------
(***************************************************************************)
(* API-level specification of libvorbisfile (what the properties promise). *)
(*                                                                         *)
(* A handle is abstracted to the record                                    *)
(*   [open, f, sk, pos, hs, lap, closes, faulted, recov]                   *)
(* `pos` is the index (full-rate sample units, absolute over all links) of *)
(* the next sample the caller is entitled to; -1 = unknown (after a failed *)
(* seek or an I/O fault).  `lap` is the number of upcoming samples that a  *)
(* lapped seek / crosslap is allowed to have altered; `bl` says that this  *)
(* region is held to the cross-fade formula of the property (BlendDecided).*)
(*                                                                         *)
(* A file F is the record emitted by the stream factory's libogg-only      *)
(* walker: [nl, total, damaged, links : Seq([serial,ch,rate,bs0,bs1,N,Nh,  *)
(* start,hrok,id,...]), pb : Seq(Seq(Int))] (pb[l] = absolute positions of *)
(* the page ends of link l).                                               *)
(*                                                                         *)
(* Every API call is one action.  It is written as two operators:          *)
(*   Chk<Call>(s,F,e)  = the set of NAMES of the rules the observed call    *)
(*                       record e violates in abstract state s             *)
(*   Nxt<Call>(s,F,e)  = the abstract state after the call                 *)
(* VFApi_Trace binds e to logged events; VFApi_MC binds e to every result  *)
(* the rules allow and model-checks the design-level invariants.           *)
(***************************************************************************)
EXTENDS Integers, Sequences, FiniteSets, TLC, PcmPack

OV_FALSE == -1      OV_EOF == -2          OV_HOLE == -3
OV_EREAD == -128    OV_EFAULT == -129     OV_EIMPL == -130   OV_EINVAL == -131
OV_ENOTVORBIS == -132  OV_EBADHEADER == -133  OV_EVERSION == -134
OV_ENOTAUDIO == -135   OV_EBADPACKET == -136  OV_EBADLINK == -137  OV_ENOSEEK == -138
ErrCodes == {OV_FALSE, OV_EOF, OV_HOLE} \cup (-138 .. -128)

NOTOPEN == 0  PARTOPEN == 1  OPENED == 2  STREAMSET == 3  INITSET == 4

Max(S) == CHOOSE x \in S : \A y \in S : y <= x
Min(S) == CHOOSE x \in S : \A y \in S : x <= y
Shl(x,h) == IF h = 1 THEN 2*x ELSE x
Shr(x,h) == IF h = 1 THEN x \div 2 ELSE x
Even(x,h) == Shl(Shr(x,h),h)
Rng(q) == { q[i] : i \in 1..Len(q) }

InitHandle == [open |-> FALSE, f |-> -1, sk |-> FALSE, pos |-> -1, hs |-> 0, lap |-> 0, bl |-> FALSE,
               closes |-> 0, faulted |-> FALSE, recov |-> FALSE, fk |-> 0]

(* ---------------- file geometry ---------------- *)
Total(F) == F.total
LinkOf(F,t) ==  \* link containing absolute position t (last link when t = total)
  IF \E i \in 1..F.nl : t < F.links[i].start + F.links[i].N
  THEN Min({ i \in 1..F.nl : t < F.links[i].start + F.links[i].N }) ELSE F.nl
\* greatest page boundary (or link start) strictly below p; 0 if none
B(F,p) == LET cand == { x \in UNION { Rng(F.pb[i]) \cup {F.links[i].start} : i \in 1..F.nl } : x < p }
          IN IF cand = {} THEN 0 ELSE Max(cand)
HrAllowed(F) == \A i \in 1..F.nl : F.links[i].hrok
Strict(s,F) == s.open /\ ~F.damaged /\ ~s.faulted /\ ~s.recov     \* the full promise applies
\* Half rate delivers ceil(N/2) samples per link and moves the position by two per sample.  When a link other than
\* the last has odd length these two statements cannot both be exact at the link change (the cursor is one ahead
\* until the next granule position arrives), so on such files positions are only held to +-1 in half-rate mode.
HsExact(F) == \A i \in 1..F.nl : (i < F.nl => F.links[i].N % 2 = 0) /\ F.links[i].start % 2 = 0
Loose(s,F) == s.hs = 1 /\ ~HsExact(F)

(* ---------------- Open ---------------- *)
ChkOpen(s,F,e) ==
  LET intact == ~F.damaged /\ ~s.faulted IN
  (IF e.ret # 0 /\ ~e.z THEN {"FailedOpenLeavesHandleCleared"} ELSE {}) \cup
  (IF e.ret # 0 /\ e.cl # 0 THEN {"FailedOpenMustNotClose"} ELSE {}) \cup
  (IF e.ret = 0 /\ e.cl # 0 THEN {"OpenMustNotClose"} ELSE {}) \cup
  (IF e.ret # 0 /\ e.ret \notin ErrCodes THEN {"OpenUndocumentedCode"} ELSE {}) \cup
  (IF intact /\ e.mode # "notell" /\ e.ret # 0 THEN {"IntactOpenSucceeds"} ELSE {}) \cup
  (IF intact /\ e.ret = 0 /\ e.mode \in {"seek","test"} THEN
      (IF e.streams # F.nl \/ e.seekable # 1 THEN {"OpenLinkCount"} ELSE {}) \cup
      (IF e.streams = F.nl /\ \E i \in 1..F.nl :
            \/ e.lt[i].serial # F.links[i].serial \/ e.lt[i].ch # F.links[i].ch
            \/ e.lt[i].rate # F.links[i].rate \/ e.lt[i].cid # F.links[i].id
         THEN {"OpenLinkTable"} ELSE {}) \cup
      (IF e.streams = F.nl /\ \E i \in 1..F.nl : e.lt[i].N # F.links[i].N THEN {"OpenLinkLength"} ELSE {}) \cup
      (IF e.ptot # F.total THEN {"OpenTotal"} ELSE {}) \cup
      (IF e.tell # 0 THEN {"OpenStartsAtZero"} ELSE {})
   ELSE {}) \cup
  (IF intact /\ e.ret = 0 /\ e.mode = "stream" THEN
      (IF e.seekable # 0 THEN {"StreamNotSeekable"} ELSE {}) \cup
      (IF e.lt[1].ch # F.links[1].ch \/ e.lt[1].rate # F.links[1].rate THEN {"OpenLinkTable"} ELSE {})
   ELSE {})

NxtOpen(s,F,e) ==
  IF e.ret = 0
  THEN [s EXCEPT !.open = TRUE, !.f = e.f, !.sk = (e.sk = 1), !.pos = IF e.tell >= 0 THEN e.tell ELSE -1, !.hs = 0, !.lap = 0, !.closes = e.cl,
                 \* a premature end-of-data (zero read) during a successful open is indistinguishable from a shorter file:
                 \* the handle legitimately describes a truncated view, which is not held to the full file
                 !.recov = (s.faulted /\ s.fk = 2 /\ e.ff > 0)]
  ELSE [s EXCEPT !.open = FALSE, !.f = e.f, !.closes = e.cl]

(* ---------------- reads ---------------- *)
\* common part of float and integer reads; n = samples (frames) returned
ChkRead(s,F,e,n) ==
  LET strict == Strict(s,F) /\ s.pos >= 0 IN
  (IF e.ret < 0 /\ e.ret \notin ErrCodes THEN {"ReadUndocumentedCode"} ELSE {}) \cup
  (IF e.cl # s.closes THEN {"NoCloseBehindCaller"} ELSE {}) \cup
  (IF ~strict THEN {} ELSE
   IF Loose(s,F) THEN
     (IF e.ret = OV_HOLE THEN {"IntactStreamNoHole"} ELSE {}) \cup
     (IF e.ret > 0 /\ ~(e.id >= 0 /\ e.id - e.ta \in {-1,0,1} /\ e.ta - s.pos \in {-2,-1,0,1,2}) THEN {"ReadIdentityHalfRateOddLinks"} ELSE {}) \cup
     (IF e.ret > 0 /\ e.tella # e.ta + Shl(n, s.hs) THEN {"ReadAdvancesByCount"} ELSE {})
   ELSE
     IF s.pos >= F.total
     THEN (IF e.ret # 0 THEN {"ReadAtEndReturnsEof"} ELSE {})
     ELSE (IF e.ret = OV_HOLE THEN {"IntactStreamNoHole"} ELSE {}) \cup
          (IF e.ret <= 0 /\ e.ret # OV_HOLE THEN {"ReadDeliversBeforeEnd"} ELSE {}) \cup
          (IF e.ret > 0 THEN
              (IF e.ta # s.pos THEN {"ReadContinuesAtPosition"} ELSE {}) \cup
              (IF e.id # e.ta /\ ~(s.lap > 0 /\ e.mf <= s.lap) THEN {"ReadIdentity"} ELSE {}) \cup
              (IF e.bs # LinkOf(F,e.ta) - 1 THEN {"ReadLinkIndex"} ELSE {}) \cup
              (IF e.tella # e.ta + Shl(n, s.hs) THEN {"ReadAdvancesByCount"} ELSE {}) \cup
              (IF e.ch # F.links[LinkOf(F,e.ta)].ch THEN {"ReadChannels"} ELSE {}) \cup
              (IF LinkOf(F,e.ta) # LinkOf(F, e.ta + Shl(n - 1, s.hs)) THEN {"ReadWithinOneLink"} ELSE {})
           ELSE {}))

\* integer reads: a buffer too small for one frame (or a non-positive word size) is answered with an error, nothing written
ChkReadI(s,F,e,n) ==
  LET chs == IF s.open /\ s.pos >= 0 /\ s.pos < F.total THEN F.links[LinkOf(F,s.pos)].ch ELSE 0
      tooSmall == Strict(s,F) /\ s.pos >= 0 /\ (e.word <= 0 \/ (s.pos < F.total /\ e.len < e.word * chs))
  IN IF tooSmall
     THEN (IF e.ret >= 0 THEN {"SmallBufferIsAnError"} ELSE {}) \cup
          (IF ~e.untouched THEN {"ErrorWritesNothing"} ELSE {}) \cup
          (IF e.tella # s.pos THEN {"ErrorKeepsPosition"} ELSE {})
     ELSE ChkRead(s,F,e,n) \cup
          (IF e.ret > e.len THEN {"ReadAtMostLen"} ELSE {}) \cup
          (IF e.ret > 0 /\ e.ret # n * e.word * e.ch THEN {"WholeFrames"} ELSE {}) \cup
          \* the reference floats logged beside the words belong to the reported position: they are only the right ones when that position is
          \* exact (not in the +-1 regime of half rate over odd links); injected values are exact by construction
          (IF e.ret > 0 /\ e.word \in {1,2} /\ ("inj" \in DOMAIN e \/ ~Loose(s,F)) /\ \E i \in 1..Len(e.smp) : ~ConvOK(e.smp[i], e.word, e.sg, e.be) THEN {"PcmConversion"} ELSE {}) \cup
          (IF ~e.guard THEN {"WritesInsideBuffer"} ELSE {})

\* Inside the lapped region the output is the window-weighted cross-fade of the new audio with the audio that would have been read
\* next at the old position.  WHICH samples are blended, and when the statement can be decided at all, is the model's business
\* (BlendDecided below, evaluated when the lapping call returns); the float comparison is the harness's: of the first min(n, lap)
\* samples of this read it compared lbk with the cross-fade and found lbbad of them off.
BlendJudged(s,F,e) == Strict(s,F) /\ s.pos >= 0 /\ ~Loose(s,F) /\ e.ret > 0 /\ s.lap > 0 /\ s.bl /\ e.ta = s.pos
ChkBlend(s,F,e) ==
  IF BlendJudged(s,F,e)
  THEN IF "lbk" \in DOMAIN e
       THEN (IF e.lbk = Min({e.ret, s.lap}) /\ e.lbbad = 0 THEN {} ELSE {"LapBlendAsSpecified"})
       ELSE {"LapBlendObserved"}        \* the harness compared nothing although the model expects a decided region: a note on the machinery, owned by no check
  ELSE {}

ChkReadF(s,F,e) ==
  ChkRead(s,F,e,e.ret) \cup ChkBlend(s,F,e) \cup
  (IF e.ret > e.len THEN {"ReadAtMostLen"} ELSE {})

\* position after a read: believe the observation when the call delivered, so one defect is reported once
NxtRead(s,F,e,n) ==
  IF s.pos < 0 THEN s           \* unknown position: only a successful seek re-establishes it
  ELSE IF e.ret > 0 THEN [s EXCEPT !.pos = IF e.tella >= 0 THEN e.tella ELSE -1,
                              !.lap = IF s.lap > n THEN s.lap - n ELSE 0]
  ELSE IF e.ret = 0 THEN s
  ELSE IF e.ret = OV_HOLE THEN s   \* position after a hole is re-established by the next granule
  ELSE [s EXCEPT !.pos = -1]

NxtReadI(s,F,e,n) == IF e.ret < 0 /\ e.tella = s.pos THEN s ELSE NxtRead(s,F,e,n)

(* ---------------- seeks ---------------- *)
SeekKinds == {"PcmSeek","PcmSeekPage","RawSeek","TimeSeek","TimeSeekPage",
              "PcmSeekLap","PcmSeekPageLap","RawSeekLap","TimeSeekLap","TimeSeekPageLap"}
IsLap(k)  == k \in {"PcmSeekLap","PcmSeekPageLap","RawSeekLap","TimeSeekLap","TimeSeekPageLap"}
Plain(k)  == CASE k = "PcmSeekLap" -> "PcmSeek" [] k = "PcmSeekPageLap" -> "PcmSeekPage" [] k = "RawSeekLap" -> "RawSeek"
               [] k = "TimeSeekLap" -> "TimeSeek" [] k = "TimeSeekPageLap" -> "TimeSeekPage" [] OTHER -> k
IsTime(k) == Plain(k) \in {"TimeSeek","TimeSeekPage"}

InRange(F,k,e,flen) ==
  CASE Plain(k) \in {"PcmSeek","PcmSeekPage"} -> 0 <= e.pos /\ e.pos <= F.total
    [] Plain(k) = "RawSeek" -> 0 <= e.pos /\ e.pos <= flen
    [] OTHER -> e.inrange /\ ~e.neg

\* where a successful seek of kind k must leave the position (as a predicate on the observed tell)
LandsOK(s,F,k,e) ==
  CASE Plain(k) = "PcmSeek"      -> \* half rate: the even position at or below the target, counted from the file start or from the link start
                                     \/ e.tell = Even(e.pos, s.hs)
                                     \/ e.tell = F.links[LinkOf(F,e.pos)].start + Even(e.pos - F.links[LinkOf(F,e.pos)].start, s.hs)
    [] Plain(k) = "PcmSeekPage"  -> B(F,e.pos) <= e.tell /\ e.tell <= e.pos
    [] Plain(k) = "RawSeek"      -> 0 <= e.tell /\ e.tell <= F.total
    [] Plain(k) = "TimeSeek"     -> e.expect - 1 - s.hs <= e.tell /\ e.tell <= e.expect + 1
    [] Plain(k) = "TimeSeekPage" -> B(F,e.expect - 1) <= e.tell /\ e.tell <= e.expect + 1
    [] OTHER -> FALSE

\* a lapped seek may answer OV_EOF without lapping only when there is nothing to lap
LinkEnds(F) == { F.links[i].start + F.links[i].N : i \in 1..F.nl }
LapEofAllowed(s,F,k,e) ==
  \/ (e.rs0 < STREAMSET /\ e.tell = s.pos /\ s.pos = F.total)                      \* no decode state, no link, and at the end of the whole stream
  \/ (e.rs0 = STREAMSET /\ e.tell = s.pos /\ "cur0" \in DOMAIN e /\ e.cur0 + 1 \in 1..F.nl
      /\ s.pos = F.links[e.cur0 + 1].start + F.links[e.cur0 + 1].N)               \* no decode state and at the end of the (logical) stream the handle is in - the same position is the START of the next link, where there is plenty to lap
  \/ (e.rs0 < INITSET /\ s.pos < 0 /\ (("off0" \in DOMAIN e /\ e.off0 >= F.len) \/ e.off >= F.len - 26))     \* no decode state, position unknown (after a failed seek), byte cursor at the end of the physical stream - or nothing of the stream between it and the end (the call read up to there; a multiplexed stream may trail ours)
  \/ (LandsOK(s,F,k,e) /\ IF e.rs >= STREAMSET /\ e.cur + 1 \in 1..F.nl
                           THEN e.tell = F.links[e.cur + 1].start + F.links[e.cur + 1].N
                           ELSE e.tell = F.total)                                  \* sought, and no audio follows the target in the link the handle is in now

ChkSeek(s,F,k,e,flen) ==
  (IF e.ret # 0 /\ e.ret \notin ErrCodes THEN {"SeekUndocumentedCode"} ELSE {}) \cup
  (IF e.cl # s.closes THEN {"NoCloseBehindCaller"} ELSE {}) \cup
  (IF ~s.sk /\ s.open /\ e.ret = 0 THEN {"SeekOnStreamMustFail"} ELSE {}) \cup
  (IF ~(Strict(s,F) /\ s.sk) THEN {} ELSE
     IF InRange(F,k,e,flen)
     THEN IF e.ret = 0 THEN (IF LandsOK(s,F,k,e) \/ (Loose(s,F) /\ Plain(k) \in {"PcmSeek","TimeSeek"} /\ e.tell - e.pos \in {-2,-1,0,1}) THEN {} ELSE {"SeekLandsWhereSpecified"})
          ELSE IF IsLap(k) /\ e.ret = OV_EOF /\ LapEofAllowed(s,F,k,e) THEN {}
          ELSE {"InRangeSeekSucceeds"}
     ELSE (IF e.ret = 0 THEN {"OutOfRangeSeekRejected"} ELSE {}) \cup
          (IF e.ret # 0 /\ s.pos >= 0 /\ ~IsLap(k) /\ (e.tell # e.t0 \/ (~Loose(s,F) /\ e.tell # s.pos) \/ e.rs # e.rs0 \/ e.cur # e.cur0)
             THEN {"RejectedSeekLeavesPosition"} ELSE {}))

LapLen(s,F,e) ==   \* half a short block of the old and of the new link, whichever is smaller, in returned samples
  LET ln == IF e.tell >= 0 THEN LinkOf(F, e.tell) ELSE 1
      lo == IF e.rs0 < STREAMSET THEN ln                         \* no decode state: the old side is whatever the stream cursor meets; at most the new half block
            ELSE IF e.cur0 + 1 \in 1..F.nl THEN e.cur0 + 1      \* the link the handle was decoding (at a link end: the one that ends there)
            ELSE IF s.pos >= 0 THEN LinkOf(F, s.pos) ELSE ln
  IN IF ~(lo \in 1..Len(F.links) /\ ln \in 1..Len(F.links)) THEN 0                 \* no stream description for this handle (damaged-file families that do not log one)
     ELSE Min({Shr(F.links[lo].bs0, s.hs), Shr(F.links[ln].bs0, s.hs)}) \div 2

\* When is the content of the lapped region decided by the property?  so: old handle state, Fo: its file, lo: the link whose audio
\* the old side is taken from (1-based), sn: the handle that was lapped into, Fn / ln: its file and link, n: length of the region,
\* e: the call record (state of the NEW handle after the call).
\*  - both positions are known exactly and neither side is itself inside a region an earlier lapping call altered;
\*  - at least n samples of the old link follow the old position (otherwise the old side is the decoder's extrapolation of its last
\*    block, about which the property says nothing);
\*  - the new handle holds at least n finished samples (dc - dr: what is decoded and not yet returned); with fewer the library
\*    blends into the still unfinished overlap half of its last block, which the statement does not describe;
\*  - the harness formed its expectation from the same positions and links (lbfrom, lblo, lbat, lbln, lbn).
BlendDecided(so,Fo,lo,sn,Fn,ln,n,at,e) ==
  /\ Strict(so,Fo) /\ Strict(sn,Fn) /\ ~Loose(so,Fo) /\ ~Loose(sn,Fn)
  /\ so.pos >= 0 /\ at >= 0 /\ so.lap = 0 /\ n > 0
  /\ lo \in 1..Len(Fo.links) /\ ln \in 1..Len(Fn.links)
  /\ so.pos >= Fo.links[lo].start /\ Fo.links[lo].start + Fo.links[lo].N - so.pos >= Shl(n, so.hs)
  /\ (so.hs = 1 => so.pos % 2 = 0) /\ (sn.hs = 1 => at % 2 = 0)
  /\ at >= Fn.links[ln].start /\ Fn.links[ln].start + Fn.links[ln].N - at >= Shl(n, sn.hs)
  /\ e.rs = INITSET /\ "dc" \in DOMAIN e /\ e.dc - e.dr >= n
  /\ "lbn" \in DOMAIN e /\ e.lbn = n /\ e.lbfrom = so.pos /\ e.lblo = lo - 1 /\ e.lbat = at /\ e.lbln = ln - 1

\* the link the old side of a lapping seek comes from: the one the handle was decoding, else the one its position lies in
LapOldLink(s,F,e) == IF e.rs0 >= STREAMSET /\ e.cur0 + 1 \in 1..F.nl THEN e.cur0 + 1 ELSE IF s.pos >= 0 THEN LinkOf(F, s.pos) ELSE 0

NxtSeek(s,F,k,e,flen) ==
  IF e.ret = 0 THEN [s EXCEPT !.pos = IF e.tell >= 0 THEN e.tell ELSE -1, !.lap = IF IsLap(k) THEN LapLen(s,F,e) ELSE 0,
                              !.bl = IsLap(k) /\ BlendDecided(s, F, LapOldLink(s,F,e), s, F, e.cur + 1, LapLen(s,F,e), e.tell, e)]
  ELSE IF s.pos < 0 THEN s                          \* an unknown position is only re-established by a seek that succeeds
  ELSE IF ~s.sk /\ IsLap(k) THEN [s EXCEPT !.pos = -1, !.lap = 0]   \* a lapped seek refused on a stream has already consumed its lap samples
  ELSE IF e.tell >= 0 /\ e.rs >= OPENED THEN [s EXCEPT !.pos = e.tell, !.lap = IF e.tell = s.pos /\ ~IsLap(k) THEN s.lap ELSE 0]
  ELSE [s EXCEPT !.pos = -1, !.lap = 0]

(* ---------------- half rate ---------------- *)
ChkHalfRate(s,F,e) ==
  (IF e.ret # 0 /\ e.ret \notin ErrCodes THEN {"HalfRateUndocumentedCode"} ELSE {}) \cup
  (IF e.cl # s.closes THEN {"NoCloseBehindCaller"} ELSE {}) \cup
  (IF ~Strict(s,F) THEN {} ELSE
     IF e.flag # 0 /\ ~(IF s.sk THEN HrAllowed(F) ELSE F.links[1].hrok)   \* a stream only knows its current (first) link
     THEN (IF e.ret = 0 THEN {"HalfRateRefusedFor64"} ELSE {}) \cup
          (IF e.hs # 0 THEN {"RefusalLeavesFullRate"} ELSE {}) \cup
          (IF s.sk /\ s.pos >= 0 /\ e.tell # s.pos THEN {"RefusalKeepsPosition"} ELSE {})
     ELSE (IF e.ret # 0 THEN {"HalfRateAccepted"} ELSE {}) \cup
          (IF e.ret = 0 /\ e.hs # (IF e.flag # 0 THEN 1 ELSE 0) THEN {"HalfRateFlagTakesEffect"} ELSE {}) \cup
          (IF e.ret = 0 /\ s.sk /\ s.pos >= 0 /\ s.pos <= F.total /\ HsExact(F) /\ e.tell \notin {s.pos, Even(s.pos,1)} THEN {"HalfRateKeepsPosition"} ELSE {}) \cup
          (IF e.ret = 0 /\ s.sk /\ s.pos >= 0 /\ s.pos <= F.total /\ ~HsExact(F) /\ e.tell - s.pos \notin {-2,-1,0} THEN {"HalfRateKeepsPosition"} ELSE {}))

NxtHalfRate(s,F,e) ==
  [s EXCEPT !.hs = IF e.hs \in {0,1} THEN e.hs ELSE s.hs,
            !.pos = IF s.sk THEN (IF e.tell >= 0 THEN e.tell ELSE -1)
                    ELSE IF e.rs0 > STREAMSET THEN -1 ELSE s.pos,     \* a mid-stream toggle on a stream drops the decoder state (documented)
            !.lap = 0]

(* ---------------- crosslap (h1 old, h2 new) ---------------- *)
ChkCrosslap(s1,F1,s2,F2,e) ==
  (IF e.ret # 0 /\ e.ret \notin ErrCodes THEN {"CrosslapUndocumentedCode"} ELSE {}) \cup
  (IF ~(Strict(s1,F1) /\ Strict(s2,F2) /\ s1.pos >= 0 /\ s2.pos >= 0) THEN {} ELSE
     IF e.ret = 0
     THEN (IF s2.sk /\ e.tell # s2.pos THEN {"CrosslapKeepsSecondPosition"} ELSE {}) \cup
          (IF s1.sk /\ ~(s1.pos <= e.t11 /\ e.t11 <= s1.pos + F1.links[LinkOf(F1,s1.pos)].bs0 \div 2) THEN {"CrosslapConsumesAtMostLap"} ELSE {})
     ELSE (IF e.ret = OV_EOF /\ (s2.pos \in LinkEnds(F2) \/ (e.rs1 < INITSET /\ s1.pos \in LinkEnds(F1))) THEN {} ELSE {"CrosslapSucceeds"}))   \* lapping never crosses a link: nothing to lap at a link end

(* ---------------- tell / query / clear ---------------- *)
ChkTell(s,F,e) ==
  (IF Strict(s,F) /\ s.pos >= 0 /\ s.sk /\ e.pt # s.pos THEN {"TellReportsPosition"} ELSE {}) \cup
  (IF e.cl # s.closes THEN {"NoCloseBehindCaller"} ELSE {})

ChkQuery(s,F,e) ==
  (IF e.cl # s.closes THEN {"NoCloseBehindCaller"} ELSE {}) \cup
  (IF Strict(s,F) /\ s.sk THEN
      (IF e.streams # F.nl THEN {"OpenLinkCount"} ELSE {}) \cup
      (IF e.streams = F.nl /\ \E i \in 1..F.nl :
            \/ e.lt[i].serial # F.links[i].serial \/ e.lt[i].ch # F.links[i].ch
            \/ e.lt[i].rate # F.links[i].rate \/ e.lt[i].cid # F.links[i].id \/ e.lt[i].N # F.links[i].N
         THEN {"OpenLinkTable"} ELSE {}) \cup
      (IF e.ptot # F.total THEN {"OpenTotal"} ELSE {})
   ELSE {})

ChkClear(s,e) ==
  (IF e.ret # 0 THEN {"ClearReturnsZero"} ELSE {}) \cup
  (IF ~e.z THEN {"ClearZeroesHandle"} ELSE {}) \cup
  (IF s.open /\ e.cl # s.closes + 1 THEN {"CloseRunsExactlyOnceAtClear"} ELSE {}) \cup
  (IF ~s.open /\ e.cl # s.closes THEN {"CloseOnlyForOpenedHandles"} ELSE {})

NxtClear(s,e) == [InitHandle EXCEPT !.closes = e.cl, !.faulted = s.faulted, !.fk = s.fk]
=============================================================================

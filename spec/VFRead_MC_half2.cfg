SPECIFICATION Spec
CONSTANTS MaxLinks = 2
 Shapes = {1,3}
 PPPs = {2,9}
 S0s = {1}
 ETs = {0,1}
 Muxes = {0}
 BIdx = {3}
 DiscardVi = "link"
 Streaming = FALSE
 PinSer = FALSE
 PinBos = FALSE
 Spans = {0}
 Dmg = {}
 PLen = 2
 ReadLens = {100}
 MaxCalls = 3
 Ops = {"read","pcm","half"}
INVARIANT NoLoopBoundHit
INVARIANT OpenOK
INVARIANT PositionTruth
INVARIANT PositionTruthHalf
INVARIANT ReadOutcome
INVARIANT InOrder
INVARIANT SeekOutcome
INVARIANT HalfOutcome
CHECK_DEADLOCK FALSE

---------------------------- MODULE VFOpen_Trace ----------------------------
(***************************************************************************)
(* Binds VFOpen to the code.  For every seekable open of an undamaged file *)
(* whose page table was logged (event Pages: offset, length, serial, BOS   *)
(* flag, granule position, packets completed, samples its packets account *)
(* for) TLC runs the model of the link discovery on that table with the    *)
(* real constants and compares                                             *)
(*   LinkTableAsModelled   the table the library built (public fields      *)
(*                         offsets / serialnos / dataoffsets / pcmlengths) *)
(*                         with the table the model computes;              *)
(*   ProbesAsModelled      the callback seeks of the call with the seeks   *)
(*                         the model predicts, offset for offset, as a     *)
(*                         prefix (the open ends with a raw seek to the    *)
(*                         first audio page, which is not modelled).       *)
(* Both are fidelity notes (DRIFT); whether the table is RIGHT is decided  *)
(* by the Open rules of VFApi on the same event.                           *)
(***************************************************************************)
EXTENDS VFOpen, TLC, Json, IOUtils
Tr == ndJsonDeserialize(IOEnv.TRACE)
VARIABLES l, scn, pages, ncmp
vars == <<l, scn, pages, ncmp>>
K == [chunk |-> 65536, near |-> 44100, read |-> 2048, backup |-> "begin", handover |-> "refetch", clamp |-> TRUE]
Note(rules, e) == IF rules = {} THEN TRUE ELSE PrintT("DRIFT " \o ToJson([line |-> l, scn |-> Tr[scn].scn, ev |-> e.e, rules |-> rules]))
NoPages == [pg |-> <<>>, lk |-> <<>>, f |-> -1, dmg |-> <<>>, ndmg |-> 0]
IsPrefix(a, b) == Len(a) <= Len(b) /\ \A i \in 1..Len(a) : a[i] = b[i]
\* the page table of the file before any damage, in the model's terms
Table0 ==
  LET lk == pages.lk IN
  [j \in 1..Len(pages.pg) |->
     LET q == pages.pg[j] IN [off |-> q.o, len |-> q.n, ser |-> q.s, gp |-> q.g, bos |-> q.b = 1,
                               hp |-> IF q.l >= 0 /\ q.o < lk[q.l + 1].doff THEN q.k ELSE 0, bs |-> IF q.l >= 0 /\ q.o >= lk[q.l + 1].doff THEN q.bl ELSE <<>>, ours |-> FALSE, cont |-> q.c = 1]]
\* Damage the model can follow: an AUDIO page (or a page of a foreign stream) that lies about itself - granule position, serial number, flags, sequence
\* number - or is missing or there twice.  The page stays a well-formed page; what the packets on the header pages are is untouched, which is all the
\* model knows about packets.  Anything else (garbage, truncation, flipped bits, a header page hit) is left to the safety rules of VFApi.
FieldKinds == {"setgp", "gphuge", "setserial", "setbos", "seteos", "cleareos", "setseq", "setcont", "clearcont"}
CanFollow(ps, m) == m.a + 1 \in 1..Len(ps) /\ ps[m.a + 1].hp = 0 /\ ~ps[m.a + 1].bos /\ m.kind \in FieldKinds \cup {"drop", "dup"} /\ (m.kind \in {"setcont", "clearcont"} => ~ps[m.a + 1].cont)
ApplyOne(ps, m) ==
  LET k == m.a + 1  p == ps[k]
      q == CASE m.kind = "setgp" -> [p EXCEPT !.gp = m.b]
             [] m.kind = "gphuge" -> [p EXCEPT !.gp = 2000000000]
             [] m.kind = "setserial" -> [p EXCEPT !.ser = m.b]
             [] m.kind = "setbos" -> [p EXCEPT !.bos = TRUE]
             [] m.kind = "setcont" -> [p EXCEPT !.bs = IF @ = <<>> THEN @ ELSE Tail(@)]      \* libogg skips what such a page claims to continue when there is nothing to continue
             [] OTHER -> p
  IN IF m.kind = "drop" THEN SubSeq(ps, 1, k - 1) \o SubSeq(ps, k + 1, Len(ps))
     ELSE IF m.kind = "dup" THEN SubSeq(ps, 1, k) \o SubSeq(ps, k, Len(ps))
     ELSE [ps EXCEPT ![k] = q]
RECURSIVE ApplyAll(_, _, _)
ApplyAll(ps, d, i) == IF i > Len(d) THEN [ok |-> TRUE, ps |-> ps] ELSE IF ~CanFollow(ps, d[i]) THEN [ok |-> FALSE, ps |-> ps] ELSE ApplyAll(ApplyOne(ps, d[i]), d, i + 1)
RECURSIVE Reoffset(_, _, _)
Reoffset(ps, k, o) == IF k > Len(ps) THEN <<>> ELSE << [ps[k] EXCEPT !.off = o] >> \o Reoffset(ps, k + 1, o + ps[k].len)
Damaged == pages.ndmg > 0
Followed == IF ~Damaged THEN [ok |-> TRUE, ps |-> Table0] ELSE IF pages.ndmg > Len(pages.dmg) THEN [ok |-> FALSE, ps |-> <<>>] ELSE ApplyAll(Table0, pages.dmg, 1)
Cl(x) == IF x > 1900000000 THEN 1900000000 ELSE x
ClTab(t) == [i \in 1..Len(t) |-> [t[i] EXCEPT !.first = Cl(@), !.len = Cl(@)]]
Judge(e) ==
  LET lk == pages.lk
      PG == IF Damaged THEN Reoffset(Followed.ps, 1, 0) ELSE Table0
      VS == { lk[i].ser : i \in 1..Len(lk) }
      r == Open(PG, VS, K)
  IN (IF r.ok = (e.ret = 0) THEN {} ELSE {"OpenVerdictAsModelled"})
     \cup (IF e.ret = 0 /\ r.ok /\ ClTab(r.links) # ClTab(e.tab) THEN {"LinkTableAsModelled"} ELSE {})
     \cup (IF IsPrefix(<<0>> \o r.probes, e.probes) THEN {} ELSE {"ProbesAsModelled"})
Applies(e) == e.e = "Open" /\ "probes" \in DOMAIN e /\ e.mode = "seek" /\ e.init = 0 /\ pages.pg # <<>> /\ pages.f = e.f /\ (IF Damaged THEN Followed.ok ELSE e.ret = 0)
Init == l = 1 /\ scn = 1 /\ pages = NoPages /\ ncmp = 0
Next ==
  /\ l <= Len(Tr)
  /\ LET e == Tr[l] IN
     CASE e.e = "Reset" -> scn' = l /\ l' = l + 1 /\ pages' = NoPages /\ UNCHANGED ncmp
       [] e.e = "Pages" -> pages' = [pg |-> e.pg, lk |-> e.lk, f |-> e.f, dmg |-> IF "dmg" \in DOMAIN e THEN e.dmg ELSE <<>>, ndmg |-> IF "ndmg" \in DOMAIN e THEN e.ndmg ELSE 0] /\ l' = l + 1 /\ UNCHANGED <<scn, ncmp>>
       [] Applies(e) -> Note(Judge(e), e) /\ (Damaged => PrintT("FOLLOWED 1")) /\ ncmp' = ncmp + 1 /\ l' = l + 1 /\ UNCHANGED <<scn, pages>>
       [] e.e = "End" -> PrintT("COMPARED " \o ToString(ncmp)) /\ l' = l + 1 /\ ncmp' = 0 /\ UNCHANGED <<scn, pages>>
       [] OTHER -> l' = l + 1 /\ UNCHANGED <<scn, pages, ncmp>>
Spec == Init /\ [][Next]_vars
TypeOK == ncmp >= 0
Accepted == TLCGet("stats").diameter = Len(Tr) + 1
=============================================================================

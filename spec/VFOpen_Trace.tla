---------------------------- MODULE VFOpen_Trace ----------------------------
(***************************************************************************)
(* Binds VFOpen to the code.  For every seekable open of an undamaged file *)
(* whose page table was logged (event Pages: offset, length, serial, BOS   *)
(* flag, granule position, packets completed, samples its packets account *)
(* for) TLC runs the model of the link discovery on that table with the    *)
(* real constants and compares                                             *)
(*   LinkTableAsModelled   the table the library built (public fields      *)
(*                         offsets / serialnos / dataoffsets / pcmlengths) *)
(*                         with the table the model computes;              *)
(*   ProbesAsModelled      the callback seeks of the call with the seeks   *)
(*                         the model predicts, offset for offset, as a     *)
(*                         prefix (the open ends with a raw seek to the    *)
(*                         first audio page, which is not modelled).       *)
(* Both are fidelity notes (DRIFT); whether the table is RIGHT is decided  *)
(* by the Open rules of VFApi on the same event.                           *)
(***************************************************************************)
EXTENDS VFOpen, TLC, Json, IOUtils
Tr == ndJsonDeserialize(IOEnv.TRACE)
VARIABLES l, scn, pages, ncmp
vars == <<l, scn, pages, ncmp>>
K == [chunk |-> 65536, near |-> 44100, read |-> 2048, backup |-> "begin", handover |-> "refetch", clamp |-> TRUE]
Note(rules, e) == IF rules = {} THEN TRUE ELSE PrintT("DRIFT " \o ToJson([line |-> l, scn |-> Tr[scn].scn, ev |-> e.e, rules |-> rules]))
NoPages == [pg |-> <<>>, lk |-> <<>>, f |-> -1]
IsPrefix(a, b) == Len(a) <= Len(b) /\ \A i \in 1..Len(a) : a[i] = b[i]
Judge(e) ==
  LET lk == pages.lk
      PG == [j \in 1..Len(pages.pg) |->
               LET q == pages.pg[j] IN [off |-> q.o, len |-> q.n, ser |-> q.s, gp |-> q.g, bos |-> q.b = 1,
                                         hp |-> IF q.l >= 0 /\ q.o < lk[q.l + 1].doff THEN q.k ELSE 0, dur |-> q.d, ours |-> FALSE]]
      VS == { lk[i].ser : i \in 1..Len(lk) }
      r == Open(PG, VS, K)
  IN (IF r.ok /\ r.links = e.tab THEN {} ELSE {"LinkTableAsModelled"}) \cup (IF IsPrefix(<<0>> \o r.probes, e.probes) THEN {} ELSE {"ProbesAsModelled"})
Applies(e) == e.e = "Open" /\ "probes" \in DOMAIN e /\ e.mode = "seek" /\ e.init = 0 /\ e.ret = 0 /\ pages.pg # <<>> /\ pages.f = e.f
Init == l = 1 /\ scn = 1 /\ pages = NoPages /\ ncmp = 0
Next ==
  /\ l <= Len(Tr)
  /\ LET e == Tr[l] IN
     CASE e.e = "Reset" -> scn' = l /\ l' = l + 1 /\ pages' = NoPages /\ UNCHANGED ncmp
       [] e.e = "Pages" -> pages' = [pg |-> e.pg, lk |-> e.lk, f |-> e.f] /\ l' = l + 1 /\ UNCHANGED <<scn, ncmp>>
       [] Applies(e) -> Note(Judge(e), e) /\ ncmp' = ncmp + 1 /\ l' = l + 1 /\ UNCHANGED <<scn, pages>>
       [] e.e = "End" -> PrintT("COMPARED " \o ToString(ncmp)) /\ l' = l + 1 /\ ncmp' = 0 /\ UNCHANGED <<scn, pages>>
       [] OTHER -> l' = l + 1 /\ UNCHANGED <<scn, pages, ncmp>>
Spec == Init /\ [][Next]_vars
TypeOK == ncmp >= 0
Accepted == TLCGet("stats").diameter = Len(Tr) + 1
=============================================================================

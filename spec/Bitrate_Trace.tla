--------------------------- MODULE Bitrate_Trace ---------------------------
(***************************************************************************)
(* Trace validation of recorded vorbis_bitrate_addblock calls (unit driver *)
(* and real encodes) against Bitrate.  One ndjson line = one step.         *)
(* Property-level rules (C14, C05) are evaluated on the OBSERVED packet    *)
(* sizes; agreement of the observed decision with the transcription is     *)
(* reported separately as DRIFT (fidelity of the model, never an alarm).   *)
(***************************************************************************)
EXTENDS Bitrate, TLC, Json, IOUtils, FiniteSets
Tr == ndJsonDeserialize(IOEnv.TRACE)

VARIABLES l, P, on, res, dmax, dmin, dmaxR, dminR, scn, nviol, ndrift
vars == <<l, P, on, res, dmax, dmin, dmaxR, dminR, scn, nviol, ndrift>>

NoP == [K |-> 15, minb |-> 0, maxb |-> 0, avgb |-> 0, spl |-> 1, R |-> 0, fill |-> 0, rn |-> 0, mxn |-> 0, mnn |-> 0, bs0 |-> 0, bs1 |-> 0, realok |-> FALSE]

Report(kind, rules, e) ==
  IF rules = {} THEN TRUE
  ELSE PrintT(kind \o " " \o ToJson([line |-> l, scn |-> Tr[scn].scn, ev |-> e.e, rules |-> rules]))

Init == /\ l = 1 /\ P = NoP /\ on = FALSE /\ res = 0 /\ dmax = 0 /\ dmin = 0 /\ dmaxR = 0 /\ dminR = 0 /\ scn = 1 /\ nviol = 0 /\ ndrift = 0

\* real units: rate and limits divided by their common divisor g (logged by the harness); a packet of flag W lasts bs[W]/2 samples.
\* excess of a run in units of bits*rn:  sum(bits*rn - mxn*samples)
HalfBlocks(W) == IF W = 1 THEN P.spl ELSE 1
Samples(W) == (IF W = 1 THEN P.bs1 ELSE P.bs0) \div 2

AddBlockStep(e) ==
  LET obsBits == 8 * e.bytes
      dmax1 == DMax(P, e.W, dmax, e.bytes)
      dmin1 == DMin(P, e.W, dmin, e.bytes)
      dmaxR1 == IF P.realok /\ P.mxn > 0 THEN MaxI(0, dmaxR + obsBits * P.rn - P.mxn * Samples(e.W)) ELSE 0
      dminR1 == IF P.realok /\ P.mnn > 0 THEN MaxI(0, dminR + P.mnn * Samples(e.W) - obsBits * P.rn) ELSE 0
      dom == Domain(P)
      \* rounding of the per-block budget (rint): at most half a bit per half short block, i.e. the budget drifts by <= 1 bit per 2 half blocks;
      \* the drift-tolerant variants allow that on top of R (bounded per packet, so it is only meaningful for short runs: it is accumulated in dmaxR itself)
      rules ==
        (IF dom /\ ~WindowMaxOK(P, dmax1) THEN {"HardMaxWindow"} ELSE {}) \cup
        (IF dom /\ ~WindowMinOK(P, dmin1) THEN {"HardMinWindow"} ELSE {}) \cup
        (IF e.ret # 0 THEN {"AddBlockReturnsZero"} ELSE {}) \cup
        (IF e.bytes < e.sz[e.choice + 1] /\ P.maxb = 0 THEN {"TruncationOnlyUnderHardMax"} ELSE {}) \cup
        (IF e.bytes > e.sz[e.choice + 1] /\ P.minb = 0 THEN {"PaddingOnlyUnderHardMin"} ELSE {}) \cup
        (IF e.choice \notin 0..(P.K - 1) THEN {"ChoiceInRange"} ELSE {})
      rulesR ==
        (IF dom /\ P.realok /\ P.mxn > 0 /\ dmaxR1 > P.R * P.rn THEN {"HardMaxRealUnits"} ELSE {}) \cup
        (IF dom /\ P.realok /\ P.mnn > 0 /\ dminR1 > P.R * P.rn THEN {"HardMinRealUnits"} ELSE {})
      model == Outcomes(P, e.W, e.sz, e.res0)
      drift == IF dom /\ e.choice \in 0..(P.K - 1) /\ ~(\E o \in model : o.choice = e.choice /\ o.bytes = e.bytes /\ o.res = e.res)
               THEN {"DecisionDiffersFromTranscription"} ELSE {}
  IN /\ Report("VIOL", rules \cup rulesR, e)
     /\ Report("DRIFT", drift, e)
     /\ nviol' = nviol + Cardinality(rules \cup rulesR)
     /\ ndrift' = ndrift + Cardinality(drift)
     /\ res' = e.res
     \* a run that already broke the bound is reported once: restart the accumulators
     /\ dmax' = IF "HardMaxWindow" \in rules THEN 0 ELSE dmax1
     /\ dmin' = IF "HardMinWindow" \in rules THEN 0 ELSE dmin1
     /\ dmaxR' = IF "HardMaxRealUnits" \in rulesR THEN 0 ELSE dmaxR1
     /\ dminR' = IF "HardMinRealUnits" \in rulesR THEN 0 ELSE dminR1
     /\ l' = l + 1 /\ UNCHANGED <<P, on, scn>>

Ignorable == {"InfoInit","SetupVbr","SetupManaged","InitVbr","InitManaged","Ctl","SetupInit","AnalysisInit","HeaderOut","Wrote","Pkt","Flush",
              "EncDone","Skip","BlockClear","DspClear","CommentClear","InfoClear","Blockout","Note","End"}

Next ==
  /\ l <= Len(Tr)
  /\ LET e == Tr[l] IN
     CASE e.e = "Reset" ->
            /\ scn' = l /\ P' = NoP /\ on' = FALSE /\ res' = 0 /\ dmax' = 0 /\ dmin' = 0 /\ dmaxR' = 0 /\ dminR' = 0 /\ l' = l + 1 /\ UNCHANGED <<nviol, ndrift>>
       [] e.e = "BrInit" ->
            /\ P' = [K |-> e.K, minb |-> e.minb, maxb |-> e.maxb, avgb |-> e.avgb, spl |-> e.spl, R |-> e.R, fill |-> e.fill,
                     rn |-> e.rn, mxn |-> e.mxn, mnn |-> e.mnn, bs0 |-> e.bs0, bs1 |-> e.bs1, realok |-> (e.realok = 1)]
            /\ on' = (e.managed = 1) /\ res' = e.res /\ dmax' = 0 /\ dmin' = 0 /\ dmaxR' = 0 /\ dminR' = 0 /\ l' = l + 1 /\ UNCHANGED <<scn, nviol, ndrift>>
       [] e.e = "AddBlock" /\ on -> AddBlockStep(e)
       [] e.e \in {"Crash","Hang","Exit"} ->
            /\ Report("VIOL", {IF e.e = "Crash" THEN "NoCrash" ELSE IF e.e = "Hang" THEN "CallsTerminate" ELSE "LibraryNeverExits"}, e)
            /\ nviol' = nviol + 1 /\ l' = l + 1 /\ UNCHANGED <<P, on, res, dmax, dmin, dmaxR, dminR, scn, ndrift>>
       [] e.e \in Ignorable \/ (e.e = "AddBlock" /\ ~on) ->
            /\ l' = l + 1 /\ UNCHANGED <<P, on, res, dmax, dmin, dmaxR, dminR, scn, nviol, ndrift>>
       [] OTHER ->
            /\ Report("VIOL", {"UnknownEvent"}, e) /\ nviol' = nviol + 1 /\ l' = l + 1 /\ UNCHANGED <<P, on, res, dmax, dmin, dmaxR, dminR, scn, ndrift>>

Spec == Init /\ [][Next]_vars
TypeOK == dmax >= 0 /\ dmin >= 0 /\ nviol >= 0
\* the abstract reservoir of the model tracks the worst run whenever no rule was violated (ties the trace to the design-level invariant)
DominatesObserved == (on /\ nviol = 0 /\ ndrift = 0 /\ Domain(P)) => (P.maxb > 0 => dmax <= res) /\ (P.minb > 0 => dmin <= P.R - res)
Accepted == TLCGet("stats").diameter = Len(Tr) + 1
=============================================================================

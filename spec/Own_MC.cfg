SPECIFICATION Spec
CONSTANTS MaxLen = 100
 Gen = FALSE
INVARIANT Released
INVARIANT NoDoubleFree
VIEW View
CHECK_DEADLOCK FALSE

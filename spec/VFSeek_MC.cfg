SPECIFICATION Spec
CONSTANTS MaxPages = 4
 EndAt = "data"
 Lens = {1,2,4}
 Chunk = 4
 Reads = {1, 2, 8}
 BackUpRule = "begin"
 HandOver = "refetch"
 GuessRule = "clamped"
 Lies = FALSE
INVARIANT Terminates
INVARIANT SubmitsTheRightPage
CHECK_DEADLOCK FALSE

SPECIFICATION Spec
CONSTANTS MaxPages = 5
 EndAt = "data"
 Lens = {1,2,4}
 Chunk = 4
INVARIANT Terminates
INVARIANT FindsTheRightPage
INVARIANT FirstPageHandOver
CHECK_DEADLOCK FALSE

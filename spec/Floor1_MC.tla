----------------------------- MODULE Floor1_MC -----------------------------
(***************************************************************************)
(* Design-level checks of the floor-1 line arithmetic: the closed form     *)
(* LineY equals the step-by-step integer DDA of render_line, every line    *)
(* starts at its first post, stays between its end values and is monotone, *)
(* and render_point hits both end posts.                                   *)
(***************************************************************************)
EXTENDS Floor1, TLC
VARIABLES x0, x1, y0, y1
vars == <<x0, x1, y0, y1>>
Init == x0 \in 0..3 /\ x1 \in 1..14 /\ x0 < x1 /\ y0 \in {0, 1, 7, 100, 255} /\ y1 \in {0, 2, 7, 99, 255}
Next == UNCHANGED vars
Spec == Init /\ [][Next]_vars
\* the DDA exactly as the C code steps it: state (y, err) after k steps
RECURSIVE Dda(_, _, _, _, _, _, _)
Dda(k, y, err, adx, ady, base, sy) ==
  IF k = 0 THEN y
  ELSE LET e == err + ady IN IF e >= adx THEN Dda(k - 1, y + sy, e - adx, adx, ady, base, sy) ELSE Dda(k - 1, y + base, e, adx, ady, base, sy)
StepY(k) == LET dy == y1 - y0  adx == x1 - x0  base == TDiv(dy, adx)  sy == IF dy < 0 THEN base - 1 ELSE base + 1  ady == Abs(dy) - Abs(base * adx)
            IN Dda(k, y0, 0, adx, ady, base, sy)
ClosedFormIsDda == \A x \in x0..(x1 - 1) : LineY(x0, x1, y0, y1, x) = StepY(x - x0)
StartsAtFirst == LineY(x0, x1, y0, y1, x0) = y0
Between == \A x \in x0..(x1 - 1) : LET v == LineY(x0, x1, y0, y1, x) IN (IF y0 <= y1 THEN y0 <= v /\ v <= y1 ELSE y1 <= v /\ v <= y0)
Monotone == \A x \in x0..(x1 - 2) : IF y0 <= y1 THEN LineY(x0, x1, y0, y1, x) <= LineY(x0, x1, y0, y1, x + 1) ELSE LineY(x0, x1, y0, y1, x) >= LineY(x0, x1, y0, y1, x + 1)
PointHitsEnds == RenderPoint(x0, x1, y0, y1, x0) = y0 /\ (\A x \in x0..x1 : LET v == RenderPoint(x0, x1, y0, y1, x) IN IF y0 <= y1 THEN y0 <= v /\ v <= y1 ELSE y1 <= v /\ v <= y0)
=============================================================================

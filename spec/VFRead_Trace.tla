---------------------------- MODULE VFRead_Trace ----------------------------
(***************************************************************************)
(* Binds VFRead to the code.  For every seekable handle opened on an       *)
(* undamaged file whose page table was logged, TLC runs the model of the   *)
(* decode path next to the recorded calls - open, ov_read_float, ov_read,  *)
(* ov_raw_seek, ov_pcm_seek, ov_pcm_seek_page, ov_halfrate - and compares  *)
(* after every                                                             *)
(* call what the handle shows of itself: return value, pcm position,       *)
(* ready state, current link and the raw offset the next page is looked    *)
(* for at (StateAsModelled).  A call the model does not cover (time and    *)
(* faults, a refused half-rate switch) ends the comparison                 *)
(* for that handle until it is opened again.  Covered meanwhile: the time *)
(* seeks (the position the time stands for is taken from the harness, one  *)
(* off allowed), all five lapped seeks and ov_crosslap.                     *)
(* Differences are fidelity notes (DRIFT): whether the position is RIGHT   *)
(* is decided by the rules of VFApi on the same events; what this adds is  *)
(* that the exhaustive result of VFRead_MC is a result about this code.    *)
(***************************************************************************)
EXTENDS VFRead, TLC, Json, IOUtils
Tr == ndJsonDeserialize(IOEnv.TRACE)
VARIABLES l, scn, files, H, ncmp
vars == <<l, scn, files, H, ncmp>>
K == [chunk |-> 65536, near |-> 44100, read |-> 2048, backup |-> "begin", handover |-> "refetch", clamp |-> TRUE]
Note(rules, e, m) == IF rules = {} THEN TRUE
                     ELSE PrintT("DRIFT " \o ToJson([line |-> l, scn |-> Tr[scn].scn, ev |-> e.e, rules |-> rules,
                                                      model |-> [ret |-> m.ret, tell |-> m.vf.off, rs |-> m.vf.rs, cur |-> m.vf.link - 1, off |-> m.vf.pos, dr |-> m.vf.d.ret, dc |-> m.vf.d.cur, dw |-> m.vf.d.centerW]]))
\* the logged page table in the model's terms
TableOf(e) ==
  LET lk == e.lk IN
  [j \in 1..Len(e.pg) |->
     LET q == e.pg[j]
         audio == q.l >= 0 /\ q.o >= lk[q.l + 1].doff
         b1 == IF q.l >= 0 THEN lk[q.l + 1].bs1 ELSE 0
     IN [off |-> q.o, len |-> q.n, ser |-> q.s, gp |-> q.g, bos |-> q.b = 1, eos |-> q.e = 1, cont |-> q.c = 1, pn |-> q.q, tail |-> q.t = 1,
         hp |-> IF q.l >= 0 /\ q.o < lk[q.l + 1].doff THEN q.k ELSE 0,
         bs |-> IF audio THEN q.bl ELSE <<>>,
         ws |-> IF audio THEN [x \in 1..Len(q.bl) |-> IF q.bl[x] = b1 THEN 1 ELSE 0] ELSE <<>>,
         k0 |-> 0, ours |-> FALSE]]
\* damage the model can follow (as in VFOpen_Trace): an audio page or a page of a foreign stream that lies about itself, is missing or there twice
\* (not: granule positions too large for TLC's 32-bit integers - the code computes with them in 64 bits, wrap-around included)
FieldKinds == {"setgp", "setserial", "setbos", "seteos", "cleareos", "setseq", "setcont", "clearcont"}
CanFollow(ps, m) == m.a + 1 \in 1..Len(ps) /\ ps[m.a + 1].hp = 0 /\ ~ps[m.a + 1].bos /\ m.kind \in FieldKinds \cup {"drop", "dup"} /\ (m.kind = "clearcont" => ~ps[m.a + 1].cont) /\ (m.kind = "setgp" => m.b > -1900000000 /\ m.b < 1900000000)
ApplyOne(ps, m) ==
  LET k == m.a + 1  p == ps[k]
      q == CASE m.kind = "setgp" -> [p EXCEPT !.gp = m.b]
             [] m.kind = "gphuge" -> [p EXCEPT !.gp = 2000000000]
             [] m.kind = "setserial" -> [p EXCEPT !.ser = m.b]
             [] m.kind = "setbos" -> [p EXCEPT !.bos = TRUE]
             [] m.kind = "seteos" -> [p EXCEPT !.eos = TRUE]
             [] m.kind = "cleareos" -> [p EXCEPT !.eos = FALSE]
             [] m.kind = "setseq" -> [p EXCEPT !.pn = m.b]
             [] m.kind = "setcont" -> [p EXCEPT !.cont = TRUE]
             [] m.kind = "clearcont" -> [p EXCEPT !.cont = FALSE]
             [] OTHER -> p
  IN IF m.kind = "drop" THEN SubSeq(ps, 1, k - 1) \o SubSeq(ps, k + 1, Len(ps))
     ELSE IF m.kind = "dup" THEN SubSeq(ps, 1, k) \o SubSeq(ps, k, Len(ps))
     ELSE [ps EXCEPT ![k] = q]
RECURSIVE ApplyAll(_, _, _)
ApplyAll(ps, d, i) == IF i > Len(d) THEN [ok |-> TRUE, ps |-> ps] ELSE IF ~CanFollow(ps, d[i]) THEN [ok |-> FALSE, ps |-> ps] ELSE ApplyAll(ApplyOne(ps, d[i]), d, i + 1)
RECURSIVE Reoffset(_, _, _)
Reoffset(ps, k, o) == IF k > Len(ps) THEN <<>> ELSE << [ps[k] EXCEPT !.off = o] >> \o Reoffset(ps, k + 1, o + ps[k].len)
DamagedTable(e) ==
  IF "ndmg" \notin DOMAIN e \/ e.ndmg = 0 THEN [ok |-> TRUE, ps |-> TableOf(e), dmg |-> FALSE]
  ELSE IF e.ndmg > Len(e.dmg) THEN [ok |-> FALSE, ps |-> <<>>, dmg |-> TRUE]
  ELSE LET a == ApplyAll(TableOf(e), e.dmg, 1) IN [ok |-> a.ok, ps |-> IF a.ok THEN Reoffset(a.ps, 1, 0) ELSE <<>>, dmg |-> TRUE]
FileOf(e) == LET T == DamagedTable(e) IN [PG |-> T.ps, damaged |-> T.dmg, BL |-> [i \in 1..Len(e.lk) |-> <<e.lk[i].bs0, e.lk[i].bs1>>], CH |-> [i \in 1..Len(e.lk) |-> e.lk[i].ch],
              lt |-> [i \in 1..Len(e.lk) |-> [off |-> e.lk[i].beg, ser |-> e.lk[i].ser, doff |-> e.lk[i].doff, first |-> 0, len |-> e.lk[i].N]],          \* for streaming handles: which serial number has which block sizes
              ok |-> T.ok /\ Len(e.pg) < 4000]
Known(h) == h \in DOMAIN H /\ H[h].known
\* (when the reader ran into the end of the file the raw offset stops up to 26 bytes short of it, depending on the bytes: not compared)
Cl(x) == IF x > 1900000000 THEN 1900000000 ELSE x          \* (huge lying granule positions are logged clamped)
Same(m, e, F) == m.ret = e.ret /\ Cl(m.vf.off) = Cl(e.tell) /\ m.vf.rs = e.rs /\ (m.vf.rs >= STREAMSET => m.vf.link - 1 = e.cur) /\ (m.vf.pos = e.off \/ m.vf.pos = DataEnd(F.PG)) /\ m.vf.hs = e.hs
                 /\ (m.vf.rs = INITSET /\ "dr" \in DOMAIN e => m.vf.d.ret = e.dr /\ m.vf.d.cur = e.dc /\ m.vf.d.centerW = e.dw)          \* the decoder's own bookkeeping
Judge(m, e, F) == IF Same(m, e, F) THEN {} ELSE {"StateAsModelled"}
Unknown == [known |-> FALSE]
\* ov_read: the frames a buffer of len bytes holds in the link the decoder is in when the samples are there
ReadInt(F, LT, vf, e) ==
  LET r == Read(F.PG, LT, F.BL, vf, 1000000)
      chof(v) == F.CH[IF v.sk THEN v.link ELSE v.bl] IN          \* (the fetch part; how many samples are taken is decided below)
  IF r.ret <= 0 THEN r
  ELSE LET frames == e.len \div (e.word * chof(r.vf))
           m == IF r.ret > frames THEN frames ELSE r.ret IN
       IF m <= 0 THEN [ret |-> OV_EINVAL, vf |-> [r.vf EXCEPT !.d = [@ EXCEPT !.ret = r.dl.j + r.vf.d.centerW], !.off = r.dl.t0], dl |-> NoDelivery]
       ELSE [ret |-> m * e.word * chof(r.vf), vf |-> [r.vf EXCEPT !.d = [@ EXCEPT !.ret = r.dl.j + r.vf.d.centerW + m], !.off = r.dl.t0 + BK!ShlI(m, r.vf.hs)], dl |-> r.dl]
Init == l = 1 /\ scn = 1 /\ files = <<>> /\ H = <<>> /\ ncmp = 0
Handled == {"ReadF", "ReadI", "RawSeek", "PcmSeek", "PcmSeekPage", "HalfRate", "PcmSeekLap", "PcmSeekPageLap", "RawSeekLap", "TimeSeek", "TimeSeekPage", "TimeSeekLap", "TimeSeekPageLap"}
Seeks == Handled \ {"ReadF", "ReadI"}
\* a time is turned into a sample position in double arithmetic: the model is told the position the harness expects and may be one off either way
Timed(F, s, e) ==
  LET op(t) == CASE e.e = "TimeSeek" -> PcmSeek(F.PG, s.LT, F.BL, s.vf, t, K)
                 [] e.e = "TimeSeekPage" -> PcmSeekPage(F.PG, s.LT, F.BL, s.vf, t, K)
                 [] e.e = "TimeSeekLap" -> LapSeek(F.PG, s.LT, F.BL, s.vf, "pcm", t, K)
                 [] OTHER -> LapSeek(F.PG, s.LT, F.BL, s.vf, "page", t, K)
      cands == { t \in {e.expect - 1, e.expect, e.expect + 1} : t >= 0 /\ Same(op(t), e, F) }
  IN IF ~e.inrange THEN (IF e.e \in {"TimeSeek", "TimeSeekPage"} THEN [ret |-> OV_EINVAL, vf |-> s.vf] ELSE LapSeek(F.PG, s.LT, F.BL, s.vf, "einval", 0, K))
     ELSE IF cands # {} THEN op(CHOOSE t \in cands : TRUE) ELSE op(e.expect)
Step(e) ==
  IF e.e = "Open" /\ e.mode = "seek" /\ e.init = 0 /\ e.ret = 0 /\ "tab" \in DOMAIN e /\ e.f \in DOMAIN files /\ files[e.f].ok /\ e.hs = 0
  THEN LET F == files[e.f]  m == Opened(F.PG, e.tab, F.BL) IN
       /\ Note(Judge(m, e, F), e, m)
       /\ H' = (e.h :> [known |-> Same(m, e, F), vf |-> m.vf, f |-> e.f, LT |-> e.tab]) @@ H /\ ncmp' = ncmp + 1
  ELSE IF e.e = "Open" /\ e.mode = "stream" /\ e.init = 0 /\ e.ret = 0 /\ e.f \in DOMAIN files /\ files[e.f].ok /\ e.hs = 0
  THEN LET F == files[e.f]  m == OpenedStreaming(F.PG, F.lt, F.BL) IN
       /\ Note(Judge(m, e, F), e, m)
       /\ H' = (e.h :> [known |-> Same(m, e, F), vf |-> m.vf, f |-> e.f, LT |-> F.lt]) @@ H /\ ncmp' = ncmp + 1
  ELSE IF "h" \in DOMAIN e /\ Known(e.h) /\ e.e \in Handled /\ (e.e \in Seeks => H[e.h].vf.sk) /\ (e.e = "HalfRate" => e.ret = 0)
  THEN LET s == H[e.h]  F == files[s.f]
           m == CASE e.e = "ReadF" -> Read(F.PG, s.LT, F.BL, s.vf, e.len)
                  [] e.e = "ReadI" -> ReadInt(F, s.LT, s.vf, e)
                  [] e.e = "RawSeek" -> RawSeek(F.PG, s.LT, F.BL, s.vf, e.pos)
                  [] e.e = "PcmSeek" -> PcmSeek(F.PG, s.LT, F.BL, s.vf, e.pos, K)
                  [] e.e = "HalfRate" -> HalfRate(F.PG, s.LT, F.BL, s.vf, e.flag, K)
                  [] e.e = "PcmSeekLap" -> LapSeek(F.PG, s.LT, F.BL, s.vf, "pcm", e.pos, K)
                  [] e.e = "PcmSeekPageLap" -> LapSeek(F.PG, s.LT, F.BL, s.vf, "page", e.pos, K)
                  [] e.e = "RawSeekLap" -> LapSeek(F.PG, s.LT, F.BL, s.vf, "raw", e.pos, K)
                  [] e.e \in {"TimeSeek", "TimeSeekPage", "TimeSeekLap", "TimeSeekPageLap"} -> Timed(F, s, e)
                  [] OTHER -> PcmSeekPage(F.PG, s.LT, F.BL, s.vf, e.pos, K)
           \* where the raw offset stands after a seek that FAILED half way (the page-wise search backwards, the rewind) is not modelled: it is taken from the log
           m1 == IF e.e \in Seeks /\ m.ret < 0 /\ e.ret = m.ret THEN [m EXCEPT !.vf.pos = e.off] ELSE m
       IN /\ Note(Judge(m1, e, F), e, m1)
          /\ H' = [H EXCEPT ![e.h] = [@ EXCEPT !.known = Same(m1, e, F), !.vf = m1.vf]] /\ ncmp' = ncmp + 1
  ELSE IF e.e = "Crosslap" /\ e.h1 # e.h2 /\ Known(e.h1) /\ Known(e.h2) /\ H[e.h1].vf.sk /\ H[e.h2].vf.sk
  THEN LET s1 == H[e.h1]  s2 == H[e.h2]  F1 == files[s1.f]  F2 == files[s2.f]
           x == Crosslap(F1.PG, s1.LT, F1.BL, s1.vf, F2.PG, s2.LT, F2.BL, s2.vf)
           m2 == [ret |-> x.ret, vf |-> x.vf2]
           ok1 == x.vf1.off = e.t11 /\ x.vf1.rs = e.rs1
       IN /\ Note(Judge(m2, e, F2) \cup (IF ok1 THEN {} ELSE {"StateAsModelled"}), e, m2)
          /\ H' = [H EXCEPT ![e.h1] = [@ EXCEPT !.known = ok1, !.vf = x.vf1], ![e.h2] = [@ EXCEPT !.known = Same(m2, e, F2), !.vf = x.vf2]] /\ ncmp' = ncmp + 1
  ELSE IF e.e = "Crosslap" THEN H' = [h \in DOMAIN H |-> IF h \in {e.h1, e.h2} THEN Unknown ELSE H[h]] /\ UNCHANGED ncmp
  ELSE IF "h" \in DOMAIN e /\ e.h \in DOMAIN H /\ e.e \notin {"Tell", "Query", "Info"} THEN H' = [H EXCEPT ![e.h] = Unknown] /\ UNCHANGED ncmp
  ELSE UNCHANGED <<H, ncmp>>
Next ==
  /\ l <= Len(Tr)
  /\ LET e == Tr[l] IN
     CASE e.e = "Reset" -> scn' = l /\ l' = l + 1 /\ files' = <<>> /\ H' = <<>> /\ UNCHANGED ncmp
       [] e.e = "Pages" -> files' = (e.f :> FileOf(e)) @@ files /\ l' = l + 1 /\ UNCHANGED <<scn, H, ncmp>>
       [] e.e = "End" -> PrintT("COMPARED " \o ToString(ncmp)) /\ l' = l + 1 /\ ncmp' = 0 /\ UNCHANGED <<scn, files, H>>
       [] OTHER -> Step(e) /\ l' = l + 1 /\ UNCHANGED <<scn, files>>
Spec == Init /\ [][Next]_vars
TypeOK == ncmp >= 0
Accepted == TLCGet("stats").diameter = Len(Tr) + 1
=============================================================================

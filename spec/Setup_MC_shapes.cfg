SPECIFICATION Spec
CONSTANTS Family = "shapes"
INVARIANT FamiliesOK
INVARIANT ReaderInvertsWriter
INVARIANT Export
CHECK_DEADLOCK FALSE

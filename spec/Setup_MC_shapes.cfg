SPECIFICATION Spec
CONSTANTS Family = "shapes"
INVARIANT FamiliesOK
INVARIANT Export
CHECK_DEADLOCK FALSE

SPECIFICATION Spec
CONSTANTS BS0 = 8
 BS1 = 8
 MaxN = 70
 MaxPiece = 33
 Gen = FALSE
 HS = 0
INVARIANT Flags
INVARIANT Granules
INVARIANT OneEos
INVARIANT Last
INVARIANT RoundTrip
INVARIANT NeverOver
INVARIANT Progress
INVARIANT BufOK
CHECK_DEADLOCK FALSE

------------------------------ MODULE VFApi_MC ------------------------------
(***************************************************************************)
(* Design-level model of the vorbisfile API contract (VFApi) over a small  *)
(* abstract chained file, driven by every caller history up to MaxLen.     *)
(*                                                                         *)
(*  - the "ideal implementation" below answers every call; TLC checks that *)
(*    each answer satisfies every VFApi rule (the rules are jointly        *)
(*    satisfiable in every reachable state: RulesSatisfiable), that the    *)
(*    abstract position stays inside the file (PosInFile) and that a       *)
(*    perturbed answer is always caught (Sensitive);                       *)
(*  - the caller side of each behaviour (`hist`) is printed as JSON and    *)
(*    replayed against the real library (spec -> code direction).          *)
(***************************************************************************)
EXTENDS VFApi, Json
CONSTANTS MaxLen, Mode, Gen      \* Mode = "seek" or "stream"; Gen = TRUE thins the argument space for behaviour generation
VARIABLES s, hist, bad      \* bad = set of rule names the ideal answer violated (must stay {})
vars == <<s, hist, bad>>

F == [nl |-> 3, total |-> 14, damaged |-> FALSE, len |-> 100,
      links |-> << [id |-> 0, serial |-> 11, ch |-> 2, rate |-> 4, bs0 |-> 2, bs1 |-> 4, N |-> 8, Nh |-> 4, start |-> 0,  hrok |-> TRUE],
                   [id |-> 1, serial |-> 12, ch |-> 1, rate |-> 2, bs0 |-> 4, bs1 |-> 4, N |-> 0, Nh |-> 0, start |-> 8,  hrok |-> TRUE],
                   [id |-> 2, serial |-> 13, ch |-> 1, rate |-> 2, bs0 |-> 4, bs1 |-> 4, N |-> 6, Nh |-> 3, start |-> 8,  hrok |-> TRUE] >>,
      pb |-> << <<4, 6, 8>>, <<8>>, <<10, 14>> >>]

Wheres == {"start","page1","page2","pageN","mid","pk","end","oor","neg"}
Deltas == {-1, 0, 1}
\* abstract position denoted by a symbolic target
Pos(l, w, d) ==
  LET L == F.links[l]  pbs == F.pb[l] IN
  CASE w = "start" -> L.start + d
    [] w = "page1" -> pbs[1] + d
    [] w = "page2" -> pbs[IF Len(pbs) >= 2 THEN 2 ELSE Len(pbs)] + d
    [] w = "pageN" -> pbs[Len(pbs)] + d
    [] w = "mid"   -> L.start + L.N \div 2 + d
    [] w = "pk"    -> L.start + (IF L.N > 3 THEN 3 ELSE L.N) + d
    [] w = "end"   -> F.total + (IF d > 0 THEN 0 ELSE d)
    [] w = "oor"   -> F.total + 7
    [] OTHER       -> -1

Boundaries == UNION { Rng(F.pb[i]) \cup {F.links[i].start} : i \in 1..F.nl }

Init == s = InitHandle /\ hist = <<>> /\ bad = {}

Record(op) == hist' = Append(hist, op)

Open ==
  /\ ~s.open /\ hist = <<>>
  /\ LET e == [e |-> "Open", f |-> 0, mode |-> Mode, ret |-> 0, z |-> FALSE, cl |-> 0, tell |-> 0, sk |-> IF Mode = "seek" THEN 1 ELSE 0,
               streams |-> IF Mode = "seek" THEN F.nl ELSE 1, seekable |-> IF Mode = "seek" THEN 1 ELSE 0, ptot |-> F.total,
               lt |-> [i \in 1..F.nl |-> [serial |-> F.links[i].serial, ch |-> F.links[i].ch, rate |-> F.links[i].rate, cid |-> F.links[i].id, N |-> F.links[i].N]]]
     IN /\ bad' = bad \cup ChkOpen(s, F, e) /\ s' = NxtOpen(s, F, e)
  /\ Record(<<"open", Mode>>)

\* ideal read: any count 1..len that stays inside the current link
Read(li) ==
  /\ s.open
  /\ LET len == <<1, 64, 4096, 100000>>[li + 1] IN
     IF s.pos >= F.total
     THEN LET e == [e |-> "ReadF", len |-> len, ret |-> 0, cl |-> s.closes, tell |-> s.pos, tella |-> s.pos] IN
          /\ bad' = bad \cup ChkReadF(s, F, e) /\ s' = NxtRead(s, F, e, 0)
     ELSE LET lk == LinkOf(F, s.pos)
              room == Shr(F.links[lk].start + F.links[lk].N - s.pos + s.hs, s.hs)   \* ceil in half-rate
          IN \E n \in 1..(IF len < room THEN len ELSE room) :
               LET t1 == s.pos + Shl(n, s.hs)
                   e == [e |-> "ReadF", len |-> len, ret |-> n, cl |-> s.closes, ta |-> s.pos, id |-> s.pos, mf |-> 0,
                         bs |-> lk - 1, ch |-> F.links[lk].ch, tell |-> t1, tella |-> t1,
                         lbk |-> IF s.lap > n THEN n ELSE s.lap, lbbad |-> 0]     \* the ideal implementation cross-fades as specified
               IN /\ bad' = bad \cup (ChkReadF(s, F, e) \ {"ReadWithinOneLink"}) /\ s' = NxtRead(s, F, e, n)
  /\ Record(<<"rf", li>>)

SeekOps == {"ps","psp","rs","ts","tsp","psl","pspl","rsl","tsl","tspl"}
KindOf(op) == CASE op = "ps" -> "PcmSeek" [] op = "psp" -> "PcmSeekPage" [] op = "rs" -> "RawSeek" [] op = "ts" -> "TimeSeek" [] op = "tsp" -> "TimeSeekPage"
                [] op = "psl" -> "PcmSeekLap" [] op = "pspl" -> "PcmSeekPageLap" [] op = "rsl" -> "RawSeekLap" [] op = "tsl" -> "TimeSeekLap" [] OTHER -> "TimeSeekPageLap"

Seek(op, l, w, d) ==
  /\ s.open /\ Mode = "seek"
  /\ LET k == KindOf(op)
         p == Pos(l, w, d)
         inr == IF Plain(k) = "RawSeek" THEN 0 <= p /\ p <= F.len ELSE 0 <= p /\ p <= F.total /\ (IsTime(k) => p < F.total)
         lands == IF Plain(k) \in {"PcmSeek","TimeSeek"} THEN {Even(p, s.hs)}
                  ELSE IF Plain(k) = "RawSeek" THEN { b \in Boundaries : TRUE }
                  ELSE { b \in Boundaries : B(F,p) <= b /\ b <= p }
     IN IF inr
        THEN \E t \in lands :
               LET c0 == (IF s.pos >= 0 THEN LinkOf(F, s.pos) ELSE 1) - 1
                   e0 == [e |-> k, pos |-> p, expect |-> p, inrange |-> TRUE, neg |-> FALSE, ret |-> 0, tell |-> t, t0 |-> s.pos, cl |-> s.closes,
                          rs |-> 4, rs0 |-> 4, cur |-> LinkOf(F, t) - 1, cur0 |-> c0]
                   \* what a harness that follows the property would log beside a lapping call: its expectation is formed from the old position
                   \* and link, the new position and link and the region length; the ideal decoder has a whole short block pending
                   e == IF IsLap(k) THEN e0 @@ [lbn |-> LapLen(s, F, e0), lbfrom |-> s.pos, lblo |-> c0, lbat |-> t, lbln |-> LinkOf(F, t) - 1, dc |-> 4, dr |-> 0]
                        ELSE e0
               IN /\ bad' = bad \cup ChkSeek(s, F, k, e, F.len) /\ s' = NxtSeek(s, F, k, e, F.len)
        ELSE LET e == [e |-> k, pos |-> p, expect |-> p, inrange |-> FALSE, neg |-> (p < 0), ret |-> OV_EINVAL, tell |-> s.pos, t0 |-> s.pos, cl |-> s.closes,
                       rs |-> 4, rs0 |-> 4, cur |-> 0, cur0 |-> 0]
             IN /\ bad' = bad \cup ChkSeek(s, F, k, e, F.len) /\ s' = NxtSeek(s, F, k, e, F.len)
  /\ Record(<<op, l, w, d>>)

HalfRate(flag) ==
  /\ s.open /\ (Mode = "seek" \/ Len(hist) = 1)
  /\ LET t == IF flag = 1 THEN Even(s.pos, 1) ELSE s.pos
         e == [e |-> "HalfRate", flag |-> flag, ret |-> 0, hs |-> flag, tell |-> t, cl |-> s.closes, rs0 |-> 3]
     IN /\ bad' = bad \cup ChkHalfRate(s, F, e) /\ s' = NxtHalfRate(s, F, e)
  /\ Record(<<"hr", flag>>)

Tell ==
  /\ s.open
  /\ bad' = bad \cup ChkTell(s, F, [e |-> "Tell", pt |-> s.pos, cl |-> s.closes]) /\ UNCHANGED s
  /\ Record(<<"tell">>)

Clear ==
  /\ s.open
  /\ LET e == [e |-> "Clear", ret |-> 0, z |-> TRUE, cl |-> s.closes + 1] IN
     /\ bad' = bad \cup ChkClear(s, e) /\ s' = NxtClear(s, e)
  /\ Record(<<"clear">>)

Next ==
  /\ Len(hist) < MaxLen
  /\ \/ Open
     \/ \E li \in 0..3 : Read(li)
     \/ \E op \in SeekOps, l \in 1..F.nl, w \in Wheres, d \in Deltas :
           /\ Gen => (d = (Len(hist) % 3) - 1 /\ l = 1 + ((Len(hist) \div 3) % F.nl))
           /\ Seek(op, l, w, d)
     \/ \E fl \in {0,1} : HalfRate(fl)
     \/ Tell
     \/ Clear

Spec == Init /\ [][Next]_vars

RulesSatisfiable == bad = {}
PosInFile == s.open /\ s.pos >= 0 => s.pos <= F.total
LapBounded == s.lap <= 2
\* a perturbed answer is caught: a read claiming the wrong identity or a wrong advance violates a rule in every open state before EOF
Sensitive == s.open /\ s.pos >= 0 /\ s.pos < F.total /\ s.lap = 0 =>
   LET lk == LinkOf(F, s.pos)
       good == [e |-> "ReadF", len |-> 1, ret |-> 1, cl |-> s.closes, ta |-> s.pos, id |-> s.pos, mf |-> 0, bs |-> lk - 1, ch |-> F.links[lk].ch,
                tell |-> s.pos + Shl(1, s.hs), tella |-> s.pos + Shl(1, s.hs)]
   IN /\ ChkReadF(s, F, good) = {}
      /\ ChkReadF(s, F, [good EXCEPT !.id = s.pos + 1, !.mf = 1]) # {}
      /\ ChkReadF(s, F, [good EXCEPT !.tella = s.pos + 3]) # {}
      /\ ChkReadF(s, F, [good EXCEPT !.ta = s.pos + 1]) # {}
      /\ ChkReadF(s, F, [good EXCEPT !.bs = lk]) # {}

\* a lapped region that is held to the cross-fade formula: a read that reports one sample off, or that compared fewer samples than
\* lie in the region, is caught; the same read without a decided region is not judged
BlendSensitive == s.open /\ s.pos >= 0 /\ s.pos < F.total /\ s.lap > 0 /\ ~Loose(s,F) =>
   LET lk == LinkOf(F, s.pos)
       good == [e |-> "ReadF", len |-> 1, ret |-> 1, cl |-> s.closes, ta |-> s.pos, id |-> s.pos, mf |-> 0, bs |-> lk - 1, ch |-> F.links[lk].ch,
                tell |-> s.pos + Shl(1, s.hs), tella |-> s.pos + Shl(1, s.hs), lbk |-> 1, lbbad |-> 0]
   IN /\ "LapBlendAsSpecified" \notin ChkReadF(s, F, good)
      /\ (s.bl <=> "LapBlendAsSpecified" \in ChkReadF(s, F, [good EXCEPT !.lbbad = 1]))
      /\ (s.bl <=> "LapBlendAsSpecified" \in ChkReadF(s, F, [good EXCEPT !.lbk = 0]))
\* non-vacuity (expected to be VIOLATED, VFApi_MC_blendwit.cfg): some history reaches a decided region
NoDecidedRegion == ~(s.open /\ s.lap > 0 /\ s.bl)

\* behaviour export: print the caller side of every behaviour that reached MaxLen (or cleared)
Export == (Len(hist) = MaxLen \/ (Len(hist) > 2 /\ ~s.open)) => PrintT("HIST " \o ToJson(hist))
ViewAbs == <<s, bad>>
=============================================================================

SPECIFICATION Spec
INVARIANT TypeOK
POSTCONDITION Accepted
CHECK_DEADLOCK FALSE

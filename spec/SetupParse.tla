----------------------------- MODULE SetupParse -----------------------------
(***************************************************************************)
(* A strict reader of the identification and setup headers of Vorbis I     *)
(* (specification 4.2.2, 4.2.4, 3.2.1, 6.2.1, 7.2.2, 8.6.1), the inverse   *)
(* of the writer in Setup.tla: bytes -> the set-up record that SetupOK     *)
(* judges.  Bits are taken least significant first within each byte; a     *)
(* read beyond the end of the packet makes the header invalid.             *)
(* Every reader returns [ok, v, pos]: pos is the 0-based bit position      *)
(* behind what was read.                                                   *)
(* Lists whose element positions are fixed are built by index; the only    *)
(* list with data-dependent positions and thousands of elements (the       *)
(* length list of a sparse codebook) is folded iteratively.                *)
(***************************************************************************)
EXTENDS Setup, Functions, SequencesExt, TLC

BitsOf(bytes) == [i \in 1..(8 * Len(bytes)) |-> (bytes[((i - 1) \div 8) + 1] \div Pow2((i - 1) % 8)) % 2]
Bit(b, i) == IF i + 1 <= Len(b) THEN b[i + 1] ELSE 0                                   \* 0-based; zeros behind the end (the end is checked once, at the end)
RECURSIVE RB(_, _, _)
RB(b, pos, n) == IF n <= 0 THEN 0 ELSE Bit(b, pos) + 2 * RB(b, pos + 1, n - 1)          \* n <= 24
\* a 32-bit field as the signed integer with the same bit pattern
RB32(b, pos) == LET lo == RB(b, pos, 16)  hi == RB(b, pos + 16, 16) IN IF hi >= 32768 THEN (hi - 65536) * 65536 + lo ELSE hi * 65536 + lo
Fail(pos) == [ok |-> FALSE, v |-> <<>>, pos |-> pos]
MaxOf(q) == IF q = <<>> THEN -1 ELSE CHOOSE m \in { q[i] : i \in 1..Len(q) } : \A i \in 1..Len(q) : q[i] <= m

(* ------------------------------ codebooks ------------------------------ *)
\* sparse length list: per entry a flag, and five bits if it is set.  Positions depend on the flags before, and books have thousands of entries:
\* folded left to right (SequencesExt!FoldLeft is evaluated iteratively), not by recursion
SparseAll(b, pos, n) == FoldLeft(LAMBDA acc, i : LET used == Bit(b, acc.pos) = 1 IN
                                                 [pos |-> acc.pos + (IF used THEN 6 ELSE 1), lens |-> Append(acc.lens, IF used THEN RB(b, acc.pos + 1, 5) + 1 ELSE 0)],
                                 [pos |-> pos, lens |-> <<>>], [i \in 1..n |-> i])
\* ordered length list: runs of equal length, the lengths ascending by one; runs = sequence of [from, cnt, len]
RECURSIVE OrderedRead(_, _, _, _, _)
OrderedRead(b, pos, i, n, len) ==                                                          \* i = entries assigned so far
  IF i >= n THEN [ok |-> i = n, pos |-> pos, runs |-> <<>>]
  ELSE IF len > 32 THEN [ok |-> FALSE, pos |-> pos, runs |-> <<>>]
  ELSE LET w == ILog(n - i)  num == RB(b, pos, w) IN
       IF num > n - i THEN [ok |-> FALSE, pos |-> pos, runs |-> <<>>]
       ELSE LET r == OrderedRead(b, pos + w, i + num, n, len + 1) IN [ok |-> r.ok, pos |-> r.pos, runs |-> << [from |-> i + 1, cnt |-> num, len |-> len] >> \o r.runs]
LensOfRuns(runs, n) == [j \in 1..n |-> LET k == CHOOSE k \in 1..Len(runs) : runs[k].from <= j /\ j < runs[k].from + runs[k].cnt IN runs[k].len]

ReadBook(b, pos) ==
  IF RB(b, pos, 24) # 5653314 THEN Fail(pos)
  ELSE IF RB(b, pos + 40, 24) > 70000 THEN Fail(pos)              \* (a bound of this reader, not of the format: books beyond it are not judged valid)
  ELSE LET dim == RB(b, pos + 24, 16)  entries == RB(b, pos + 40, 24)  ordered == Bit(b, pos + 64)  p0 == pos + 65
           L == IF ordered = 1
                THEN LET o == OrderedRead(b, p0 + 5, 0, entries, RB(b, p0, 5) + 1) IN
                     [ok |-> o.ok /\ entries >= 1, pos |-> o.pos, sparse |-> 0, lens |-> IF o.ok /\ entries >= 1 THEN LensOfRuns(o.runs, entries) ELSE <<>>]
                ELSE IF Bit(b, p0) = 1
                     THEN LET sp == SparseAll(b, p0 + 1, entries) IN [ok |-> TRUE, pos |-> sp.pos, sparse |-> 1, lens |-> sp.lens]
                     ELSE [ok |-> TRUE, pos |-> p0 + 1 + 5 * entries, sparse |-> 0, lens |-> [i \in 1..entries |-> RB(b, p0 + 1 + 5 * (i - 1), 5) + 1]]
       IN IF ~L.ok THEN Fail(L.pos)
          ELSE LET mt == RB(b, L.pos, 4)  p1 == L.pos + 4 IN
               IF mt = 0 THEN [ok |-> TRUE, pos |-> p1,
                               v |-> [dim |-> dim, entries |-> entries, ordered |-> ordered, sparse |-> L.sparse, lens |-> L.lens, maptype |-> 0, qmin |-> 0, qdelta |-> 0, qbits |-> 1, qseq |-> 0, quant |-> <<>>]]
               ELSE IF mt > 2 THEN Fail(p1)
               ELSE LET qbits == RB(b, p1 + 64, 4) + 1  qseq == Bit(b, p1 + 68)  p2 == p1 + 69
                        nv == IF mt = 1 THEN QuantVals1(entries, dim) ELSE IF dim > 0 /\ entries > 100000 \div dim THEN -1 ELSE entries * dim IN
                    IF nv < 0 THEN Fail(p2)
                    ELSE [ok |-> TRUE, pos |-> p2 + qbits * nv,
                          v |-> [dim |-> dim, entries |-> entries, ordered |-> ordered, sparse |-> L.sparse, lens |-> L.lens, maptype |-> mt, qmin |-> RB32(b, p1), qdelta |-> RB32(b, p1 + 32),
                                 qbits |-> qbits, qseq |-> qseq, quant |-> [i \in 1..nv |-> RB(b, p2 + qbits * (i - 1), qbits)]]]

(* ------------------------------- floors -------------------------------- *)
RECURSIVE ReadClasses(_, _, _, _)
ReadClasses(b, pos, c, n) ==                                                               \* classes c..n (1-based): [pos, cdim, csubs, cbook, csub]
  IF c > n THEN [pos |-> pos, cdim |-> <<>>, csubs |-> <<>>, cbook |-> <<>>, csub |-> <<>>]
  ELSE LET d == RB(b, pos, 3) + 1  sb == RB(b, pos + 3, 2)  p1 == pos + 5
           mb == IF sb > 0 THEN RB(b, p1, 8) ELSE 0  p2 == IF sb > 0 THEN p1 + 8 ELSE p1
           subs == [k \in 1..Pow2(sb) |-> RB(b, p2 + 8 * (k - 1), 8) - 1]
           r == ReadClasses(b, p2 + 8 * Pow2(sb), c + 1, n)
       IN [pos |-> r.pos, cdim |-> <<d>> \o r.cdim, csubs |-> <<sb>> \o r.csubs, cbook |-> <<mb>> \o r.cbook, csub |-> <<subs>> \o r.csub]
ReadFloor(b, pos) ==
  LET type == RB(b, pos, 16)  p0 == pos + 16 IN
  IF type = 0
  THEN LET nb == RB(b, p0 + 54, 4) + 1 IN
       [ok |-> TRUE, pos |-> p0 + 58 + 8 * nb,
        v |-> [type |-> 0, order |-> RB(b, p0, 8), frate |-> RB(b, p0 + 8, 16), bark |-> RB(b, p0 + 24, 16), ampbits |-> RB(b, p0 + 40, 6), ampdb |-> RB(b, p0 + 46, 8),
               fbooks |-> [i \in 1..nb |-> RB(b, p0 + 58 + 8 * (i - 1), 8)]]]
  ELSE IF type = 1
  THEN LET np == RB(b, p0, 5)
           parts == [i \in 1..np |-> RB(b, p0 + 5 + 4 * (i - 1), 4)]
           cl == ReadClasses(b, p0 + 5 + 4 * np, 1, MaxOf(parts) + 1)
           mult == RB(b, cl.pos, 2) + 1  rb == RB(b, cl.pos + 2, 4)  p1 == cl.pos + 6
           nposts == FoldFunction(LAMBDA x, y : x + y, 0, [i \in 1..np |-> cl.cdim[parts[i] + 1]])
       IN [ok |-> TRUE, pos |-> p1 + rb * nposts,
           v |-> [type |-> 1, parts |-> parts, cdim |-> cl.cdim, csubs |-> cl.csubs, cbook |-> cl.cbook, csub |-> cl.csub, mult |-> mult, rb |-> rb, posts |-> [i \in 1..nposts |-> RB(b, p1 + rb * (i - 1), rb)]]]
  ELSE [ok |-> TRUE, pos |-> p0, v |-> [type |-> type]]                                     \* an unknown floor type: SetupOK refuses it

(* ------------------------------ residues ------------------------------- *)
RECURSIVE ReadCascade(_, _, _, _)
ReadCascade(b, pos, c, n) == IF c > n THEN [pos |-> pos, cascade |-> <<>>]
                             ELSE LET low == RB(b, pos, 3)  flag == Bit(b, pos + 3)  high == IF flag = 1 THEN RB(b, pos + 4, 5) ELSE 0
                                      r == ReadCascade(b, pos + (IF flag = 1 THEN 9 ELSE 4), c + 1, n) IN [pos |-> r.pos, cascade |-> <<high * 8 + low>> \o r.cascade]
ReadResidue(b, pos) ==
  LET type == RB(b, pos, 16)  begin == RB(b, pos + 16, 24)  end == RB(b, pos + 40, 24)  psize == RB(b, pos + 64, 24) + 1  nclass == RB(b, pos + 88, 6) + 1  gbook == RB(b, pos + 94, 8)
      cs == ReadCascade(b, pos + 102, 1, nclass)
      nbooks == FoldFunction(LAMBDA x, y : x + y, 0, [j \in 1..nclass |-> BitCount(cs.cascade[j])])
  IN [ok |-> TRUE, pos |-> cs.pos + 8 * nbooks,
      v |-> [type |-> type, begin |-> begin, end |-> end, psize |-> psize, nclass |-> nclass, gbook |-> gbook, cascade |-> cs.cascade, rbooks |-> [j \in 1..nbooks |-> RB(b, cs.pos + 8 * (j - 1), 8)]]]

(* ------------------------------ mappings ------------------------------- *)
ReadMap(b, pos, ch) ==
  IF RB(b, pos, 16) # 0 THEN Fail(pos)
  ELSE LET p0 == pos + 16
           submaps == IF Bit(b, p0) = 1 THEN RB(b, p0 + 1, 4) + 1 ELSE 1  p1 == p0 + (IF Bit(b, p0) = 1 THEN 5 ELSE 1)
           steps == IF Bit(b, p1) = 1 THEN RB(b, p1 + 1, 8) + 1 ELSE 0     p2 == p1 + (IF Bit(b, p1) = 1 THEN 9 ELSE 1)
           w == ILog(ch - 1)
           coupling == [i \in 1..steps |-> << RB(b, p2 + 2 * w * (i - 1), w), RB(b, p2 + 2 * w * (i - 1) + w, w) >>]
           p3 == p2 + 2 * w * steps
       IN IF RB(b, p3, 2) # 0 THEN Fail(p3)
          ELSE LET p4 == p3 + 2
                   mux == IF submaps > 1 THEN [i \in 1..ch |-> RB(b, p4 + 4 * (i - 1), 4)] ELSE <<>>
                   p5 == p4 + (IF submaps > 1 THEN 4 * ch ELSE 0)
               IN [ok |-> TRUE, pos |-> p5 + 24 * submaps,
                   v |-> [submaps |-> submaps, coupling |-> coupling, mux |-> mux, sfloor |-> [i \in 1..submaps |-> RB(b, p5 + 24 * (i - 1) + 8, 8)], sres |-> [i \in 1..submaps |-> RB(b, p5 + 24 * (i - 1) + 16, 8)]]]

(* ------------------------------- lists --------------------------------- *)
\* kind: 1 books, 2 floors, 3 residues, 4 mappings
ReadOne(b, pos, kind, ch) == CASE kind = 1 -> ReadBook(b, pos) [] kind = 2 -> ReadFloor(b, pos) [] kind = 3 -> ReadResidue(b, pos) [] OTHER -> ReadMap(b, pos, ch)
RECURSIVE ReadList(_, _, _, _, _)
ReadList(b, pos, kind, n, ch) == IF n = 0 THEN [ok |-> TRUE, pos |-> pos, v |-> <<>>]
                                 ELSE LET x == ReadOne(b, pos, kind, ch) IN
                                      IF ~x.ok THEN Fail(x.pos)
                                      ELSE LET r == ReadList(b, x.pos, kind, n - 1, ch) IN IF ~r.ok THEN Fail(r.pos) ELSE [ok |-> TRUE, pos |-> r.pos, v |-> <<x.v>> \o r.v]

(* ---------------------------- the two headers --------------------------- *)
IsVorbis(bytes, type) == Len(bytes) >= 7 /\ bytes[1] = type /\ SubSeq(bytes, 2, 7) = Vorbis
ReadId(bytes) ==
  IF ~IsVorbis(bytes, 1) \/ Len(bytes) # 30 THEN [ok |-> FALSE]
  ELSE LET b == TLCEval(BitsOf(bytes)) IN
       [ok |-> RB32(b, 56) = 0 /\ Bit(b, 232) = 1, ch |-> RB(b, 88, 8), rate |-> RB32(b, 96), brmax |-> RB32(b, 128), brnom |-> RB32(b, 160), brmin |-> RB32(b, 192), e0 |-> RB(b, 224, 4), e1 |-> RB(b, 228, 4)]
ReadSetup(bytes, id) ==
  IF ~IsVorbis(bytes, 5) THEN [ok |-> FALSE]
  ELSE LET b == TLCEval(BitsOf(bytes))               \* (TLCEval: evaluated once; a LET value that is used inside folds would otherwise be derived again at every use)
           bk == ReadList(b, 64, 1, RB(b, 56, 8) + 1, id.ch) IN
       IF ~bk.ok THEN [ok |-> FALSE]
       ELSE LET nt == RB(b, bk.pos, 6) + 1  pt == bk.pos + 6 IN
            IF \E i \in 1..nt : RB(b, pt + 16 * (i - 1), 16) # 0 THEN [ok |-> FALSE]
            ELSE LET p1 == pt + 16 * nt
                     fl == ReadList(b, p1 + 6, 2, RB(b, p1, 6) + 1, id.ch) IN
                 IF ~fl.ok THEN [ok |-> FALSE]
                 ELSE LET rs == ReadList(b, fl.pos + 6, 3, RB(b, fl.pos, 6) + 1, id.ch) IN
                      IF ~rs.ok THEN [ok |-> FALSE]
                      ELSE LET mp == ReadList(b, rs.pos + 6, 4, RB(b, rs.pos, 6) + 1, id.ch) IN
                           IF ~mp.ok THEN [ok |-> FALSE]
                           ELSE LET nm == RB(b, mp.pos, 6) + 1  pm == mp.pos + 6
                                    modes == [i \in 1..nm |-> [bf |-> Bit(b, pm + 41 * (i - 1)), wt |-> RB(b, pm + 41 * (i - 1) + 1, 16), tt |-> RB(b, pm + 41 * (i - 1) + 17, 16), map |-> RB(b, pm + 41 * (i - 1) + 33, 8)]]
                                    pe == pm + 41 * nm
                                IN [ok |-> Bit(b, pe) = 1 /\ pe + 1 <= Len(b), nt |-> nt, bits |-> pe + 1,
                                    s |-> [ch |-> id.ch, rate |-> id.rate, e0 |-> id.e0, e1 |-> id.e1, books |-> bk.v, floors |-> fl.v, residues |-> rs.v, maps |-> mp.v, modes |-> modes]]
\* the bytes a list of <<value, width>> fields packs to (least significant bit first, zero padding in the last byte): what the writer's output looks like on the wire
FieldBits(fields) == FoldLeft(LAMBDA acc, f : acc \o [k \in 1..f[2] |-> (f[1] \div Pow2(k - 1)) % 2], <<>>, fields)
BytesOf(bits) == [j \in 1..((Len(bits) + 7) \div 8) |-> FoldFunction(LAMBDA x, y : x + y, 0, [k \in 0..7 |-> IF 8 * (j - 1) + k + 1 <= Len(bits) THEN bits[8 * (j - 1) + k + 1] * Pow2(k) ELSE 0])]
PackBytes(fields) == BytesOf(FieldBits(fields))
\* the verdict of the strict reader on a pair of header packets
HeadersValid(idbytes, setupbytes) == LET id == ReadId(idbytes) IN id.ok /\ LET r == ReadSetup(setupbytes, id) IN r.ok /\ IdOK(r.s) /\ SetupOK(r.s)
=============================================================================

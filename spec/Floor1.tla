------------------------------- MODULE Floor1 -------------------------------
(***************************************************************************)
(* Floor 1 curve decode on integers (Vorbis I spec 7.2.3 / 7.2.4;          *)
(* lib/floor1.c floor1_look, floor1_inverse1, floor1_inverse2).            *)
(*   X     = <<0, 2^rb>> \o posts      the post positions in list order    *)
(*   raw   = the values read from the packet (two end posts, then one per  *)
(*           post in list order)                                           *)
(* Unwrap gives the final Y of every post and whether it is "used" (a 0 in *)
(* the packet means: take the prediction, do not start a line here);       *)
(* Curve gives, for every bin 0..n-1, the index into the dB table.         *)
(***************************************************************************)
EXTENDS Integers, Sequences, FiniteSets

Abs(x) == IF x < 0 THEN -x ELSE x
TDiv(a, b) == IF a >= 0 THEN a \div b ELSE -((-a) \div b)          \* C division (b > 0)
DbRange(mult) == CASE mult = 1 -> 256 [] mult = 2 -> 128 [] mult = 3 -> 86 [] OTHER -> 64

\* neighbours of post i (1-based index into X, i >= 3) among the posts before it in list order
Lo(X, i) == LET c == { j \in 1..(i - 1) : X[j] < X[i] } IN CHOOSE j \in c : \A k \in c : X[k] <= X[j]
Hi(X, i) == LET c == { j \in 1..(i - 1) : X[j] > X[i] } IN CHOOSE j \in c : \A k \in c : X[k] >= X[j]

RenderPoint(x0, x1, y0, y1, x) ==
  LET dy == y1 - y0  adx == x1 - x0  off == (Abs(dy) * (x - x0)) \div adx IN IF dy < 0 THEN y0 - off ELSE y0 + off

\* unwrap post i given the final values of the earlier posts: [y, used, touched] where touched = neighbours forced to "used"
UnwrapOne(X, Y, raw, i, q) ==
  LET lo == Lo(X, i)  hi == Hi(X, i)
      pred == RenderPoint(X[lo], X[hi], Y[lo], Y[hi], X[i])
      hiroom == q - pred  loroom == pred
      room == 2 * (IF hiroom < loroom THEN hiroom ELSE loroom)
      v == raw[i]
      val == IF v >= room THEN (IF hiroom > loroom THEN v - loroom ELSE -1 - (v - hiroom))
             ELSE (IF v % 2 = 1 THEN -((v + 1) \div 2) ELSE v \div 2)
  IN IF v # 0 THEN [y |-> (val + pred) % 32768, used |-> TRUE, lo |-> lo, hi |-> hi]       \* C: & 0x7fff on a value that is in range for honest packets
     ELSE [y |-> pred, used |-> FALSE, lo |-> lo, hi |-> hi]
RECURSIVE UnwrapFrom(_, _, _, _, _, _)
UnwrapFrom(X, Y, U, raw, i, q) ==
  IF i > Len(X) THEN [Y |-> Y, U |-> U]
  ELSE LET r == UnwrapOne(X, Y, raw, i, q)
           U1 == IF r.used THEN [U EXCEPT ![r.lo] = TRUE, ![r.hi] = TRUE] ELSE U
           Y2 == Append(Y, r.y)  U2 == Append(U1, r.used)
       \* (the test forces Y2 and U2 here: TLC passes operator arguments unevaluated, and a chain of 60 pending Appends is re-walked at every use)
       IN IF Len(Y2) = Len(U2) THEN UnwrapFrom(X, Y2, U2, raw, i + 1, q) ELSE [Y |-> Y2, U |-> U2]
Unwrap(X, raw, mult) == UnwrapFrom(X, <<raw[1], raw[2]>>, <<TRUE, TRUE>>, raw, 3, DbRange(mult))

\* the line from (x0,y0) to (x1,y1): value at bin x (x0 <= x < x1), the integer DDA of render_line
LineY(x0, x1, y0, y1, x) ==
  LET dy == y1 - y0  adx == x1 - x0
      base == TDiv(dy, adx)
      sy == IF dy < 0 THEN base - 1 ELSE base + 1
      ady == Abs(dy) - Abs(base * adx)
      k == x - x0                                   \* steps taken
      bumps == (k * ady) \div adx                   \* how often the error term has overflowed after k steps
  IN y0 + k * base + bumps * (sy - base)
Clamp255(v) == IF v < 0 THEN 0 ELSE IF v > 255 THEN 255 ELSE v

\* posts in order of X; only "used" posts start / end lines
SortedIdx(X) == LET n == Len(X) IN [r \in 1..n |-> CHOOSE j \in 1..n : Cardinality({ k \in 1..n : X[k] < X[j] }) = r - 1]
RECURSIVE Segs(_, _, _, _, _, _, _, _)
\* walk the sorted posts; acc = sequence of [x0,x1,y0,y1]
Segs(X, Y, U, mult, S, r, last, acc) ==
  IF r > Len(S) THEN [segs |-> acc, lx |-> X[last], ly |-> Clamp255(Y[last] * mult)]
  ELSE LET j == S[r] IN
       IF U[j] THEN Segs(X, Y, U, mult, S, r + 1, j, Append(acc, [x0 |-> X[last], x1 |-> X[j], y0 |-> Clamp255(Y[last] * mult), y1 |-> Clamp255(Y[j] * mult)]))
       ELSE Segs(X, Y, U, mult, S, r + 1, last, acc)
Curve(X, Y, U, mult, n) ==
  LET S == SortedIdx(X)
      w == Segs(X, Y, U, mult, S, 2, S[1], <<>>)
  IN [b \in 1..n |->
        LET x == b - 1
            hit == { s \in 1..Len(w.segs) : w.segs[s].x0 <= x /\ x < w.segs[s].x1 }
        IN IF hit # {} THEN LET g == w.segs[CHOOSE s \in hit : TRUE] IN LineY(g.x0, g.x1, g.y0, g.y1, x)
           ELSE w.ly]
=============================================================================

---- MODULE dbg2 ----
EXTENDS SetupParse, TLC, Json, IOUtils
Tr == ndJsonDeserialize(IOEnv.TRACE)
H == CHOOSE i \in 1..Len(Tr) : Tr[i].e = "HeaderOut" /\ "setupbytes" \in DOMAIN Tr[i]
id == ReadId(Tr[H].idbytes)
b == BitsOf(Tr[H].setupbytes)
ASSUME PrintT(<<"id", id>>)
ASSUME PrintT(<<"nbooks", RB(b, 56, 8) + 1>>)
P25 == 9658 + 65 + 1 + 5 * 100 + 4
ASSUME PrintT(<<"b25", RB(b, P25, 24), RB(b, P25 + 24, 16), RB(b, P25 + 40, 24), Bit(b, P25 + 64), Bit(b, P25 + 65)>>)
ASSUME PrintT(<<"qv", QuantVals1(RB(b, P25 + 40, 24), RB(b, P25 + 24, 16))>>)
VARIABLE x
Init == x = 0
Next == UNCHANGED x
====

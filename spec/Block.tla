------------------------------- MODULE Block -------------------------------
(***************************************************************************)
(* The two blocking machines of lib/block.c on integers.                   *)
(*                                                                         *)
(* Decoder (vorbis_synthesis_restart / _blockin / _pcmout / _read): the    *)
(* record d copies the fields of vorbis_dsp_state / private_state that     *)
(* drive the sample bookkeeping:                                           *)
(*   lW W centerW cur(pcm_current) ret(pcm_returned) gp(granulepos)        *)
(*   seq(sequence) sc(sample_count) eof hs(half-rate latch)                *)
(* Encoder (vorbis_analysis_wrote / _blockout): the record e copies        *)
(*   cur centerW lW W nW eof(eofflag) gp seq pre(preextrapolate)           *)
(* The envelope search is the environment: it answers -1 / 0 / 1.          *)
(*                                                                         *)
(* B = <<bs0, bs1>> are the two block sizes.  Audio is abstracted to       *)
(* positions: what matters here is how many samples appear and where.      *)
(***************************************************************************)
EXTENDS Integers, Sequences

Bs(B, w) == IF w = 1 THEN B[2] ELSE B[1]
ShrI(x, h) == IF h = 1 THEN x \div 2 ELSE x          \* x >= 0
ShlI(x, h) == IF h = 1 THEN 2 * x ELSE x
MaxOf(a, b) == IF a >= b THEN a ELSE b
MinOf(a, b) == IF a <= b THEN a ELSE b

(* ------------------------------ decoder ------------------------------ *)
DecRestart(B, hs) ==
  LET cw == ShrI(B[2] \div 2, hs) IN
  [lW |-> 0, W |-> 0, centerW |-> cw, cur |-> ShrI(cw, hs), ret |-> -1, gp |-> -1, seq |-> -1, sc |-> -1, eof |-> 0, hs |-> hs]

DecAvail(d) == IF d.ret > -1 /\ d.ret < d.cur THEN d.cur - d.ret ELSE 0
DecBlockinAllowed(d) == ~(d.cur > d.ret /\ d.ret # -1)          \* else OV_EINVAL: old block not read out

\* vorbis_synthesis_blockin with a block of flag w, packet number no, granule position g (-1 = none), end-of-stream flag eos;
\* pcm = FALSE for a track-only block
DecBlockin(B, d, w, no, g, eos, pcm) ==
  LET hs   == d.hs
      lw   == d.W
      adv  == Bs(B, lw) \div 4 + Bs(B, w) \div 4
      lost == d.seq = -1 \/ d.seq + 1 # no
      gp0  == IF lost THEN -1 ELSE d.gp
      sc0  == IF lost THEN -1 ELSE d.sc
      n1   == ShrI(B[2] \div 2, hs)
      thisC == IF d.centerW # 0 THEN n1 ELSE 0
      prevC == IF d.centerW # 0 THEN 0 ELSE n1
      cw1  == IF pcm THEN (IF d.centerW # 0 THEN 0 ELSE n1) ELSE d.centerW
      ret1 == IF ~pcm THEN d.ret ELSE IF d.ret = -1 THEN thisC ELSE prevC
      cur1 == IF ~pcm THEN d.cur ELSE IF d.ret = -1 THEN thisC ELSE prevC + ShrI(adv, hs)
      sc1  == IF sc0 = -1 THEN 0 ELSE sc0 + adv
      pend == ShlI(cur1 - ret1, hs)
      \* granule tracking and trimming
      res  == IF gp0 = -1
              THEN IF g # -1
                   THEN IF sc1 > g
                        THEN LET extra0 == sc1 - g
                                 extra  == IF extra0 < 0 THEN 0 ELSE extra0
                             IN IF ret1 = -1 THEN [gp |-> g, cur |-> cur1, ret |-> ret1]         \* no samples since the (re)start (track-only blocks): nothing to trim, the marker stays
                                ELSE IF eos
                                THEN [gp |-> g, cur |-> cur1 - ShrI(MinOf(extra, pend), hs), ret |-> ret1]
                                ELSE LET r2 == ret1 + ShrI(extra, hs) IN
                                     [gp |-> g, cur |-> cur1, ret |-> IF r2 > cur1 THEN cur1 ELSE r2]
                        ELSE [gp |-> g, cur |-> cur1, ret |-> ret1]
                   ELSE [gp |-> -1, cur |-> cur1, ret |-> ret1]
              ELSE LET gp1 == gp0 + adv IN
                   IF g # -1 /\ gp1 # g
                   THEN IF gp1 > g /\ eos /\ ret1 # -1
                        THEN LET extra == MinOf(gp1 - g, pend) IN
                             [gp |-> g, cur |-> cur1 - ShrI(IF extra < 0 THEN 0 ELSE extra, hs), ret |-> ret1]
                        ELSE [gp |-> g, cur |-> cur1, ret |-> ret1]
                   ELSE [gp |-> gp1, cur |-> cur1, ret |-> ret1]
  IN [lW |-> lw, W |-> w, centerW |-> cw1, cur |-> res.cur, ret |-> res.ret, gp |-> res.gp, seq |-> no, sc |-> sc1,
      eof |-> IF eos THEN 1 ELSE d.eof, hs |-> hs]

\* vorbis_synthesis_lapout: consolidates the two-half ring so that the samples from pcm_returned on are contiguous; solid = the flag that makes a second call on the
\* same block a no-op.  Result [d, solid, n]: n = the count returned (samples exposed from pcm_returned on)
DecLapout(B, d, solid) ==
  LET hs == d.hs  n == ShrI(Bs(B, d.W) \div 2, hs)  n0 == ShrI(B[1] \div 2, hs)  n1 == ShrI(B[2] \div 2, hs) IN
  IF d.ret < 0 THEN [d |-> d, solid |-> solid, n |-> 0]
  ELSE LET d1 == IF d.centerW = n1 THEN [d EXCEPT !.cur = @ - n1, !.ret = @ - n1, !.centerW = 0] ELSE d          \* the data wraps: swap the halves
           sh == IF solid \/ d1.cur >= n1 THEN 0
                 ELSE IF d1.lW # d1.W THEN (n1 - n0) \div 2                                                    \* long/short or short/long
                 ELSE IF d1.lW = 0 THEN n1 - n0 ELSE 0                                                        \* short/short; long/long needs no move
           d2 == [d1 EXCEPT !.ret = @ + sh, !.cur = @ + sh]
       IN [d |-> d2, solid |-> TRUE, n |-> n1 + n - d2.ret]

DecRead(d, n) == [d EXCEPT !.ret = @ + n]                       \* caller keeps n <= DecAvail(d)

\* buffer indices never leave the two-half ring: this is the model-level image of memory safety of the PCM buffer
DecBufOK(B, d) == LET n1 == ShrI(B[2] \div 2, d.hs) IN
  d.ret = -1 \/ (0 <= d.ret /\ d.ret <= d.cur /\ d.cur <= 2 * n1)

(* ------------------------------ encoder ------------------------------ *)
EncInit(B) == [cur |-> B[2] \div 2, centerW |-> B[2] \div 2, lW |-> 0, W |-> 0, nW |-> 0, eof |-> 0, gp |-> 0, seq |-> 3, pre |-> FALSE]

EncWrote(B, e, n) ==      \* n > 0
  LET c == e.cur + n IN [e EXCEPT !.cur = c, !.pre = e.pre \/ (c - e.centerW > B[2])]
EncEOF(B, e) == [e EXCEPT !.pre = TRUE, !.eof = e.cur, !.cur = e.cur + 3 * B[2]]

\* the envelope search can only answer "long" when data reaches beyond its test position, and needs some data after the centre to answer at all
EnvAnswers(B, e) ==
  LET testW == e.centerW + Bs(B, e.W) \div 4 + B[2] \div 2 + B[1] \div 4 IN
  {-1} \cup (IF e.cur > e.centerW THEN {0} ELSE {}) \cup (IF e.cur > testW THEN {1} ELSE {})

\* vorbis_analysis_blockout with the envelope answer env: result [ret, e, pkt]
EncBlockout(B, e, env) ==
  LET none == [ret |-> 0, e |-> e, pkt |-> [W |-> 0, lW |-> 0, nW |-> 0, gp |-> 0, seq |-> 0, eos |-> FALSE]] IN
  IF ~e.pre \/ e.eof = -1 THEN none
  ELSE IF env = -1 /\ e.eof = 0 THEN none
  ELSE LET nw == IF env = -1 THEN 0 ELSE IF B[1] = B[2] THEN 0 ELSE env
           centerNext == e.centerW + Bs(B, e.W) \div 4 + Bs(B, nw) \div 4
           blockbound == centerNext + Bs(B, nw) \div 2
       IN IF e.cur < blockbound THEN [none EXCEPT !.e = [e EXCEPT !.nW = nw]]
          ELSE LET pkt == [W |-> e.W, lW |-> e.lW, nW |-> nw, gp |-> e.gp, seq |-> e.seq, eos |-> FALSE]
                   e1  == [e EXCEPT !.nW = nw, !.seq = e.seq + 1]
               IN IF e.eof # 0 /\ e.centerW >= e.eof
                  THEN [ret |-> 1, e |-> [e1 EXCEPT !.eof = -1], pkt |-> [pkt EXCEPT !.eos = TRUE]]
                  ELSE LET newC == B[2] \div 2
                           mv   == centerNext - newC
                       IN IF mv <= 0 THEN [ret |-> 1, e |-> e1, pkt |-> pkt]
                          ELSE LET eof1 == IF e.eof # 0 THEN (IF e.eof - mv <= 0 THEN -1 ELSE e.eof - mv) ELSE 0
                                   gp1  == IF e.eof # 0 /\ newC >= eof1 THEN e.gp + mv - (newC - eof1) ELSE e.gp + mv
                               IN [ret |-> 1,
                                   e |-> [e1 EXCEPT !.cur = e.cur - mv, !.lW = e.W, !.W = nw, !.centerW = newC, !.eof = eof1, !.gp = gp1],
                                   pkt |-> pkt]

(* ------------------ what a well-formed packet sequence is ------------------ *)
\* sample position at which audio packet k (0-based) ends, from the block flags alone (Vorbis I, 4.3.8)
RECURSIVE EndPos(_, _, _)
EndPos(B, ws, k) == IF k = 0 THEN 0 ELSE EndPos(B, ws, k - 1) + Bs(B, ws[k]) \div 4 + Bs(B, ws[k + 1]) \div 4
=============================================================================

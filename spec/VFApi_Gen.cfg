SPECIFICATION Spec
CONSTANTS MaxLen = 9
 Gen = TRUE
 Mode = "seek"
INVARIANT RulesSatisfiable
INVARIANT Export
CHECK_DEADLOCK FALSE

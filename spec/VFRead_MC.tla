----------------------------- MODULE VFRead_MC -----------------------------
(***************************************************************************)
(* The decode path of a seekable handle, checked over small chained files  *)
(* and every short history of reads, raw seeks, sample-exact seeks and     *)
(* page seeks.  A link is drawn from: block-flag sequences x packets per   *)
(* page x initial offset / begin trim x end trim x a multiplexed foreign   *)
(* stream (mux 1 / 2: BOS after / before ours, a page among the audio, its *)
(* EOS page before our last page; mux 3: BOS after ours and the foreign    *)
(* stream ENDS behind our first audio page).  Block sizes <<4, 8>>.        *)
(* The file is opened by VFOpen's Open (the link table is the model's      *)
(* own), the handle is VFRead's Opened.                                    *)
(* Truth, written down independently: link i has N(i) = E - et - a0        *)
(* samples (E = what its packets decode to, et the end trim, a0 the begin  *)
(* trim) and position t of the link is decode-space sample a0 + t.         *)
(***************************************************************************)
EXTENDS VFRead, TLC
CONSTANTS MaxLinks, Shapes, PPPs, S0s, ETs, Muxes, BIdx, Spans, Dmg, PLen, ReadLens, MaxCalls, Ops, DiscardVi, Streaming, PinSer, PinBos
VARIABLES lay, file, vf, dl, last, ncalls, nxt, dmg, taint          \* nxt: ghost, [link, lin] = the decode-space sample that must be handed out next (read-through only)
vars == <<lay, file, vf, dl, last, ncalls, nxt, dmg, taint>>          \* taint: a callback failed during an earlier call and no seek has succeeded since
K == [chunk |-> 4, near |-> 3, read |-> 2, backup |-> "begin", handover |-> "refetch", clamp |-> TRUE, discardvi |-> DiscardVi]
BCat == << <<4, 8>>, <<4, 16>>, <<8, 16>> >>          \* block sizes a link can have (BIdx selects)
WS == << <<0, 0, 0, 0>>, <<0, 1, 1, 0, 0>>, <<1, 1, 0, 1>>, <<0, 0>>, <<1, 0, 0, 0, 1, 1>>, <<0, 1, 0>> >>
VSer(i) == 10 * i + 1
FSer(i) == 10 * i + 2
E(B, ws, k) == IF k <= 1 THEN 0 ELSE BK!EndPos(B, ws, k - 1)          \* decode-space samples after k packets
Etot(B, ws) == E(B, ws, Len(ws))
A0(c) == IF c.s0 < 0 THEN -c.s0 ELSE 0
N(c) == Etot(BCat[c.b], WS[c.shape]) - c.et - A0(c)
\* audio pages of a link: packets a..b per page
RECURSIVE Groups(_, _, _)
Groups(n, ppp, a) == IF a > n THEN <<>> ELSE LET b == IF a + ppp - 1 > n THEN n ELSE a + ppp - 1 IN << <<a, b>> >> \o Groups(n, ppp, b + 1)
LinkPages(i, c) ==
  LET ws == WS[c.shape]  n == Len(ws)  gs == Groups(n, c.ppp, 1)  ng == Len(gs)  B == BCat[c.b]
      hdr(s, hp, bos) == [len |-> 1, ser |-> s, gp |-> 0, bos |-> bos, eos |-> FALSE, hp |-> hp, ws |-> <<>>, bs |-> <<>>, cont |-> FALSE, tail |-> FALSE, k0 |-> 0]
      vb == hdr(VSer(i), 1, TRUE)
      fb == [hdr(FSer(i), 0, TRUE) EXCEPT !.gp = 0]
      fd(eos) == [len |-> PLen, ser |-> FSer(i), gp |-> 7, bos |-> FALSE, eos |-> eos, hp |-> 0, ws |-> <<>>, bs |-> <<>>, cont |-> FALSE, tail |-> FALSE, k0 |-> 0]
      bosp == IF c.mux = 0 THEN <<vb>> ELSE IF c.mux = 2 THEN <<fb, vb>> ELSE <<vb, fb>>
      au(j) == LET a == gs[j][1]  b == gs[j][2]  fin == j = ng
                   gp0 == IF fin THEN Etot(B, ws) + c.s0 - c.et ELSE E(B, ws, b) + c.s0 IN
               [len |-> PLen, ser |-> VSer(i), gp |-> IF gp0 < 0 THEN 0 ELSE gp0, bos |-> FALSE, eos |-> fin, hp |-> 0,
                ws |-> SubSeq(ws, a, b), bs |-> [x \in 1..(b - a + 1) |-> BK!Bs(B, ws[a + x - 1])], cont |-> FALSE, tail |-> (c.sp >= 1 /\ j < ng), k0 |-> a]
      \* sp = 1: the first packet of every audio page but the first began on the page before (the page is "continued");
      \* sp = 2: ... and between the two lies a page on which no packet ends at all (no granule position)
      mid == [len |-> PLen, ser |-> VSer(i), gp |-> -1, bos |-> FALSE, eos |-> FALSE, hp |-> 0, ws |-> <<>>, bs |-> <<>>, cont |-> TRUE, tail |-> TRUE, k0 |-> 0]
      RECURSIVE Aud(_)
      Aud(j) == IF j > ng THEN <<>>
                ELSE (IF c.mux \in {1, 2} /\ j = ng /\ ng >= 2 THEN << fd(TRUE) >> ELSE <<>>)
                     \o (IF c.sp = 2 /\ j >= 2 THEN << mid >> ELSE <<>>)
                     \o << [au(j) EXCEPT !.cont = (c.sp >= 1 /\ j >= 2)] >> \o (IF c.mux # 0 /\ j = 1 THEN << fd(ng = 1 \/ c.mux = 3) >> ELSE <<>>) \o Aud(j + 1)
  IN bosp \o << hdr(VSer(i), 2, FALSE) >> \o Aud(1)
RECURSIVE Flat(_, _)
Flat(ch, i) == IF i > Len(ch) THEN <<>> ELSE LinkPages(i, ch[i]) \o Flat(ch, i + 1)
RECURSIVE WithOff(_, _, _)
WithOff(ps, k, o) == IF k > Len(ps) THEN <<>> ELSE << [off |-> o, ours |-> FALSE] @@ ps[k] >> \o WithOff(ps, k + 1, o + ps[k].len)
\* page sequence numbers: per logical stream, counted from 0
Numbered(ps) == [k \in 1..Len(ps) |-> [pn |-> Cardinality({ j \in 1..(k - 1) : ps[j].ser = ps[k].ser })] @@ ps[k]]
\* damage (Dmg): one audio page of ours missing ("drop") or there twice ("dup"); every page stays a well-formed page
AudioIdx(ps) == { k \in 1..Len(ps) : ps[k].hp = 0 /\ ~ps[k].bos /\ ps[k].ws # <<>> }
Damaged(ps, d) == IF d.kind = "drop" THEN SubSeq(ps, 1, d.k - 1) \o SubSeq(ps, d.k + 1, Len(ps))
                  ELSE IF d.kind = "dup" THEN SubSeq(ps, 1, d.k) \o SubSeq(ps, d.k, Len(ps)) ELSE ps
\* a begin trim needs a first audio page that holds the trimmed samples
LinkOK(c) == LET ws == WS[c.shape]  B == BCat[c.b]  b1 == IF c.ppp > Len(ws) THEN Len(ws) ELSE c.ppp IN
             /\ (c.s0 < 0 => b1 = 2 /\ b1 < Len(ws) /\ E(B, ws, b1) + c.s0 >= 0)          \* (on a link of one page a short position is an END trim; with three packets on the first page
                                                                               \*  the decoder has handed out the second packet's samples before it sees the position)
             /\ (b1 = Len(ws) => c.s0 = 0)          \* one page: an initial offset and an end trim cannot be told apart, the generator does not combine them
             /\ N(c) >= 1
S0V == <<0, 3, -2>>          \* S0s selects from these (a cfg file cannot hold a negative number)
Links == { c \in [shape : Shapes, ppp : PPPs, s0 : { S0V[x] : x \in S0s }, et : ETs, mux : Muxes, b : BIdx, sp : Spans] : LinkOK(c) }
Chains == UNION { [1..n -> Links] : n \in 1..MaxLinks }
FileOf(ch, d) ==
  LET P0 == Numbered(Flat(ch, 1))
      PG == WithOff(IF d.kind = "none" THEN P0 ELSE Damaged(P0, d), 1, 0)
      o == Open(PG, { VSer(i) : i \in 1..Len(ch) }, K)
  IN [PG |-> PG, ok |-> o.ok, LT |-> o.links, BL |-> [i \in 1..Len(ch) |-> BCat[ch[i].b]]]
NoDmg == [kind |-> "none", k |-> 0]
NoOp == [op |-> "none", arg |-> 0, ret |-> 0, t0 |-> 0, due |-> [link |-> 1, lin |-> 0, on |-> FALSE], rs0 |-> 0, link0 |-> 0, pos0 |-> 0]
Init == taint = FALSE /\ dmg = NoDmg /\ lay = <<>> /\ file = <<>> /\ vf = <<>> /\ dl = NoDelivery /\ last = NoOp /\ ncalls = 0 /\ nxt = [link |-> 1, lin |-> 0, on |-> FALSE]
Choose == /\ lay = <<>>
          /\ \E ch \in Chains : \E d \in {NoDmg} \cup { [kind |-> kd, k |-> k] : kd \in Dmg, k \in AudioIdx(Numbered(Flat(ch, 1))) } :
               LET f == FileOf(ch, d) IN
               /\ (Dmg # {} => d # NoDmg)
               /\ lay' = ch /\ file' = f /\ dmg' = d
               /\ nxt' = [link |-> 1, lin |-> A0(ch[1]), on |-> TRUE]
               /\ IF f.ok THEN LET o == IF Streaming THEN OpenedStreaming(f.PG, f.LT, f.BL) ELSE Opened(f.PG, f.LT, f.BL) IN vf' = [o.vf EXCEPT !.pinser = PinSer, !.pinbos = PinBos] /\ last' = [NoOp EXCEPT !.op = "open", !.ret = o.ret]
                  ELSE vf' = <<>> /\ last' = [NoOp EXCEPT !.op = "open", !.ret = -1]
          /\ dl' = NoDelivery /\ ncalls' = 0 /\ taint' = FALSE
Live == lay # <<>> /\ file.ok /\ last.ret # -999 /\ ncalls < MaxCalls
LinOf(d) == E(BCat[lay[d.link].b], WS[lay[d.link].shape], d.k - 1) + d.j
\* the ghost of an uninterrupted read-through: after a delivery the next sample due; a seek switches it off
NxtAfter(op, r) ==
  IF op # "read" THEN [nxt EXCEPT !.on = FALSE]
  ELSE IF r.dl.n = 0 \/ ~nxt.on \/ r.dl.hs = 1 THEN nxt
  ELSE LET c == lay[r.dl.link]  e == LinOf(r.dl) + r.dl.n IN
       IF e >= A0(c) + N(c) THEN [link |-> r.dl.link + 1, lin |-> IF r.dl.link < Len(lay) THEN A0(lay[r.dl.link + 1]) ELSE 0, on |-> TRUE] ELSE [link |-> r.dl.link, lin |-> e, on |-> TRUE]
Step(op, arg, r) == /\ nxt' = NxtAfter(op, r) /\ vf' = [r.vf EXCEPT !.fault = FALSE]
                    /\ taint' = (IF op \in {"readF", "rawF", "lapF", "rawS"} THEN TRUE ELSE IF op \in {"raw", "pcm", "page", "lap"} /\ r.ret = 0 THEN FALSE ELSE taint) /\ last' = [op |-> op, arg |-> arg, ret |-> r.ret, t0 |-> vf.off, due |-> nxt, rs0 |-> vf.rs, link0 |-> vf.link, pos0 |-> vf.pos] /\ ncalls' = ncalls + 1 /\ UNCHANGED <<lay, file, dmg>>
DoRead == "read" \in Ops /\ Live /\ \E len \in ReadLens : LET r == Read(file.PG, file.LT, file.BL, vf, len) IN Step("read", len, r) /\ dl' = r.dl
DoRaw == "raw" \in Ops /\ Live /\ \E p \in 0..DataEnd(file.PG) : LET r == RawSeek(file.PG, file.LT, file.BL, vf, p) IN Step("raw", p, r) /\ dl' = NoDelivery
DoPcm == "pcm" \in Ops /\ Live /\ \E t \in 0..Total(file.LT) : LET r == PcmSeek(file.PG, file.LT, file.BL, vf, t, K) IN Step("pcm", t, r) /\ dl' = NoDelivery
DoHalf == "half" \in Ops /\ Live /\ \E fl \in {0, 1} : LET r == HalfRate(file.PG, file.LT, file.BL, vf, fl, K) IN Step("half", fl, r) /\ dl' = NoDelivery
DoLap == "lap" \in Ops /\ Live /\ \E t \in 0..Total(file.LT) : LET r == LapSeek(file.PG, file.LT, file.BL, vf, "pcm", t, K) IN Step("lap", t, r) /\ dl' = NoDelivery
\* the same calls while the read callback fails (F), and a raw seek whose seek callback fails (S)
Fv == [vf EXCEPT !.fault = TRUE]
DoFault == "fault" \in Ops /\ Live /\
  \/ LET r == Read(file.PG, file.LT, file.BL, Fv, 100) IN Step("readF", 100, r) /\ dl' = NoDelivery
  \/ \E p \in 0..DataEnd(file.PG) : LET r == RawSeek(file.PG, file.LT, file.BL, Fv, p) IN Step("rawF", p, r) /\ dl' = NoDelivery
  \/ \E p \in 0..DataEnd(file.PG) : LET r == RawSeekSeekFails(file.PG, file.LT, file.BL, vf, p) IN Step("rawS", p, r) /\ dl' = NoDelivery
  \/ \E t \in 0..Total(file.LT) : LET r == LapSeek(file.PG, file.LT, file.BL, Fv, "raw", 0, K) IN Step("lapF", t, r) /\ dl' = NoDelivery
DoPage == "page" \in Ops /\ Live /\ \E t \in 0..Total(file.LT) : LET r == PcmSeekPage(file.PG, file.LT, file.BL, vf, t, K) IN Step("page", t, r) /\ dl' = NoDelivery
Next == Choose \/ DoRead \/ DoRaw \/ DoPcm \/ DoPage \/ DoHalf \/ DoLap \/ DoFault
Spec == Init /\ [][Next]_vars

Chosen == lay # <<>>
\* on a file with a page missing or doubled there is no truth to hold the audio against here; what must hold: every call ends, answers with a count or a
\* documented code, and the position stays inside the stream (or unknown)
DamagedCallsBehave == Chosen /\ dmg # NoDmg /\ last.op \notin {"none", "open"} =>
  /\ last.ret # -999
  /\ (last.ret >= 0 \/ last.ret \in {OV_HOLE, OV_EOF, OV_EINVAL, OV_EBADLINK, OV_EBADPACKET, OV_EFAULT})
  \* (nothing is demanded of the POSITION on such a file: it is "granule position of the page minus what is pending" without a floor and comes out a few
  \*  samples below zero behind a page that is there twice; and a gap met while a sample seek discards samples is taken for the end of the stream -
  \*  position := total - although samples still follow, so that reading on moves it past the total.  Every user of the position copes, see ov_time_tell)
  /\ (last.op = "read" => last.ret >= 0 \/ last.ret = OV_HOLE)
StartOf(i) == SumLen(file.LT, i - 1)
NoLoopBoundHit == last.ret # -999
OpenOK == Chosen => /\ file.ok /\ Len(file.LT) = Len(lay) /\ \A i \in 1..Len(lay) : file.LT[i].len = N(lay[i])
                    /\ (last.op = "open" => last.ret = 0 /\ vf.off = 0)
\* what a read hands out is what the stand-alone decode of the link has at the position the handle reported before
PositionTruth == Chosen /\ ~Streaming /\ ~taint /\ dl.n > 0 /\ dl.hs = 0 =>
  LET c == lay[dl.link]  ws == WS[c.shape]  lin == E(BCat[c.b], ws, dl.k - 1) + dl.j  t == dl.t0 - StartOf(dl.link) IN
  /\ dl.k >= 2 /\ t >= 0 /\ t + dl.n <= N(c)
  /\ lin = A0(c) + t
\* at half rate every packet produces half as many samples and positions move in steps of two: the sample handed out at position t of the link
\* is half-rate sample (a0 + t) / 2 of the stand-alone half-rate decode (exactly where a0 + t is even; the property allows the odd case one off)
PositionTruthHalf == Chosen /\ ~Streaming /\ dl.n > 0 /\ dl.hs = 1 =>
  LET c == lay[dl.link]  ws == WS[c.shape]  linh == E(BCat[c.b], ws, dl.k - 1) \div 2 + dl.j  t == dl.t0 - StartOf(dl.link) IN
  /\ dl.k >= 2 /\ t >= -1 /\ t + 2 * dl.n <= N(c) + 2
  /\ linh = (A0(c) + t) \div 2 \/ (linh = (A0(c) + t + 1) \div 2 /\ (A0(c) + t) % 2 = 1)
\* reading on without a seek hands out every sample of every link exactly once and in order (seekable and streaming), and ends when all are out
InOrder == Chosen /\ ~taint /\ last.op = "read" /\ last.due.on /\ dl.hs = 0 =>
  IF dl.n > 0 THEN dl.link = last.due.link /\ LinOf(dl) = last.due.lin ELSE last.due.link = Len(lay) + 1
ReadContinues == ~taint /\ last.op = "read" /\ dl.n > 0 /\ last.t0 # -1 => dl.t0 = last.t0
ReadOutcome == Chosen /\ ~Streaming /\ ~taint /\ last.op = "read" => /\ last.ret >= 0 /\ last.ret = dl.n
                                             /\ (last.ret = 0 => vf.off = Total(file.LT))
                                             /\ (last.t0 = Total(file.LT) => last.ret = 0)
                                             /\ (last.t0 >= 0 /\ last.t0 < Total(file.LT) => last.ret > 0)
\* C12 in the model: while a callback fails the call in progress answers with a count, end of file or a documented code; and (the other invariants,
\* which hold again from the first seek that succeeds afterwards) a seek to any position and the reads behind it behave as on a handle that never failed
FaultOutcome == Chosen /\ last.op \in {"readF", "rawF", "lapF", "rawS"} =>
  /\ last.ret # -999
  /\ (last.ret >= 0 \/ last.ret \in {OV_EOF, OV_EINVAL, OV_EBADLINK, -128})
HalfOutcome == Chosen /\ last.op = "half" => last.ret = 0 /\ vf.hs = last.arg /\ (last.t0 >= 0 => vf.off <= last.t0 /\ vf.off >= last.t0 - 2)
\* a lapped seek lands where the plain seek lands; it may end with OV_EOF where there is nothing behind the target to prime the lap with
LapOutcome == Chosen /\ last.op = "lap" =>
  \/ (last.ret = 0 /\ vf.off = last.arg)
  \/ (last.ret = OV_EOF /\ vf.off = Total(file.LT))                                                          \* sought, and no audio follows the target
  \/ (last.ret = OV_EOF /\ last.rs0 < INITSET /\ vf.off = last.t0 /\ last.t0 = SumLen(file.LT, last.link0))     \* no decoder, and at the end of the link the handle is in
  \/ (last.ret = OV_EOF /\ last.rs0 < INITSET /\ vf.off = last.t0 /\ last.t0 = -1 /\ vf.pos >= DataEnd(file.PG))   \* no decoder, position unknown (a seek failed), and nothing of the stream between the byte cursor and the end of the file
SeekOutcome == Chosen /\ last.op \in {"raw", "pcm", "page"} =>
  /\ last.ret = 0
  /\ vf.off >= 0 /\ vf.off <= Total(file.LT)
  /\ (last.op = "pcm" /\ vf.hs = 0 => vf.off = last.arg)
  /\ (last.op = "pcm" /\ vf.hs = 1 => vf.off <= last.arg /\ vf.off >= last.arg - 2)
  /\ (last.op = "page" => vf.off <= last.arg)
=============================================================================

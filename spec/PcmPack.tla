------------------------------ MODULE PcmPack ------------------------------
(***************************************************************************)
(* Integer PCM packing of ov_read: the float sample, given exactly by its   *)
(* IEEE-754 single fields (s, ex, m), is scaled by 2^15 (16 bit) or 2^7     *)
(* (8 bit), rounded to nearest (an exact tie may go either way), clipped to *)
(* the representable range with the sign of the input, offset for unsigned  *)
(* formats and laid out in the requested byte order.  Everything is integer *)
(* arithmetic on the significand, so TLC can evaluate it.                   *)
(***************************************************************************)
EXTENDS Integers, FiniteSets

Pow2(n) == IF n <= 0 THEN 1 ELSE 2^n
BIG == 1073741824                      \* stands for "beyond every range"
LoW(word) == IF word = 1 THEN -128 ELSE -32768
HiW(word) == IF word = 1 THEN 127 ELSE 32767
ScaleExp(word) == IF word = 1 THEN 7 ELSE 15

\* candidate magnitudes of  M * 2^k  rounded to nearest (both neighbours on an exact tie)
RoundMag(M, k) ==
  IF M = 0 THEN {0}
  ELSE IF k >= 0 THEN {BIG}
  ELSE LET d == -k IN
       IF d >= 26 THEN {0}
       ELSE LET p == Pow2(d)  q == M \div p  r == M % p  h == p \div 2
            IN IF r < h THEN {q} ELSE IF r > h THEN {q + 1} ELSE {q, q + 1}

Clip(v, word) == IF v > HiW(word) THEN HiW(word) ELSE IF v < LoW(word) THEN LoW(word) ELSE v

\* allowed sample words (as signed integers before the unsigned offset)
AllowedSigned(s, ex, m, word) ==
  IF ex = 255 /\ m # 0 THEN LoW(word)..HiW(word)                 \* NaN: any representable word
  ELSE LET M == IF ex = 0 THEN m ELSE 8388608 + m
           k == (IF ex = 0 THEN 1 ELSE ex) - 150 + ScaleExp(word)
           mags == IF ex = 255 THEN {BIG} ELSE RoundMag(M, k)
       IN { Clip(IF s = 1 THEN -g ELSE g, word) : g \in mags }

\* allowed stored values 0..2^(8 word)-1 as they appear in memory (two's complement / offset binary)
AllowedStored(s, ex, m, word, sgned) ==
  { IF sgned = 1 THEN (IF v < 0 THEN v + Pow2(8 * word) ELSE v) ELSE v - LoW(word) : v \in AllowedSigned(s, ex, m, word) }

\* value stored by bytes b0 (first in memory) and b1 for the requested byte order
Stored(b0, b1, word, be) == IF word = 1 THEN b0 ELSE IF be = 1 THEN b0 * 256 + b1 ELSE b1 * 256 + b0

ConvOK(x, word, sgned, be) == Stored(x.b0, x.b1, word, be) \in AllowedStored(x.s, x.ex, x.m, word, sgned)
=============================================================================

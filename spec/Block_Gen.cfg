SPECIFICATION Spec
CONSTANTS BS0 = 8
 BS1 = 32
 MaxN = 300
 MaxPiece = 97
 HS = 0
 Gen = TRUE
INVARIANT Export
INVARIANT RoundTrip
CHECK_DEADLOCK FALSE

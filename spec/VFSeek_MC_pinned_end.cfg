SPECIFICATION Spec
CONSTANTS MaxPages = 4
 EndAt = "lastpage"
 Lens = {1,2,4}
 Chunk = 4
 Reads = {2}
 BackUpRule = "begin"
 HandOver = "refetch"
 GuessRule = "clamped"
 Lies = FALSE
INVARIANT Terminates
INVARIANT SubmitsTheRightPage
CHECK_DEADLOCK FALSE

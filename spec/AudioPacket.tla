---------------------------- MODULE AudioPacket ----------------------------
(***************************************************************************)
(* Audio packets of Vorbis I written codeword by codeword (spec 4.3, 7.2.3 *)
(* floor 1 packet decode, 8.6.2 residue packet decode; lib/mapping0.c      *)
(* mapping0_inverse, lib/floor1.c floor1_inverse1, lib/res0.c _01inverse / *)
(* res2_inverse).  The READING ORDER is what is transcribed here: which    *)
(* codebook is consulted when.  A packet is produced by walking that order *)
(* and spelling, for every codeword the decoder will ask for, a chosen     *)
(* entry; a decoder that walks the same order consumes exactly the bits    *)
(* written.  Books are referenced by their 0-based index in the set-up.    *)
(***************************************************************************)
EXTENDS Setup, Codebook, Floor1

Word(s, book, entry) == LET b == s.books[book + 1] cw == Codewords(b.lens) IN WordBits(cw[entry].w, b.lens[entry])
UsedEntries(b) == { j \in 1..Len(b.lens) : b.lens[j] > 0 }
\* a deterministic pseudo-random choice of a used entry of a book
Pick(s, book, salt) == LET b == s.books[book + 1] U == UsedEntries(b) n == Cardinality(U) k == salt % n
                       IN CHOOSE a \in U : Cardinality({ x \in U : x < a }) = k

QBits(f) == ILog((CASE f.mult = 1 -> 256 [] f.mult = 2 -> 128 [] f.mult = 3 -> 86 [] OTHER -> 64) - 1)
\* floor 1, channel in use.  The choices first: the class codeword value of every partition and the raw value of every post
\* (entry numbers are 1-based in the model, the value a scalar codebook yields is entry - 1)
F1Cval(s, f, i, salt) == LET c == f.parts[i] + 1 IN IF f.csubs[c] > 0 THEN Pick(s, f.cbook[c], salt + i) - 1 ELSE 0
F1Sub(s, f, i, j, salt) == LET c == f.parts[i] + 1 IN f.csub[c][1 + ((F1Cval(s, f, i, salt) \div IPow(Pow2(f.csubs[c]), j - 1)) % Pow2(f.csubs[c]))]
F1Entry(s, f, i, j, salt) == Pick(s, F1Sub(s, f, i, j, salt), salt + 5 * i + j)
Floor1Raw(s, f, salt) ==
  << (17 + salt) % 64, (40 + 3 * salt) % 64 >> \o
  Cat([i \in 1..Len(f.parts) |-> [j \in 1..f.cdim[f.parts[i] + 1] |-> IF F1Sub(s, f, i, j, salt) >= 0 THEN F1Entry(s, f, i, j, salt) - 1 ELSE 0]])
\* ... then the bits: flag, two end posts, per partition the class codeword (if the class has sub-classes) and one codeword per post that has a book
Floor1Bits(s, f, salt) ==
  << <<1, 1>>, <<(17 + salt) % 64, QBits(f)>>, <<(40 + 3 * salt) % 64, QBits(f)>> >> \o
  Cat([i \in 1..Len(f.parts) |->
        LET c == f.parts[i] + 1 IN
        (IF f.csubs[c] > 0 THEN Word(s, f.cbook[c], F1Cval(s, f, i, salt) + 1) ELSE <<>>) \o
        Cat([j \in 1..f.cdim[c] |-> IF F1Sub(s, f, i, j, salt) >= 0 THEN Word(s, F1Sub(s, f, i, j, salt), F1Entry(s, f, i, j, salt)) ELSE <<>>])])
\* what the decoder must make of it: the posts after unwrapping (unused posts carry the flag 32768) and the table index at every bin
F1X(f) == <<0, Pow2(f.rb)>> \o f.posts
Floor1Fit(s, f, salt) == LET u == Unwrap(F1X(f), Floor1Raw(s, f, salt), f.mult) IN [i \in 1..Len(u.Y) |-> IF u.U[i] THEN u.Y[i] ELSE u.Y[i] + 32768]
Floor1Curve(s, f, salt, n) == LET u == Unwrap(F1X(f), Floor1Raw(s, f, salt), f.mult) IN Curve(F1X(f), u.Y, u.U, f.mult, n)

\* residue: number of partitions to read and classification words
PartVals(r, halfblock, nch) == LET mx == IF r.type = 2 THEN halfblock * nch ELSE halfblock
                                   en == IF r.end < mx THEN r.end ELSE mx
                                   n == en - r.begin IN IF n > 0 THEN n \div r.psize ELSE 0
Stages(r) == LET S == { ILog(r.cascade[j]) : j \in 1..Len(r.cascade) } IN CHOOSE m \in S : \A x \in S : x <= m
\* the book of class c (1-based) at stage st (0-based): position in rbooks = number of cascade bits before it
StageBook(r, c, st) == r.rbooks[1 + SumSeq([j \in 1..(c - 1) |-> BitCount(r.cascade[j])]) + BitCount(r.cascade[c] % Pow2(st))]
HasStage(r, c, st) == (r.cascade[c] \div Pow2(st)) % 2 = 1
\* class chosen for partition i (0-based) of channel j (0-based)
Cls(r, i, j, salt) == 1 + ((i + 2 * j + salt) % r.nclass)
\* the classification word of group l for channel j: digits most significant first
ClassWord(r, dimG, l, j, pv, salt) ==
  1 + SumSeq([k \in 1..dimG |-> (IF l * dimG + (k - 1) < pv THEN Cls(r, l * dimG + (k - 1), j, salt) - 1 ELSE 0) * IPow(r.nclass, dimG - k)])
ResidueBits(s, r, halfblock, nch, salt) ==
  LET dimG == s.books[r.gbook + 1].dim
      chans == IF r.type = 2 THEN 1 ELSE nch
      pv == PartVals(r, halfblock, nch)
      groups == (pv + dimG - 1) \div dimG
  IN Cat([st1 \in 1..Stages(r) |->
       Cat([l1 \in 1..groups |->
         LET st == st1 - 1  l == l1 - 1 IN
         (IF st = 0 THEN Cat([j1 \in 1..chans |-> Word(s, r.gbook, ClassWord(r, dimG, l, j1 - 1, pv, salt))]) ELSE <<>>) \o
         Cat([k1 \in 1..dimG |->
           LET k == k1 - 1 IN
           IF l * dimG + k < pv
           THEN Cat([j1 \in 1..chans |->
                  LET jj == j1 - 1  c == Cls(r, l * dimG + k, jj, salt) IN
                  IF HasStage(r, c, st)
                  THEN LET bk == StageBook(r, c, st) d == s.books[bk + 1].dim  nvec == IF r.type = 0 THEN r.psize \div d ELSE (r.psize + d - 1) \div d   \* type 0 interleaves whole vectors only; 1 and 2 read until the partition is full
                       IN Cat([v \in 1..nvec |-> Word(s, bk, Pick(s, bk, salt + 5 * (l * dimG + k) + 11 * jj + 13 * v + st))])
                  ELSE <<>>])
           ELSE <<>>])])])

\* a whole packet in which every channel uses its floor and the residue is decoded; one submap only (the generator's shapes), mapping 0
FullPacket(s, mode, lw, nw, salt) ==
  LET m == s.maps[s.modes[mode + 1].map + 1]
      f == s.floors[m.sfloor[1] + 1]
      r == s.residues[m.sres[1] + 1]
      half == Pow2(IF s.modes[mode + 1].bf = 1 THEN s.e1 ELSE s.e0) \div 2
  IN << <<0, 1>>, <<mode, ILog(Len(s.modes) - 1)>> >> \o
     (IF s.modes[mode + 1].bf = 1 THEN << <<lw, 1>>, <<nw, 1>> >> ELSE <<>>) \o
     Cat([c \in 1..s.ch |-> Floor1Bits(s, f, salt + c)]) \o
     ResidueBits(s, r, half, s.ch, salt)
=============================================================================

---------------------------- MODULE AudioPacket ----------------------------
(***************************************************************************)
(* Audio packets of Vorbis I written codeword by codeword (spec 4.3, 7.2.3 *)
(* floor 1 packet decode, 8.6.2 residue packet decode; lib/mapping0.c      *)
(* mapping0_inverse, lib/floor1.c floor1_inverse1, lib/res0.c _01inverse / *)
(* res2_inverse).  The READING ORDER is what is transcribed here: which    *)
(* codebook is consulted when.  A packet is produced by walking that order *)
(* and spelling, for every codeword the decoder will ask for, a chosen     *)
(* entry; a decoder that walks the same order consumes exactly the bits    *)
(* written.  Books are referenced by their 0-based index in the set-up.    *)
(***************************************************************************)
EXTENDS Setup, Codebook, Floor1, DbTable

\* (a set-up may carry the codeword tables of its books in a field cw, computed once by the generator)
Word(s, book, entry) == LET b == s.books[book + 1] cw == IF "cw" \in DOMAIN s THEN s.cw[book + 1] ELSE Codewords(b.lens) IN WordBits(cw[entry].w, b.lens[entry])
UsedEntries(b) == { j \in 1..Len(b.lens) : b.lens[j] > 0 }
\* a deterministic pseudo-random choice of a used entry of a book
Pick(s, book, salt) == LET b == s.books[book + 1] U == UsedEntries(b) n == Cardinality(U) k == salt % n
                       IN CHOOSE a \in U : Cardinality({ x \in U : x < a }) = k

QBits(f) == ILog((CASE f.mult = 1 -> 256 [] f.mult = 2 -> 128 [] f.mult = 3 -> 86 [] OTHER -> 64) - 1)
\* floor 1, channel in use.  The choices first: the class codeword value of every partition and the raw value of every post
\* (entry numbers are 1-based in the model, the value a scalar codebook yields is entry - 1)
F1Cval(s, f, i, salt) == LET c == f.parts[i] + 1 IN IF f.csubs[c] > 0 THEN Pick(s, f.cbook[c], salt + i) - 1 ELSE 0
F1Sub(s, f, i, j, salt) == LET c == f.parts[i] + 1 IN f.csub[c][1 + ((F1Cval(s, f, i, salt) \div IPow(Pow2(f.csubs[c]), j - 1)) % Pow2(f.csubs[c]))]
F1Entry(s, f, i, j, salt) == Pick(s, F1Sub(s, f, i, j, salt), salt + 5 * i + j)
Floor1Raw(s, f, salt) ==
  << (17 + salt) % 64, (40 + 3 * salt) % 64 >> \o
  Cat([i \in 1..Len(f.parts) |-> [j \in 1..f.cdim[f.parts[i] + 1] |-> IF F1Sub(s, f, i, j, salt) >= 0 THEN F1Entry(s, f, i, j, salt) - 1 ELSE 0]])
\* ... then the bits: flag, two end posts, per partition the class codeword (if the class has sub-classes) and one codeword per post that has a book
Floor1Bits(s, f, salt) ==
  << <<1, 1>>, <<(17 + salt) % 64, QBits(f)>>, <<(40 + 3 * salt) % 64, QBits(f)>> >> \o
  Cat([i \in 1..Len(f.parts) |->
        LET c == f.parts[i] + 1 IN
        (IF f.csubs[c] > 0 THEN Word(s, f.cbook[c], F1Cval(s, f, i, salt) + 1) ELSE <<>>) \o
        Cat([j \in 1..f.cdim[c] |-> IF F1Sub(s, f, i, j, salt) >= 0 THEN Word(s, F1Sub(s, f, i, j, salt), F1Entry(s, f, i, j, salt)) ELSE <<>>])])
\* what the decoder must make of it: the posts after unwrapping (unused posts carry the flag 32768) and the table index at every bin
F1X(f) == <<0, Pow2(f.rb)>> \o f.posts
Floor1Fit(s, f, salt) == LET u == Unwrap(F1X(f), Floor1Raw(s, f, salt), f.mult) IN [i \in 1..Len(u.Y) |-> IF u.U[i] THEN u.Y[i] ELSE u.Y[i] + 32768]
Floor1Curve(s, f, salt, n) == LET u == Unwrap(F1X(f), Floor1Raw(s, f, salt), f.mult) IN Curve(F1X(f), u.Y, u.U, f.mult, n)

\* floor 0, channel in use (spec 6.2.2): amplitude, book number, then ceil(order / dim) vectors of that book (the LSP coefficients; their values are float
\* arithmetic and not modelled, the reading order is)
Floor0Bits(s, f, salt) ==
  LET nb == Len(f.fbooks)  bn == salt % nb  bk == f.fbooks[bn + 1]  d == s.books[bk + 1].dim  nvec == (f.order + d - 1) \div d
      amp == 1 + (salt % (Pow2(f.ampbits) - 1))
  IN << <<amp, f.ampbits>>, <<bn, ILog(nb)>> >> \o Cat([v \in 1..nvec |-> Word(s, bk, Pick(s, bk, salt + 7 * v))])
FloorBits(s, f, salt) == IF f.type = 0 THEN Floor0Bits(s, f, salt) ELSE Floor1Bits(s, f, salt)
FloorUnused(f) == IF f.type = 0 THEN << <<0, f.ampbits>> >> ELSE << <<0, 1>> >>
\* residue: number of partitions to read and classification words
PartVals(r, halfblock, nch) == LET mx == IF r.type = 2 THEN halfblock * nch ELSE halfblock
                                   en == IF r.end < mx THEN r.end ELSE mx
                                   n == en - r.begin IN IF n > 0 THEN n \div r.psize ELSE 0
Stages(r) == LET S == { ILog(r.cascade[j]) : j \in 1..Len(r.cascade) } IN CHOOSE m \in S : \A x \in S : x <= m
\* the book of class c (1-based) at stage st (0-based): position in rbooks = number of cascade bits before it
StageBook(r, c, st) == r.rbooks[1 + SumSeq([j \in 1..(c - 1) |-> BitCount(r.cascade[j])]) + BitCount(r.cascade[c] % Pow2(st))]
HasStage(r, c, st) == (r.cascade[c] \div Pow2(st)) % 2 = 1
\* class chosen for partition i (0-based) of channel j (0-based)
Cls(r, i, j, salt) == 1 + ((i + 2 * j + salt) % r.nclass)
\* the classification word of group l for channel j: digits most significant first
ClassWord(r, dimG, l, j, pv, salt) ==
  1 + SumSeq([k \in 1..dimG |-> (IF l * dimG + (k - 1) < pv THEN Cls(r, l * dimG + (k - 1), j, salt) - 1 ELSE 0) * IPow(r.nclass, dimG - k)])
\* nch = channels of the submap (the interleave width of residue 2); chans = vectors that are actually read: for residue 0 / 1 the channels of the
\* submap that are to be decoded, in order; for residue 2 one (the interleave) if any channel is to be decoded, none otherwise
ResidueBits(s, r, halfblock, nch, chans, salt) ==
  LET dimG == s.books[r.gbook + 1].dim
      pv == PartVals(r, halfblock, nch)
      groups == (pv + dimG - 1) \div dimG
  IN Cat([st1 \in 1..Stages(r) |->
       Cat([l1 \in 1..groups |->
         LET st == st1 - 1  l == l1 - 1 IN
         (IF st = 0 THEN Cat([j1 \in 1..chans |-> Word(s, r.gbook, ClassWord(r, dimG, l, j1 - 1, pv, salt))]) ELSE <<>>) \o
         Cat([k1 \in 1..dimG |->
           LET k == k1 - 1 IN
           IF l * dimG + k < pv
           THEN Cat([j1 \in 1..chans |->
                  LET jj == j1 - 1  c == Cls(r, l * dimG + k, jj, salt) IN
                  IF HasStage(r, c, st)
                  THEN LET bk == StageBook(r, c, st) d == s.books[bk + 1].dim  nvec == IF r.type = 0 THEN r.psize \div d ELSE (r.psize + d - 1) \div d   \* type 0 interleaves whole vectors only; 1 and 2 read until the partition is full
                       IN Cat([v \in 1..nvec |-> Word(s, bk, Pick(s, bk, salt + 5 * (l * dimG + k) + 11 * jj + 13 * v + st))])
                  ELSE <<>>])
           ELSE <<>>])])])

(* ---- residue VALUES (spec 3.2.1 VQ lookup, 8.6.2-8.6.5 partition decode, 4.3.5 inverse coupling), on the integers the generated books hold ---- *)
\* the vector of entry e (1-based) of a value book: lattice (lookup type 1) or explicit (type 2), with or without sequence mode
RECURSIVE VQ(_, _, _, _, _, _, _)
VQ(b, lo, i, last, div, lv, lim) ==
  IF i > b.dim \/ i > lim THEN <<>>
  ELSE LET m == IF b.maptype = 1 THEN b.quant[((lo \div div) % lv) + 1] ELSE b.quant[lo * b.dim + i]
           v == m * Unpacked(b.qdelta) + Unpacked(b.qmin) + last
       IN <<v>> \o VQ(b, lo, i + 1, IF b.qseq = 1 THEN v ELSE 0, IF div > lo THEN div ELSE div * lv, lv, lim)
\* (only the first lim components: a partition never uses more than its own size)
BookVec(b, e, lim) == VQ(b, e - 1, 1, 0, 1, IF b.maptype = 1 THEN QuantVals1(b.entries, b.dim) ELSE 1, lim)
\* what stage st adds to partition p of channel j (0-based; residue 2: j = 0 and the vector is the interleave of all channels): psize values
StageVec(s, r, salt, j, p, st) ==
  LET c == Cls(r, p, j, salt) IN
  IF ~HasStage(r, c, st) THEN [x \in 1..r.psize |-> 0]
  ELSE LET bk == StageBook(r, c, st)  b == s.books[bk + 1]  d == b.dim IN
       IF r.type = 0
       THEN LET step == r.psize \div d                                               \* format 0: whole vectors only, component k of vector i at i + k * step
                vecs == [i \in 1..step |-> BookVec(b, Pick(s, bk, salt + 5 * p + 11 * j + 13 * i + st), r.psize)]
            IN [x \in 1..r.psize |-> IF step = 0 \/ x - 1 >= step * d THEN 0 ELSE vecs[((x - 1) % step) + 1][((x - 1) \div step) + 1]]
       ELSE LET nvec == (r.psize + d - 1) \div d                                      \* format 1: consecutive, the last vector cut at the partition end
                vecs == [v \in 1..nvec |-> BookVec(b, Pick(s, bk, salt + 5 * p + 11 * j + 13 * v + st), r.psize)]
            IN [x \in 1..r.psize |-> vecs[((x - 1) \div d) + 1][((x - 1) % d) + 1]]
RECURSIVE AddStages(_, _, _, _, _, _)
AddStages(s, r, salt, j, p, st) == IF st < 0 THEN [x \in 1..r.psize |-> 0]
                                   ELSE LET a == AddStages(s, r, salt, j, p, st - 1)  v == StageVec(s, r, salt, j, p, st) IN [x \in 1..r.psize |-> a[x] + v[x]]
\* the whole vector of channel j, n values: zeros before begin, the partitions, zeros behind
ResVector(s, r, salt, j, pv, n) ==
  LET parts == [p1 \in 1..pv |-> AddStages(s, r, salt, j, p1 - 1, Stages(r) - 1)] IN
  [y1 \in 1..n |-> LET y == y1 - 1 IN IF y < r.begin \/ y >= r.begin + pv * r.psize THEN 0 ELSE parts[((y - r.begin) \div r.psize) + 1][((y - r.begin) % r.psize) + 1]]
\* dec[b] = channel b of the submap is to be decoded; residue 0 / 1 number the decoded channels 0, 1, ... in order
ResidueVals(s, r, half, nch, dec, salt) ==
  LET pv == PartVals(r, half, nch)
      zero == [x \in 1..half |-> 0]
      rank(b) == Cardinality({ a \in 1..(b - 1) : dec[a] }) IN
  IF r.type = 2 THEN IF \A b \in 1..nch : ~dec[b] THEN [j \in 1..nch |-> zero]
                     ELSE LET big == ResVector(s, r, salt, 0, pv, half * nch) IN [j \in 1..nch |-> [x \in 1..half |-> big[(x - 1) * nch + j]]]
  ELSE [j \in 1..nch |-> IF dec[j] THEN ResVector(s, r, salt, rank(j), pv, half) ELSE zero]
\* inverse coupling, steps in reverse order; cp = sequence of <<magnitude channel, angle channel>> (0-based)
CoupleBin(m, a) == IF m > 0 THEN (IF a > 0 THEN <<m, m - a>> ELSE <<m + a, m>>) ELSE (IF a > 0 THEN <<m, m + a>> ELSE <<m - a, m>>)
RECURSIVE Decouple(_, _, _)
Decouple(vals, cp, i) ==
  IF i = 0 THEN vals
  ELSE LET M == cp[i][1] + 1  A == cp[i][2] + 1
           nv == [j \in 1..Len(vals) |-> [x \in 1..Len(vals[j]) |-> IF j = M THEN CoupleBin(vals[M][x], vals[A][x])[1] ELSE IF j = A THEN CoupleBin(vals[M][x], vals[A][x])[2] ELSE vals[j][x]]]
       IN Decouple(nv, cp, i - 1)

(* ---- floor curve times residue (spec 7.2.4 step 2 / 4.3.6): the single-precision product of a table entry m * 2^e and a small integer r ---- *)
\* number of bits of p (p >= 1)
RECURSIVE BitLen(_)
BitLen(p) == IF p = 0 THEN 0 ELSE 1 + BitLen(p \div 2)
\* IEEE-754 single precision, round to nearest even: [sign, biased exponent, 23-bit mantissa]; |r| < 128 so that r * m fits 31 bits
FMul(me, r) ==
  IF r = 0 THEN <<0, 0, 0>>
  ELSE LET a == IF r < 0 THEN -r ELSE r
           p == a * me[1]
           k == BitLen(p) - 24                                         \* p >= 2^23, so k >= 0
           q0 == p \div Pow2(k)  rem == p % Pow2(k)
           up == k > 0 /\ (2 * rem > Pow2(k) \/ (2 * rem = Pow2(k) /\ q0 % 2 = 1))
           q1 == IF up THEN q0 + 1 ELSE q0
           q == IF q1 = 16777216 THEN 8388608 ELSE q1
           ex == me[2] + k + (IF q1 = 16777216 THEN 1 ELSE 0)
       IN << IF r < 0 THEN 1 ELSE 0, ex + 150, q - 8388608 >>

(* ---- a whole packet: per-channel floor flags, any number of submaps, floor 0 or 1 (spec 4.3.2 - 4.3.5) ---- *)
SubmapOf(m, c) == IF m.submaps > 1 THEN m.mux[c] ELSE 0                               \* channel c (1-based) -> submap (0-based)
BundleOf(s, m, sm) == SelectSeq([c \in 1..s.ch |-> c], LAMBDA c : SubmapOf(m, c) = sm)   \* the channels of a submap in order
\* which channels decode residue: those whose floor is in use, spread over the coupling steps in order ("nonzero vector propagate")
RECURSIVE Spread(_, _, _)
Spread(nz, cp, i) == IF i > Len(cp) THEN nz
                     ELSE LET M == cp[i][1] + 1  A == cp[i][2] + 1 IN Spread(IF nz[M] \/ nz[A] THEN [nz EXCEPT ![M] = TRUE, ![A] = TRUE] ELSE nz, cp, i + 1)
Decoded(s, m, fl) == Spread([c \in 1..s.ch |-> fl[c] = 1], m.coupling, 1)
HalfBlock(s, mode) == Pow2(IF s.modes[mode + 1].bf = 1 THEN s.e1 ELSE s.e0) \div 2
FullPacket(s, mode, lw, nw, salt, fl) ==
  LET m == s.maps[s.modes[mode + 1].map + 1]
      half == HalfBlock(s, mode)
      dec == Decoded(s, m, fl)
  IN << <<0, 1>>, <<mode, ILog(Len(s.modes) - 1)>> >> \o
     (IF s.modes[mode + 1].bf = 1 THEN << <<lw, 1>>, <<nw, 1>> >> ELSE <<>>) \o
     Cat([c \in 1..s.ch |-> LET f == s.floors[m.sfloor[SubmapOf(m, c) + 1] + 1] IN IF fl[c] = 1 THEN FloorBits(s, f, salt + c) ELSE FloorUnused(f)]) \o
     Cat([sm1 \in 1..m.submaps |->
       LET B == BundleOf(s, m, sm1 - 1)  r == s.residues[m.sres[sm1] + 1]  nd == Cardinality({ b \in 1..Len(B) : dec[B[b]] })
       IN ResidueBits(s, r, half, Len(B), IF r.type = 2 THEN (IF nd > 0 THEN 1 ELSE 0) ELSE nd, salt + 100 * (sm1 - 1))])
\* the spectral vectors of all channels after residue decode, and after inverse coupling
PacketResidue(s, mode, salt, fl) ==
  LET m == s.maps[s.modes[mode + 1].map + 1]
      half == HalfBlock(s, mode)
      dec == Decoded(s, m, fl)
      per == [sm1 \in 1..m.submaps |-> LET B == BundleOf(s, m, sm1 - 1) IN ResidueVals(s, s.residues[m.sres[sm1] + 1], half, Len(B), [b \in 1..Len(B) |-> dec[B[b]]], salt + 100 * (sm1 - 1))]
  IN [c \in 1..s.ch |-> LET sm1 == SubmapOf(m, c) + 1  B == BundleOf(s, m, sm1 - 1)  b == CHOOSE k \in 1..Len(B) : B[k] = c IN per[sm1][b]]
\* the spectrum after the floor curve has been applied: per channel a sequence of float fields; <<>> for a channel whose floor is of type 0 (its curve is
\* float arithmetic and not modelled); a channel whose floor is unused is silent
PacketProduct(s, mode, salt, fl) ==
  LET m == s.maps[s.modes[mode + 1].map + 1]  half == HalfBlock(s, mode)
      cv == Decouple(PacketResidue(s, mode, salt, fl), m.coupling, Len(m.coupling))
  IN [c \in 1..s.ch |->
        LET f == s.floors[m.sfloor[SubmapOf(m, c) + 1] + 1] IN
        IF fl[c] = 0 THEN [x \in 1..half |-> <<0, 0, 0>>]
        ELSE IF f.type # 1 THEN <<>>
        ELSE LET yc == Floor1Curve(s, f, salt + c, half) IN [x \in 1..half |-> FMul(DbTable[yc[x] + 1], cv[c][x])]]
PacketSpectrum(s, mode, salt, fl) == LET m == s.maps[s.modes[mode + 1].map + 1] IN Decouple(PacketResidue(s, mode, salt, fl), m.coupling, Len(m.coupling))
=============================================================================

---------------------------- MODULE VFApi_Trace ----------------------------
(***************************************************************************)
(* Trace validation of recorded vorbisfile executions against VFApi.       *)
(* One ndjson line = one event = one step.  Every rule of VFApi is         *)
(* evaluated at every step; violated rule names are printed (VIOL lines)   *)
(* and the abstract state is re-synchronised to the observation so that    *)
(* the rest of the trace is still checked.                                 *)
(***************************************************************************)
EXTENDS VFApi, Json, IOUtils

Tr == ndJsonDeserialize(IOEnv.TRACE)

VARIABLES l,        \* next line of Tr
          hst,      \* handle -> abstract handle state
          fidx,     \* file id -> index in Tr of its Stream event (0 = unknown)
          scn,      \* index of the Reset line of the running scenario
          nviol,    \* violations so far
          nbl       \* reads so far in which the content of a lapped region was judged (LapBlendAsSpecified evaluated, not vacuous)
vars == <<l, hst, fidx, scn, nviol, nbl>>

Handles == 0..3
FileIds == 0..63
NoFile == [nl |-> 0, total |-> 0, damaged |-> TRUE, links |-> <<>>, pb |-> <<>>, len |-> 0]
FileOf(fi, f) == IF f \in FileIds /\ fi[f] > 0 THEN Tr[fi[f]] ELSE NoFile
HF(h) == FileOf(fidx, hst[h].f)

Report(rules, e) ==
  IF rules = {} THEN TRUE
  ELSE PrintT("VIOL " \o ToJson([line |-> l, scn |-> Tr[scn].scn, ev |-> e.e, rules |-> rules]))

Init == /\ l = 1 /\ hst = [h \in Handles |-> InitHandle] /\ fidx = [f \in FileIds |-> 0] /\ scn = 1 /\ nviol = 0 /\ nbl = 0

\* C10: the same call history under another schedule of the read callback.  An event marked tw repeats, on a twin handle whose
\* callback delivers other sizes, the call recorded on the line before; on an intact file the two must answer alike in everything
\* the property speaks of: same code, same sample position, and for reads the same samples (position of the chunk, identity, count,
\* link index, channels).  The byte cursor (ov_raw_tell) and the internal decode state are NOT compared: behind the last page of a
\* link the cursor stands wherever the last read of the callback ended, and a handle exactly on a link boundary may or may not have
\* entered the next link yet - both seen in the thorough tier, neither is audio (false alarm corrected, DESIGN.md).
TwinFields == {"ret", "tell", "tella", "ta", "id", "mf", "bs", "ch", "frames", "pt", "ttms", "hs"}
TwinRule(e) ==
  IF "tw" \in DOMAIN e /\ l > 1 /\ "h" \in DOMAIN e /\ Strict(hst[e.h], HF(e.h))
  THEN LET p == Tr[l - 1] IN
       IF p.e = e.e /\ \A k \in TwinFields : (k \in DOMAIN e <=> k \in DOMAIN p) /\ (k \in DOMAIN e => e[k] = p[k])
       THEN {} ELSE {"SameUnderAnyReadSchedule"}
  ELSE {}

Step(rules0, e, h2) ==
  LET rules == rules0 \cup TwinRule(e) IN
  /\ Report(rules, e)
  /\ nbl' = nbl + (IF e.e = "ReadF" /\ BlendJudged(hst[e.h], HF(e.h), e) THEN 1 ELSE 0)
  /\ (e.e = "End" => PrintT("STAT " \o ToJson([nbl |-> nbl])))
  /\ nviol' = nviol + Cardinality(rules)
  /\ hst' = h2
  /\ l' = l + 1

\* short block size of the link a handle is in (0 when no stream description was logged for its file: damaged-file families)
HalfBs0(F, s) == LET k == LinkOf(F, s.pos) IN IF k \in 1..Len(F.links) THEN Shr(F.links[k].bs0, s.hs) ELSE 0
\* ... of the link whose decode state the handle is in after the call (cur, 0-based, -1 = none): a handle exactly on a link boundary is still in the link that ends there
HalfBs0At(F, s, cur) == IF cur + 1 \in 1..Len(F.links) THEN Shr(F.links[cur + 1].bs0, s.hs) ELSE HalfBs0(F, s)
Next ==
  /\ l <= Len(Tr)
  /\ LET e == Tr[l] IN
     CASE e.e = "Reset" ->
            /\ hst' = [h \in Handles |-> InitHandle] /\ fidx' = [f \in FileIds |-> 0] /\ scn' = l /\ l' = l + 1 /\ UNCHANGED <<nviol, nbl>>
       [] e.e = "Stream" ->
            /\ fidx' = [fidx EXCEPT ![e.f] = l] /\ l' = l + 1 /\ UNCHANGED <<hst, scn, nviol, nbl>>
       [] e.e = "Open" ->
            LET F == FileOf(fidx, e.f) IN
            /\ Step(ChkOpen(hst[e.h], F, e), e, [hst EXCEPT ![e.h] = NxtOpen(@, F, e)]) /\ UNCHANGED <<fidx, scn>>
       [] e.e = "ReadF" ->
            /\ Step(ChkReadF(hst[e.h], HF(e.h), e), e, [hst EXCEPT ![e.h] = NxtRead(@, HF(e.h), e, e.ret)]) /\ UNCHANGED <<fidx, scn>>
       [] e.e = "ReadI" ->
            LET n == IF e.ret > 0 THEN e.frames ELSE 0 IN
            /\ Step(ChkReadI(hst[e.h], HF(e.h), e, n), e, [hst EXCEPT ![e.h] = NxtReadI(@, HF(e.h), e, n)]) /\ UNCHANGED <<fidx, scn>>
       [] e.e \in SeekKinds ->
            LET F == HF(e.h) IN
            /\ Step(ChkSeek(hst[e.h], F, e.e, e, F.len), e, [hst EXCEPT ![e.h] = NxtSeek(@, F, e.e, e, F.len)]) /\ UNCHANGED <<fidx, scn>>
       [] e.e = "HalfRate" ->
            /\ Step(ChkHalfRate(hst[e.h], HF(e.h), e), e, [hst EXCEPT ![e.h] = NxtHalfRate(@, HF(e.h), e)]) /\ UNCHANGED <<fidx, scn>>
       [] e.e = "Crosslap" ->
            LET s1 == hst[e.h1]  s2 == hst[e.h2]  F1 == HF(e.h1)  F2 == HF(e.h2) IN
            /\ Step(ChkCrosslap(s1, F1, s2, F2, e), e,
                    [hst EXCEPT ![e.h1] = [@ EXCEPT !.pos = IF s1.pos >= 0 /\ s1.sk /\ e.t11 >= 0 /\ (e.ret = 0 \/ e.t11 = s1.pos) THEN e.t11 ELSE -1,
                                                    \* what the call took for the lap comes off a lapped region this handle still had in front of it
                                                    !.lap = IF s1.pos >= 0 /\ e.t11 >= s1.pos /\ s1.lap > e.t11 - s1.pos THEN s1.lap - (e.t11 - s1.pos) ELSE 0],
                                \* the lap region of the second handle: min of the two half short blocks (at most its own when the first position is unknown)
                                \* (samples still pending from an EARLIER lap of this handle stay altered: the region does not shrink)
                                ![e.h2] = [@ EXCEPT !.lap = LET new == IF e.ret = 0 /\ s2.pos >= 0 /\ s2.open
                                                                      THEN (IF s1.pos >= 0 /\ s1.open
                                                                            THEN Min({HalfBs0At(F1, s1, IF "cur11" \in DOMAIN e THEN e.cur11 ELSE -1), HalfBs0At(F2, s2, e.cur)})
                                                                            ELSE HalfBs0At(F2, s2, e.cur)) \div 2
                                                                      ELSE 0
                                                          IN IF e.tell = s2.pos /\ s2.lap > new THEN s2.lap ELSE new,
                                                    \* is the content of that region decided (VFApi.BlendDecided)?  Not when an earlier region of this handle is still pending.
                                                    !.bl = LET c1 == IF "cur11" \in DOMAIN e THEN e.cur11 ELSE -1
                                                               n == Min({HalfBs0At(F1, s1, c1), HalfBs0At(F2, s2, e.cur)}) \div 2
                                                           IN e.ret = 0 /\ s1.open /\ s2.open /\ s2.lap = 0 /\ s2.pos >= 0 /\ s1.sk /\ s2.sk
                                                              /\ BlendDecided(s1, F1, c1 + 1, s2, F2, e.cur + 1, n, s2.pos, e),
                                                    !.pos = IF e.ret = 0 \/ e.tell = s2.pos THEN @ ELSE -1]])
            /\ UNCHANGED <<fidx, scn>>
       [] e.e = "Tell" ->
            /\ Step(ChkTell(hst[e.h], HF(e.h), e), e, hst) /\ UNCHANGED <<fidx, scn>>
       [] e.e = "Query" ->
            /\ Step(ChkQuery(hst[e.h], HF(e.h), e), e, hst) /\ UNCHANGED <<fidx, scn>>
       [] e.e = "Clear" ->
            /\ Step(ChkClear(hst[e.h], e), e, [hst EXCEPT ![e.h] = NxtClear(@, e)]) /\ UNCHANGED <<fidx, scn>>
       [] e.e = "Fault" ->
            \* kind 3 (one byte per read) is ordinary short-read behaviour: the full promise still applies
            /\ hst' = [hst EXCEPT ![e.h] = [@ EXCEPT !.faulted = (e.kind # 3), !.fk = e.kind]] /\ l' = l + 1 /\ UNCHANGED <<fidx, scn, nviol, nbl>>
       [] e.e = "FaultOff" ->
            \* position is unknown after faults; the next successful seek re-establishes the full promise
            /\ hst' = [hst EXCEPT ![e.h] = [@ EXCEPT !.faulted = FALSE, !.pos = IF hst[e.h].faulted /\ e.fired > 0 THEN -1 ELSE @, !.lap = IF hst[e.h].faulted /\ e.fired > 0 THEN 0 ELSE @]]
            /\ l' = l + 1 /\ UNCHANGED <<fidx, scn, nviol, nbl>>
       [] e.e = "End" ->
            /\ Step((IF e.openleft = 0 /\ e.live # 0 THEN {"ClearReleasesEverything"} ELSE {}), e, hst) /\ UNCHANGED <<fidx, scn>>
       [] e.e = "Crash" -> /\ Step({"NoCrash"}, e, hst) /\ UNCHANGED <<fidx, scn>>
       [] e.e = "Hang"  -> /\ Step({"CallsTerminate"}, e, hst) /\ UNCHANGED <<fidx, scn>>
       [] e.e = "Exit"  -> /\ Step({"LibraryNeverExits"}, e, hst) /\ UNCHANGED <<fidx, scn>>
       [] e.e \in {"CbRead","CbSeek","CbTell","CbClose","LinkFail","Note","Pages"} ->
            /\ l' = l + 1 /\ UNCHANGED <<hst, fidx, scn, nviol, nbl>>
       [] OTHER -> /\ Step({"UnknownEvent"}, e, hst) /\ UNCHANGED <<fidx, scn>>

Spec == Init /\ [][Next]_vars

\* design-level sanity of the abstract state, evaluated at every step of every trace
TypeOK == /\ \A h \in Handles : hst[h].lap >= 0 /\ hst[h].pos >= -1 /\ hst[h].hs \in {0,1} /\ hst[h].closes >= 0
PosInFile == \A h \in Handles : Strict(hst[h], HF(h)) /\ ~Loose(hst[h], HF(h)) /\ hst[h].pos >= 0 /\ hst[h].sk /\ nviol = 0 => hst[h].pos <= HF(h).total + hst[h].hs

Accepted == TLCGet("stats").diameter = Len(Tr) + 1
=============================================================================

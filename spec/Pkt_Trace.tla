----------------------------- MODULE Pkt_Trace -----------------------------
(***************************************************************************)
(* Trace validation of recorded packet-level decoder executions (harness   *)
(* pdh) against PktDec / Block.  One ndjson line = one step.               *)
(***************************************************************************)
EXTENDS PktDec, TLC, Json, IOUtils
Tr == ndJsonDeserialize(IOEnv.TRACE)
Slots == 0..3
VARIABLES l, scn, nviol, ndrift, ds
vars == <<l, scn, nviol, ndrift, ds>>

Report(kind, rules, e) ==
  IF rules = {} THEN TRUE
  ELSE PrintT(kind \o " " \o ToJson([line |-> l, scn |-> Tr[scn].scn, ev |-> e.e, rules |-> rules]))
Init == l = 1 /\ scn = 1 /\ nviol = 0 /\ ndrift = 0 /\ ds = [x \in Slots |-> InitDec]
Step(rules, drift, e, d2) ==
  /\ Report("VIOL", rules, e) /\ Report("DRIFT", drift, e)
  /\ nviol' = nviol + Cardinality(rules) /\ ndrift' = ndrift + Cardinality(drift)
  /\ ds' = d2 /\ l' = l + 1 /\ UNCHANGED scn
Upd(x, s1) == [ds EXCEPT ![x] = s1]
Quiet == {"Skip", "Note", "LinkFail", "BlockClear", "DspClear", "CommentClear"}

Next ==
  /\ l <= Len(Tr)
  /\ LET e == Tr[l] IN
     CASE e.e = "Reset" -> /\ scn' = l /\ l' = l + 1 /\ ds' = [x \in Slots |-> InitDec] /\ UNCHANGED <<nviol, ndrift>>
       [] e.e = "PNew" -> Step({}, {}, e, Upd(e.d, [InitDec EXCEPT !.live = TRUE, !.B = <<e.bs0, e.bs1>>]))
       [] e.e = "HeaderIn" -> Step(ChkHeaderIn(ds[e.d], e), {}, e, Upd(e.d, NxtHeaderIn(ds[e.d], e)))
       [] e.e = "HalfRateP" -> Step(ChkHalfRate(ds[e.d], e), {}, e, Upd(e.d, NxtHalfRate(ds[e.d], e)))
       [] e.e = "SynthInit" -> Step(ChkSynthInit(ds[e.d], e), {}, e, Upd(e.d, NxtSynthInit(ds[e.d], e)))
       [] e.e = "Synthesis" -> Step(ChkSynthesis(ds[e.d], e, FALSE), DriftSynthesis(ds[e.d], e, FALSE), e, Upd(e.d, NxtSynthesis(ds[e.d], e, FALSE)))
       [] e.e = "TrackOnly" -> Step(ChkSynthesis(ds[e.d], e, TRUE), DriftSynthesis(ds[e.d], e, TRUE), e, Upd(e.d, NxtSynthesis(ds[e.d], e, TRUE)))
       [] e.e = "BlockinAgain" ->
            Step((IF e.rb \notin {0, OV_EINVALc} THEN {"BlockinReturnsDocumentedCode"} ELSE {}) \cup
                 (IF ~StoreOK(ActualB(ds[e.d], e), Observed(e, e.hsp)) THEN {"BufferInsideRing"} ELSE {}), {}, e,
                 Upd(e.d, [NxtUnmodelled(ds[e.d], e) EXCEPT !.chunkclean = FALSE, !.prevclean = FALSE, !.prev = -1]))
       [] e.e = "PcmOut" -> Step(ChkPcmOut(ds[e.d], e), {}, e, ds)
       [] e.e = "ReadP" -> Step(ChkRead(ds[e.d], e), {}, e, Upd(e.d, NxtRead(ds[e.d], e)))
       [] e.e = "Restart" -> Step(ChkRestart(ds[e.d], e), {}, e, Upd(e.d, NxtRestart(ds[e.d], e)))
       [] e.e = "LapOut" -> Step(ChkLapOut(ds[e.d], e), DriftLapOut(ds[e.d], e), e, Upd(e.d, NxtLapOut(ds[e.d], e)))
       [] e.e = "InfoClear" ->
            Step((IF e.vch # 0 \/ e.vrate # 0 \/ e.vcs # 0 THEN {"InfoClearEmptiesInfo"} ELSE {}), {}, e, Upd(e.d, InitDec))
       [] e.e = "Twin" -> Step((IF ds[e.d].nh = 3 /\ ds[e.d2].nh = 3 /\ e.eq # 1 THEN {"SameSpectrumSamePcm"} ELSE {}), {}, e, ds)
       [] e.e = "End" -> Step((IF e.objleft = 0 /\ e.live # 0 THEN {"ClearReleasesEverything"} ELSE {}), {}, e, ds)
       [] e.e \in {"Crash", "Hang", "Exit"} ->
            Step({IF e.e = "Crash" THEN "NoCrash" ELSE IF e.e = "Hang" THEN "CallsTerminate" ELSE "LibraryNeverExits"}, {}, e, ds)
       [] e.e \in Quiet -> l' = l + 1 /\ UNCHANGED <<scn, nviol, ndrift, ds>>
       [] OTHER -> Step({"UnknownEvent"}, {}, e, ds)
Spec == Init /\ [][Next]_vars
TypeOK == nviol >= 0 /\ ndrift >= 0
Accepted == TLCGet("stats").diameter = Len(Tr) + 1
=============================================================================

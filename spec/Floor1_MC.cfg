SPECIFICATION Spec
INVARIANT ClosedFormIsDda
INVARIANT StartsAtFirst
INVARIANT Between
INVARIANT Monotone
INVARIANT PointHitsEnds
CHECK_DEADLOCK FALSE

INIT Init
NEXT Next

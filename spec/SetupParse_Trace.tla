-------------------------- MODULE SetupParse_Trace --------------------------
(***************************************************************************)
(* The strict reader applied to the header packets the real encoder        *)
(* emits (event HeaderOut with idbytes / setupbytes): they must parse to   *)
(* the last bit, satisfy IdOK and SetupOK, and convey the channels, rate   *)
(* and block sizes of the encoder's own info structure.                    *)
(***************************************************************************)
EXTENDS SetupParse, TLC, Json, IOUtils
Tr == ndJsonDeserialize(IOEnv.TRACE)
VARIABLES l, scn
vars == <<l, scn>>
Report(rules, e) == IF rules = {} THEN TRUE ELSE PrintT("VIOL " \o ToJson([line |-> l, scn |-> Tr[scn].scn, ev |-> e.e, rules |-> rules]))
Judge(e) ==
  LET id == ReadId(e.idbytes) IN
  IF ~id.ok THEN {"IdHeaderParses"}
  ELSE (IF id.ch = e.vch /\ id.rate = e.vrate /\ Pow2(id.e0) = e.bs0 /\ Pow2(id.e1) = e.bs1 THEN {} ELSE {"IdHeaderConveysInfo"}) \cup
       LET r == ReadSetup(e.setupbytes, id) IN
       IF ~r.ok THEN {"SetupHeaderParses"}
       ELSE (IF r.bits > 8 * (Len(e.setupbytes) - 1) THEN {} ELSE {"SetupHeaderHasNoTrailingBytes"}) \cup
            (IF IdOK(r.s) /\ SetupOK(r.s) THEN {} ELSE {"SetupHeaderWellFormed"}) \cup
            (IF PrintT("PARSED " \o ToJson([books |-> Len(r.s.books), floors |-> Len(r.s.floors), residues |-> Len(r.s.residues), maps |-> Len(r.s.maps), modes |-> Len(r.s.modes), bits |-> r.bits])) THEN {} ELSE {})
Init == l = 1 /\ scn = 1
Next ==
  /\ l <= Len(Tr)
  /\ LET e == Tr[l] IN
     CASE e.e = "Reset" -> scn' = l /\ l' = l + 1
       [] e.e = "HeaderOut" /\ "setupbytes" \in DOMAIN e -> Report(Judge(e), e) /\ l' = l + 1 /\ UNCHANGED scn
       [] OTHER -> l' = l + 1 /\ UNCHANGED scn
Spec == Init /\ [][Next]_vars
TypeOK == l >= 1
Accepted == TLCGet("stats").diameter = Len(Tr) + 1
=============================================================================

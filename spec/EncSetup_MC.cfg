SPECIFICATION Spec
CONSTANTS MaxLen = 1000000
 Gen = FALSE
INVARIANT RulesSatisfiable
INVARIANT Frozen
INVARIANT Sensitive
VIEW View
CHECK_DEADLOCK FALSE

SPECIFICATION Spec
CONSTANTS MaxLinks = 1
 Shapes = {1,2,3}
 PPPs = {1,2,9}
 S0s = {1}
 ETs = {0,1}
 Muxes = {0}
 BIdx = {3}
 DiscardVi = "link"
 Streaming = FALSE
 PinSer = FALSE
 PinBos = FALSE
 Spans = {0}
 Dmg = {}
 PLen = 2
 ReadLens = {1,100}
 MaxCalls = 3
 Ops = {"read","pcm","half","raw"}
INVARIANT NoLoopBoundHit
INVARIANT OpenOK
INVARIANT PositionTruth
INVARIANT PositionTruthHalf
INVARIANT ReadOutcome
INVARIANT InOrder
INVARIANT SeekOutcome
INVARIANT HalfOutcome
CHECK_DEADLOCK FALSE

----------------------------- MODULE Instances -----------------------------
(***************************************************************************)
(* Independent codec instances (C18): NP programs with disjoint state,     *)
(* each a fixed sequence of Steps steps; an execution is any interleaving  *)
(* of their steps.  The abstract state of a program is (pc, acc) where acc *)
(* accumulates what the program has produced: by definition of "disjoint   *)
(* state" a step of program p reads and writes acc[p] only.  The theorem   *)
(* TLC checks is that the final acc[p] does not depend on the interleaving *)
(* (Confluent); its use is as the statement the real library is held to    *)
(* and as the generator of schedules replayed with a baton.                *)
(***************************************************************************)
EXTENDS Integers, Sequences, TLC, Json, FiniteSets
CONSTANTS NP, Steps, Gen
VARIABLES pc, acc, hist
vars == <<pc, acc, hist>>
Procs == 0..(NP - 1)
\* an arbitrary but fixed step function: what program p computes at step k from its own accumulator
F(p, k, a) == (a * 31 + 7 * p + k + 1) % 1009
RECURSIVE SoloAcc(_, _)
SoloAcc(p, k) == IF k = 0 THEN 0 ELSE F(p, k - 1, SoloAcc(p, k - 1))
Init == pc = [p \in Procs |-> 0] /\ acc = [p \in Procs |-> 0] /\ hist = <<>>
Step(p) == /\ pc[p] < Steps
           /\ acc' = [acc EXCEPT ![p] = F(p, pc[p], acc[p])] /\ pc' = [pc EXCEPT ![p] = @ + 1]
           /\ hist' = (IF Gen THEN Append(hist, p) ELSE hist)
Next == \E p \in Procs : Step(p)
Spec == Init /\ [][Next]_vars
Confluent == \A p \in Procs : acc[p] = SoloAcc(p, pc[p])
AllDone == \A p \in Procs : pc[p] = Steps
Export == (Gen /\ AllDone) => PrintT("HIST " \o ToJson(hist))
View == <<pc, acc>>
=============================================================================

--------------------------- MODULE AudioRead_Trace ---------------------------
(***************************************************************************)
(* The strict readers applied to what the real encoder emits: the header   *)
(* packets of a run are read once and judged (SetupParse, IdOK, SetupOK), the codeword tables of its   *)
(* books are built once (AudioRead.CwMap), and every audio packet whose     *)
(* bytes were logged is read by ReadAudio.  For a packet that the rate     *)
(* manager did not cut or pad, the reader must find every codeword, must   *)
(* not run out of data, and the bits it counts must end in the last byte;  *)
(* mode, window flags and block flag must be the ones the encoder reports. *)
(***************************************************************************)
EXTENDS AudioRead, TLC, Json, IOUtils
Tr == ndJsonDeserialize(IOEnv.TRACE)
VARIABLES l, scn, setup, cms, n, rbits        \* rbits[k] = bits the strict reader counted for audio packet k of the scenario (0: not read)
vars == <<l, scn, setup, cms, n, rbits>>
Report(rules, e) == IF rules = {} THEN TRUE ELSE PrintT("VIOL " \o ToJson([line |-> l, scn |-> Tr[scn].scn, ev |-> e.e, rules |-> rules]))
NoSetup == [ok |-> FALSE]
JudgeR(e, r) ==
  IF e.cut = 1 THEN {}                                                    \* truncated or padded by the rate manager: not a plain packet (Bitrate.tla decides when that may happen)
  ELSE (IF r.ok THEN {} ELSE {"AudioPacketParses"}) \cup
       (IF r.ok /\ ~(r.bits <= 8 * Len(e.pbytes) /\ r.bits > 8 * (Len(e.pbytes) - 1)) THEN {"AudioPacketEndsInItsLastByte"} ELSE {}) \cup
       (IF r.ok /\ ~(r.mode = e.mode /\ r.W = e.W /\ (e.W = 0 \/ (r.lw = e.lW /\ r.nw = e.nW))) THEN {"AudioPacketSelectsWhatTheEncoderReports"} ELSE {})
\* the two header packets: read to the last bit, well-formed, and conveying what the encoder's info structure holds
HeaderRules(e, id, r) ==
  IF ~id.ok THEN {"IdHeaderParses"}
  ELSE (IF id.ch = e.vch /\ id.rate = e.vrate /\ Pow2(id.e0) = e.bs0 /\ Pow2(id.e1) = e.bs1 THEN {} ELSE {"IdHeaderConveysInfo"}) \cup
       (IF ~r.ok THEN {"SetupHeaderParses"}
        ELSE (IF r.bits > 8 * (Len(e.setupbytes) - 1) THEN {} ELSE {"SetupHeaderHasNoTrailingBytes"}) \cup
             (IF IdOK(r.s) /\ SetupOK(r.s) THEN {} ELSE {"SetupHeaderWellFormed"}) \cup
             (IF PrintT("PARSED " \o ToJson([books |-> Len(r.s.books), floors |-> Len(r.s.floors), residues |-> Len(r.s.residues), maps |-> Len(r.s.maps), modes |-> Len(r.s.modes), bits |-> r.bits])) THEN {} ELSE {}))
Init == l = 1 /\ scn = 1 /\ setup = NoSetup /\ cms = <<>> /\ n = 0 /\ rbits = <<>>
Next ==
  /\ l <= Len(Tr)
  /\ LET e == Tr[l] IN
     CASE e.e = "Reset" -> scn' = l /\ l' = l + 1 /\ setup' = NoSetup /\ cms' = <<>> /\ rbits' = <<>> /\ UNCHANGED n
       [] e.e = "HeaderOut" /\ "setupbytes" \in DOMAIN e ->
            LET id == TLCEval(ReadId(e.idbytes))  r == TLCEval(IF id.ok THEN ReadSetup(e.setupbytes, id) ELSE NoSetup) IN
            /\ Report(HeaderRules(e, id, r), e)
            /\ setup' = r /\ cms' = (IF r.ok THEN [b \in 1..Len(r.s.books) |-> CwMap(r.s.books[b].lens)] ELSE <<>>)
            /\ l' = l + 1 /\ UNCHANGED <<scn, n, rbits>>
       [] e.e = "Pkt" /\ "pbytes" \in DOMAIN e /\ setup.ok ->
            LET r == TLCEval(ReadAudio(setup.s, cms, e.pbytes)) IN
            /\ Report(JudgeR(e, r), e) /\ n' = n + 1 /\ l' = l + 1
            /\ rbits' = (IF e.cut = 0 /\ r.ok /\ e.k + 1 = Len(rbits) + 1 THEN Append(rbits, r.bits) ELSE rbits) /\ UNCHANGED <<scn, setup, cms>>
       \* the real decoder on the same packet: it must have consumed exactly the bits the specification defines (full-rate decode of the packets as emitted)
       [] e.e = "DecPkt" /\ e.k + 1 <= Len(rbits) /\ e.rs = 0 ->
            Report(IF e.used = rbits[e.k + 1] THEN {} ELSE {"DecoderConsumesWhatTheSpecificationDefines"}, e) /\ l' = l + 1 /\ UNCHANGED <<scn, setup, cms, n, rbits>>
       [] e.e = "End" -> PrintT("PACKETS " \o ToString(n)) /\ n' = 0 /\ l' = l + 1 /\ UNCHANGED <<scn, setup, cms, rbits>>
       [] OTHER -> l' = l + 1 /\ UNCHANGED <<scn, setup, cms, n, rbits>>
Spec == Init /\ [][Next]_vars
TypeOK == l >= 1
Accepted == TLCGet("stats").diameter = Len(Tr) + 1
=============================================================================

SPECIFICATION Spec
CONSTANTS MaxLinks = 2
 Lens = {1,2,4}
 Chunk = 4
 Read = 2
 Shapes = {1,3,6,10,14,15}
 Damage = 0
 Clamp = TRUE
 Trim = TRUE
INVARIANT OpenSucceeds
INVARIANT LinkTableIsTheTruth
CHECK_DEADLOCK FALSE

------------------------------ MODULE VFSeek_MC ------------------------------
(***************************************************************************)
(* Exhaustive check of the page search of ov_pcm_seek_page over every      *)
(* small link layout: up to MaxPages pages of lengths 1 / 2 / 5 units      *)
(* (CHUNKSIZE = 4 units: pages shorter than, comparable to and longer than *)
(* a probe step), any interleaving with pages of a foreign multiplexed     *)
(* stream, any subset of our pages without a granule position, every       *)
(* target.  Checked: the loops terminate, they settle on the last page of  *)
(* ours whose granule position is below the target, and when there is no   *)
(* such page the hand-over to the first-page special case succeeds.        *)
(* EndAt = "data" models offsets[link+1] = end of the data (the repaired   *)
(* tree); EndAt = "lastpage" models the pinned tree, where the last link   *)
(* ended at the START of its last page.                                    *)
(***************************************************************************)
EXTENDS VFSeek, TLC
CONSTANTS MaxPages, EndAt, Lens, Chunk
VARIABLES lens, kind, target
vars == <<lens, kind, target>>
K == [chunk |-> Chunk, near |-> 3]
\* kind[i]: 0 foreign page, 1 ours without granule position, 2 ours with granule position
Off(l, i) == LET RECURSIVE S(_) S(j) == IF j = 0 THEN 0 ELSE S(j - 1) + l[j] IN S(i - 1)
Gp(k, i) == 3 * Cardinality({ j \in 1..i : k[j] = 2 })          \* our granule-bearing pages end at 3, 6, 9, ...
PG == [i \in 1..Len(lens) |-> [off |-> Off(lens, i), len |-> lens[i], ours |-> kind[i] # 0, gp |-> IF kind[i] = 2 THEN Gp(kind, i) ELSE -1]]
FileEnd == Off(lens, Len(lens) + 1)
LastOurs == CHOOSE i \in 1..Len(lens) : kind[i] = 2 /\ \A j \in 1..Len(lens) : kind[j] = 2 => j <= i
EndTime == Gp(kind, Len(lens))
EndOff == IF EndAt = "data" THEN FileEnd ELSE PG[Len(lens)].off
Init == /\ lens \in UNION { [1..n -> Lens] : n \in 1..MaxPages }
        /\ kind \in [1..Len(lens) -> {0, 1, 2}]
        /\ kind[Len(lens)] = 2                                   \* a link ends with a page of ours that carries the final granule position
        /\ target \in 0..(EndTime - 1)                             \* 0 <= pos < total
Next == UNCHANGED vars
Spec == Init /\ [][Next]_vars

R == Search(PG, 0, EndOff, 0, EndTime, target, K)
Terminates == R.steps >= 0
FindsTheRightPage == R.steps >= 0 => R.best = Wanted(PG, 0, target)
FirstPageHandOver == (R.steps >= 0 /\ Wanted(PG, 0, target) = -1) => FirstPageCaseOK(PG, R, 0)
=============================================================================

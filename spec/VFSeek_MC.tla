------------------------------ MODULE VFSeek_MC ------------------------------
(***************************************************************************)
(* Exhaustive check of the page search of ov_pcm_seek_page over every      *)
(* small link layout: up to MaxPages pages with lengths from Lens (against *)
(* a probe step of Chunk: pages shorter than, comparable to and as long as *)
(* a step), any interleaving with pages of a foreign multiplexed stream,   *)
(* any subset of our pages without a granule position, an optional page of *)
(* the next link behind the link's end, every target, two initial file     *)
(* positions.  Checked: the loops terminate, and the page handed to the    *)
(* stream layer is the one decoding has to start from: the last page of    *)
(* ours whose granule position is below the target, or the first page of   *)
(* ours when there is none.                                                *)
(* EndAt = "data" models offsets[link+1] = end of the link's data (the     *)
(* repaired tree); "lastpage" the pinned tree, where the last link ended   *)
(* at the START of its last page.  BackUpRule / HandOver: see VFSeek.      *)
(***************************************************************************)
EXTENDS VFSeek, TLC
CONSTANTS MaxPages, EndAt, Lens, Chunk, Reads, BackUpRule, HandOver, GuessRule, Lies      \* Lies: granule positions and the link's time span are arbitrary (a damaged stream)
VARIABLES lens, kind, tail, target, off0, rd, gpl, etl      \* rd: the unit in which data enters the sync buffer (what a boundary-0 read can still see depends on it; the result must not)
vars == <<lens, kind, tail, target, off0, rd, gpl, etl>>
K == [chunk |-> Chunk, near |-> 3, read |-> rd, backup |-> BackUpRule, handover |-> HandOver, guess |-> GuessRule]
\* kind[i]: 0 foreign page, 1 ours without granule position, 2 ours with granule position
Off(l, i) == LET RECURSIVE S(_) S(j) == IF j = 0 THEN 0 ELSE S(j - 1) + l[j] IN S(i - 1)
Gp(k, i) == 3 * Cardinality({ j \in 1..i : k[j] = 2 })          \* our granule-bearing pages end at 3, 6, 9, ...
N == Len(lens)
LinkEnd == Off(lens, N + 1)
PG == [i \in 1..(N + tail) |-> IF i <= N THEN [off |-> Off(lens, i), len |-> lens[i], ours |-> kind[i] # 0, gp |-> IF Lies THEN (IF kind[i] = 0 THEN 7 ELSE gpl[i]) ELSE IF kind[i] = 2 THEN Gp(kind, i) ELSE -1]
                                ELSE [off |-> LinkEnd, len |-> 2, ours |-> FALSE, gp |-> 0]]
EndTime == IF Lies THEN etl ELSE Gp(kind, N)
EndOff == IF EndAt = "data" THEN LinkEnd ELSE PG[N].off
Init == /\ lens \in UNION { [1..n -> Lens] : n \in 1..MaxPages }
        /\ kind \in [1..Len(lens) -> {0, 1, 2}]
        /\ kind[Len(lens)] = 2                                   \* a link ends with a page of ours that carries the final granule position
        /\ tail \in {0, 1}
        /\ gpl \in (IF Lies THEN [1..Len(lens) -> {-1, -5, 0, 3, 6, 50}] ELSE {<<>>})
        /\ etl \in (IF Lies THEN {0, 3, 6} ELSE {0})
        /\ target \in (IF Lies THEN 0..EndTime ELSE 0..(EndTime - 1))                           \* 0 <= pos < total (pos = total too when the span is a lie)
        /\ off0 \in {0, LinkEnd}
        /\ rd \in Reads
Next == UNCHANGED vars
Spec == Init /\ [][Next]_vars

R == Submit(PG, 0, EndOff, 0, EndTime, target, K, off0)
Terminates == R.steps >= 0
\* whatever the granule positions claim, the search looks only inside the file and gives up or settles within the step bound
ProbesInsideFile == \A i \in 1..Len(R.probes) : R.probes[i] >= 0 /\ R.probes[i] <= DataEnd(PG)
SubmitsTheRightPage == (~Lies /\ R.steps >= 0) => R.sub = RightPage(PG, 0, LinkEnd, target)
\* non-vacuity: the first-page case, a back-up step and a forward read occur among the layouts
=============================================================================

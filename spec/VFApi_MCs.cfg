SPECIFICATION Spec
CONSTANTS MaxLen = 1000000
 Gen = FALSE
 Mode = "stream"
INVARIANT RulesSatisfiable
INVARIANT PosInFile
INVARIANT Sensitive
VIEW ViewAbs
CHECK_DEADLOCK FALSE

SPECIFICATION Spec
CONSTANTS MaxLinks = 1
 Shapes = {1,2,3}
 PPPs = {1,2,9}
 S0s = {1,2,3}
 ETs = {0,1}
 Muxes = {0,1}
 BIdx = {1}
 DiscardVi = "link"
 Streaming = FALSE
 PinSer = FALSE
 PinBos = FALSE
 Spans = {0}
 Dmg = {}
 PLen = 2
 ReadLens = {1,100}
 MaxCalls = 3
 Ops = {"read","lap","raw"}
INVARIANT NoLoopBoundHit
INVARIANT OpenOK
INVARIANT PositionTruth
INVARIANT ReadOutcome
INVARIANT LapOutcome
INVARIANT SeekOutcome
CHECK_DEADLOCK FALSE

SPECIFICATION Spec
CONSTANTS MaxLinks = 2
 Shapes = {1,3}
 PPPs = {2,9}
 S0s = {1}
 ETs = {0,1}
 Muxes = {0,1}
 BIdx = {1,2}
 DiscardVi = "link"
 Streaming = FALSE
 PinSer = FALSE
 PinBos = FALSE
 Spans = {0}
 Dmg = {}
 PLen = 2
 ReadLens = {100}
 MaxCalls = 2
 Ops = {"read","lap","raw"}
INVARIANT NoLoopBoundHit
INVARIANT OpenOK
INVARIANT PositionTruth
INVARIANT ReadOutcome
INVARIANT LapOutcome
INVARIANT SeekOutcome
CHECK_DEADLOCK FALSE

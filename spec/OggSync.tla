------------------------------ MODULE OggSync ------------------------------
(***************************************************************************)
(* The byte level under the page-level reader of VFSeek / VFOpen / VFRead: *)
(* _seek_helper, _get_data and _get_next_page of lib/vorbisfile.c on top   *)
(* of libogg's sync layer, which is written down by its contract           *)
(* (ogg_sync_pageseek: a whole valid page at the read position -> its      *)
(* length; not enough data to decide -> 0; no page here -> the distance to *)
(* the next possible capture inside what is buffered, negated).            *)
(*                                                                         *)
(* The file is a sequence of cells:                                        *)
(*   "P"  first byte of a valid page (Len[i] = its length, the following   *)
(*        Len[i]-1 cells are "p")                                          *)
(*   "O"  a byte that could begin a capture pattern but does not           *)
(*   "g"  any other byte                                                   *)
(* HB cells are needed before a header can be looked at (27 bytes in       *)
(* libogg; 2 here: every page is at least that long).                      *)
(* State of the reader: off = vf->offset; the sync buffer holds the file   *)
(* cells [base, base + fill) and has handed out everything before          *)
(* base + ret (base is a ghost: where the source stood at the last reset); *)
(* src = where the data source stands.                                     *)
(***************************************************************************)
EXTENDS Integers, Sequences, FiniteSets
HB == 2
FileEnd(F) == Len(F.c)
ValidAt(F, i) == i + 1 \in 1..Len(F.c) /\ F.c[i + 1] = "P"            \* positions are 0-based, sequences 1-based
CaptureLike(F, i) == F.c[i + 1] \in {"P", "O"}
\* ogg_sync_pageseek on r = [off, base, fill, ret, src]: [more, r]
PageSeek(F, r) ==
  LET p == r.base + r.ret  avail == r.fill - r.ret IN
  IF avail < HB THEN [more |-> 0, r |-> r]
  ELSE IF ValidAt(F, p)
       THEN IF avail < F.len[p + 1] THEN [more |-> 0, r |-> r] ELSE [more |-> F.len[p + 1], r |-> [r EXCEPT !.ret = @ + F.len[p + 1]]]
  ELSE LET c == { q \in (p + 1)..(r.base + r.fill - 1) : CaptureLike(F, q) }
           nx == IF c = {} THEN r.base + r.fill ELSE CHOOSE q \in c : \A q2 \in c : q <= q2 IN
       [more |-> -(nx - p), r |-> [r EXCEPT !.ret = nx - r.base]]
\* _seek_helper: "only seek if the file position isn't already there"
SeekHelper(r, o) == IF r.off = o THEN r ELSE [off |-> o, base |-> o, fill |-> 0, ret |-> 0, src |-> o]
\* _get_data with a read callback that delivers n cells (1 <= n, what is left, the read size; 0 only at the end)
GetData(F, r, n) == [r EXCEPT !.fill = @ + n, !.src = @ + n]
CanDeliver(F, r, READ) == { n \in 1..READ : r.src + n <= FileEnd(F) }
\* where vf->offset claims to be is where the sync layer reads
OffsetTruth(r) == r.off = r.base + r.ret /\ r.src = r.base + r.fill

\* the reference: the same loop with a source that always delivers everything that is left
RECURSIVE RefNext(_, _, _, _)
RefNext(F, r, bound, fuel) ==      \* bound: absolute (0: none wanted, -1: unlimited)
  IF fuel = 0 THEN [ret |-> -999, r |-> r]
  ELSE IF bound > 0 /\ r.off >= bound THEN [ret |-> -1, r |-> r]                      \* OV_FALSE
  ELSE LET s == PageSeek(F, r) IN
       IF s.more < 0 THEN RefNext(F, [s.r EXCEPT !.off = @ - s.more], bound, fuel - 1)
       ELSE IF s.more = 0
            THEN IF bound = 0 THEN [ret |-> -1, r |-> r]
                 ELSE IF r.src >= FileEnd(F) THEN [ret |-> -2, r |-> r]               \* OV_EOF
                 ELSE RefNext(F, GetData(F, r, FileEnd(F) - r.src), bound, fuel - 1)
       ELSE [ret |-> r.off, r |-> [s.r EXCEPT !.off = @ + s.more]]
=============================================================================

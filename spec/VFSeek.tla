------------------------------- MODULE VFSeek -------------------------------
(***************************************************************************)
(* Implementation-shaped model of the page search of ov_pcm_seek_page      *)
(* (lib/vorbisfile.c): the bisection with its guessed probe position, the  *)
(* read-forward loop, the back-up step when a probe ran into the end of    *)
(* the search range, the hand-over to the "target is on the first page"    *)
(* special case, and the final seek to the page that was found.            *)
(*                                                                         *)
(* A physical stream is a sequence of pages PG[i] = [off, len, ours, gp]:  *)
(* byte offset and length, whether the page belongs to the Vorbis stream   *)
(* of the link that is searched (a multiplexed foreign stream or another   *)
(* link otherwise) and its granule position (-1: no packet ends on it).    *)
(* Pages are contiguous (no garbage between them).                         *)
(*                                                                         *)
(* K = [chunk, near, read, backup, handover] are the constants and the     *)
(* two rules that exist in a pinned and a repaired form:                   *)
(*   chunk    CHUNKSIZE (65536): the probe step;                           *)
(*   near     44100: closer than this, read forward instead of bisecting;  *)
(*   read     READSIZE (2048): the unit in which data enters the sync      *)
(*            buffer (decides what "only what is buffered" can see);       *)
(*   backup   "plus1": a back-up step that reaches begin stops at begin+1  *)
(*            (pinned tree) | "begin": it reads from begin (repaired);     *)
(*   handover "lastread": the first-page case submits the page read last   *)
(*            (pinned tree) | "refetch": it fetches the first page of the  *)
(*            link's stream again (repaired).                              *)
(* Search(...) returns the final state of the loops; Submit(...) what the  *)
(* call hands to the stream layer: [sub, probes] with sub = index of the   *)
(* page submitted (0: the call fails) and probes = the offsets of the      *)
(* callback seeks, in order (what the application's seek callback sees).   *)
(***************************************************************************)
EXTENDS Integers, Sequences, FiniteSets

\* first page starting at or after byte offset o (0 = none)
PageAt(PG, o) == LET k == Cardinality({ i \in 1..Len(PG) : PG[i].off < o }) IN IF k = Len(PG) THEN 0 ELSE k + 1      \* pages are in file order
DataEnd(PG) == IF PG = <<>> THEN 0 ELSE PG[Len(PG)].off + PG[Len(PG)].len
CeilDiv(a, b) == (a + b - 1) \div b
\* how far the sync buffer reaches once everything up to o has been consumed: data arrives in units of `read` counted from the last seek
BufEnd(PG, st, o, K) == LET e == st.base + K.read * CeilDiv(o - st.base, K.read) IN IF e > DataEnd(PG) THEN DataEnd(PG) ELSE e

\* _seek_helper: nothing happens (and the sync buffer survives) when the position is already there
SeekTo(st, b) == IF b = st.off THEN st ELSE [st EXCEPT !.off = b, !.base = b, !.probes = Append(st.probes, b)]

\* _get_next_page(boundary): [r, off] with r = page index (0: OV_FALSE / OV_EOF) and off = vf->offset afterwards
GetNext(PG, st, boundary, K) ==
  LET o == st.off  q == PageAt(PG, o) IN
  IF q = 0 THEN [r |-> 0, off |-> IF boundary = 0 THEN o ELSE DataEnd(PG)]
  ELSE IF boundary = 0
       THEN IF PG[q].off + PG[q].len <= BufEnd(PG, st, o, K) THEN [r |-> q, off |-> PG[q].off + PG[q].len] ELSE [r |-> 0, off |-> o]   \* only what is buffered
  ELSE IF boundary > 0 /\ PG[q].off >= o + boundary THEN [r |-> 0, off |-> o + boundary]
  ELSE [r |-> q, off |-> PG[q].off + PG[q].len]

\* floor(a * b / c) for 0 <= a, 0 <= b, 0 < c without forming a * b (TLC integers are 32 bits wide; the code computes in double precision,
\* whose rounding cannot change the integer part for operands of the sizes that occur here: quotient < 2^31, c < 2^31)
RECURSIVE MulDivQR(_, _, _)
MulDivQR(a, b, c) == IF a = 0 THEN [q |-> 0, r |-> 0]
                     ELSE LET h == MulDivQR(a \div 2, b, c)
                              r1 == 2 * h.r + (IF a % 2 = 1 THEN b % c ELSE 0)
                              q1 == 2 * h.q + (IF a % 2 = 1 THEN b \div c ELSE 0)
                          IN [q |-> q1 + r1 \div c, r |-> r1 % c]
MulDiv(a, b, c) == MulDivQR(a, b, c).q
\* the guessed probe: begin + (target-begintime)*(end-begin)/(endtime-begintime) - CHUNK, not before begin+CHUNK (else begin)
\* (the pinned tree interpolated without looking at the operands: an empty time span divides by zero - NaN, in practice an offset near 2^63, written
\*  here as a million - and a target beyond the span overshoots the byte range)
GuessPinned(begin, end, begintime, endtime, target, CHUNK) ==
  IF end - begin < CHUNK THEN begin
  ELSE LET raw == IF endtime = begintime THEN 1000000 ELSE IF endtime < begintime \/ target < begintime THEN 0 ELSE MulDiv(target - begintime, end - begin, endtime - begintime)
           g == begin + raw - CHUNK IN IF g < begin + CHUNK THEN begin ELSE g
Guess(begin, end, begintime, endtime, target, CHUNK) ==
  IF end - begin < CHUNK THEN begin
  ELSE LET raw == IF endtime > begintime /\ target > begintime THEN MulDiv(target - begintime, end - begin, endtime - begintime) ELSE 0
           lim == IF raw > end - begin THEN end - begin ELSE raw                       \* kept inside the byte range (it is anyway on a stream with consistent granule positions)
           g == begin + lim - CHUNK IN IF g < begin + CHUNK THEN begin ELSE g

\* "back up a bit": one probe step towards begin.  The pinned tree stopped at begin + 1 ("don't repeat a read we've already performed"),
\* which skips the page AT begin although no read from begin was ever made on this path; "begin" is the repaired rule.
BackUp(st, K) == LET b1 == st.bisect - K.chunk IN
                 IF K.backup = "plus1" THEN (IF b1 <= st.begin THEN st.begin + 1 ELSE b1)
                 ELSE (IF b1 <= st.begin + 1 THEN st.begin ELSE b1)

\* state of the two nested loops: st = [begin, end, begintime, endtime, bisect, off, base, best, og, inner, steps, probes]
\* inner = TRUE while inside the read loop of the current bisection step
RECURSIVE Run(_, _, _, _, _)
Run(PG, st, target, K, fuel) ==
  IF fuel = 0 THEN [st EXCEPT !.steps = -1]                                   \* did not terminate within the bound
  ELSE IF ~(st.begin < st.end) THEN st
  ELSE IF ~st.inner
  THEN LET b == IF "guess" \in DOMAIN K /\ K.guess = "pinned" THEN GuessPinned(st.begin, st.end, st.begintime, st.endtime, target, K.chunk)
                ELSE Guess(st.begin, st.end, st.begintime, st.endtime, target, K.chunk) IN
       Run(PG, [SeekTo(st, b) EXCEPT !.bisect = b, !.inner = TRUE, !.steps = st.steps + 1], target, K, fuel - 1)
  ELSE LET g == GetNext(PG, st, st.end - st.off, K) IN
       IF g.r = 0
       THEN IF st.bisect <= st.begin + 1 THEN Run(PG, [st EXCEPT !.end = st.begin, !.off = g.off], target, K, fuel - 1)
            ELSE IF st.bisect = 0 THEN [st EXCEPT !.steps = -2]                 \* seek_error
            ELSE LET b2 == BackUp(st, K) IN
                 Run(PG, [SeekTo([st EXCEPT !.off = g.off], b2) EXCEPT !.bisect = b2, !.steps = st.steps + 1], target, K, fuel - 1)
       ELSE LET p == PG[g.r]  s1 == [st EXCEPT !.og = g.r, !.off = g.off, !.steps = st.steps + 1] IN
            IF ~p.ours \/ p.gp = -1 THEN Run(PG, s1, target, K, fuel - 1)
            ELSE IF p.gp < target
            THEN LET s2 == [s1 EXCEPT !.best = p.off, !.begin = g.off, !.begintime = p.gp] IN
                 IF target - p.gp > K.near THEN Run(PG, [s2 EXCEPT !.inner = FALSE], target, K, fuel - 1)       \* break: bisect again
                 ELSE Run(PG, [s2 EXCEPT !.bisect = g.off], target, K, fuel - 1)                               \* close: read forward
            ELSE IF st.bisect <= st.begin + 1 THEN Run(PG, [s1 EXCEPT !.end = st.begin], target, K, fuel - 1)
            ELSE IF st.end = g.off
                 THEN LET b2 == BackUp(st, K) IN
                      Run(PG, [SeekTo([s1 EXCEPT !.end = p.off], b2) EXCEPT !.bisect = b2], target, K, fuel - 1)
                 ELSE Run(PG, [s1 EXCEPT !.end = st.bisect, !.endtime = p.gp, !.inner = FALSE], target, K, fuel - 1)

Search(PG, dataoff, endoff, begintime, endtime, target, K, off0) ==
  LET st0 == [begin |-> dataoff, end |-> endoff, begintime |-> begintime, endtime |-> endtime, bisect |-> dataoff, off |-> off0, base |-> off0, best |-> -1, og |-> 0,
              inner |-> FALSE, steps |-> 0, probes |-> <<>>]
      \* "if we have only one page, there will be no bisection.  Grab the page here"
      st1 == IF dataoff = endoff THEN LET s == SeekTo(st0, dataoff)  g == GetNext(PG, s, 1, K) IN [s EXCEPT !.og = g.r, !.off = g.off] ELSE st0
  IN Run(PG, st1, target, K, 400)

\* what the search is FOR: the last page of ours carrying a granule position below the target (-1: the target is on the first page)
Wanted(PG, dataoff, endoff, target) ==
  LET c == { i \in 1..Len(PG) : PG[i].off >= dataoff /\ PG[i].off < endoff /\ PG[i].ours /\ PG[i].gp # -1 /\ PG[i].gp < target } IN
  IF c = {} THEN -1 ELSE PG[CHOOSE i \in c : \A j \in c : PG[j].off <= PG[i].off].off
FirstOurs(PG, dataoff, endoff) ==
  LET c == { i \in 1..Len(PG) : PG[i].off >= dataoff /\ PG[i].off < endoff /\ PG[i].ours } IN IF c = {} THEN 0 ELSE CHOOSE i \in c : \A j \in c : PG[i].off <= PG[j].off
\* the page the stream layer must be given for the decoder to come out at the right place
RightPage(PG, dataoff, endoff, target) == LET w == Wanted(PG, dataoff, endoff, target) IN IF w = -1 THEN FirstOurs(PG, dataoff, endoff) ELSE PageAt(PG, w)

\* fetch the first page of ours at or after the current offset, not beyond linkend
RECURSIVE Refetch(_, _, _, _, _)
Refetch(PG, st, linkend, K, fuel) ==
  IF fuel = 0 \/ st.off >= linkend THEN [sub |-> 0, st |-> st]
  ELSE LET g == GetNext(PG, st, linkend - st.off, K) IN
       IF g.r = 0 THEN [sub |-> 0, st |-> st]
       ELSE IF PG[g.r].ours THEN [sub |-> g.r, st |-> [st EXCEPT !.off = g.off]]
       ELSE Refetch(PG, [st EXCEPT !.off = g.off], linkend, K, fuel - 1)

\* everything up to ogg_stream_pagein: [sub, probes, steps]
Submit(PG, dataoff, endoff, begintime, endtime, target, K, off0) ==
  LET r == Search(PG, dataoff, endoff, begintime, endtime, target, K, off0) IN
  IF r.steps < 0 THEN [sub |-> 0, probes |-> r.probes, steps |-> r.steps]
  ELSE IF r.best = -1
  THEN IF ~(r.og # 0 /\ r.begin = dataoff) THEN [sub |-> 0, probes |-> r.probes, steps |-> r.steps]
       ELSE IF K.handover = "lastread" THEN [sub |-> IF PG[r.og].ours THEN r.og ELSE 0, probes |-> r.probes, steps |-> r.steps]
       ELSE LET f == Refetch(PG, SeekTo(r, dataoff), endoff, K, Len(PG) + 1) IN [sub |-> f.sub, probes |-> f.st.probes, steps |-> r.steps]
  ELSE LET s == SeekTo(r, r.best)  g == GetNext(PG, s, -1, K) IN [sub |-> g.r, probes |-> s.probes, steps |-> r.steps]
=============================================================================

------------------------------- MODULE VFSeek -------------------------------
(***************************************************************************)
(* Implementation-shaped model of the page search of ov_pcm_seek_page      *)
(* (lib/vorbisfile.c): the bisection with its guessed probe position, the  *)
(* read-forward loop, the back-up step when a probe lands in the last page *)
(* and the hand-over to the "target is on the first page" special case.    *)
(*                                                                         *)
(* A link is a sequence of pages PG[i] = [off, len, ours, gp]: byte offset *)
(* and length, whether the page belongs to the link's Vorbis stream (a     *)
(* multiplexed foreign stream otherwise) and its granule position (-1 =    *)
(* no packet ends on it).  Pages are contiguous (no garbage).              *)
(* Search(...) returns [best, og, begin, steps, probes]:                   *)
(*   best  = byte offset of the page the code settles on (-1 = none),      *)
(*   og    = index of the page read last (0 = none),                       *)
(*   probes = the sequence of seek offsets issued (what the seek callback  *)
(*            of the application sees).                                    *)
(***************************************************************************)
EXTENDS Integers, Sequences, FiniteSets

\* first page starting at or after byte offset o (0 = none)
PageAt(PG, o) == LET c == { i \in 1..Len(PG) : PG[i].off >= o } IN IF c = {} THEN 0 ELSE CHOOSE i \in c : \A j \in c : PG[i].off <= PG[j].off
\* _get_next_page(boundary): [r, off] with r = page index, 0 = OV_FALSE / OV_EOF
GetNext(PG, o, boundary) ==
  LET q == PageAt(PG, o) IN
  IF boundary = 0 THEN [r |-> 0, off |-> o]                                   \* only what is buffered: nothing after a seek
  ELSE IF q = 0 THEN [r |-> 0, off |-> o]                                     \* end of data
  ELSE IF boundary > 0 /\ PG[q].off >= o + boundary THEN [r |-> 0, off |-> o + boundary]
  ELSE [r |-> q, off |-> PG[q].off + PG[q].len]

\* the guessed probe: begin + (target-begintime)*(end-begin)/(endtime-begintime) - CHUNK, not before begin+CHUNK (else begin)
Guess(begin, end, begintime, endtime, target, CHUNK) ==
  IF end - begin < CHUNK THEN begin
  ELSE LET g == begin + ((target - begintime) * (end - begin)) \div (endtime - begintime) - CHUNK IN IF g < begin + CHUNK THEN begin ELSE g

\* state of the two nested loops: st = [begin, end, begintime, endtime, bisect, off, best, og, inner, steps, probes]
\* inner = TRUE while inside the read loop of the current bisection step
RECURSIVE Run(_, _, _, _, _)
Run(PG, st, target, K, fuel) ==
  IF fuel = 0 THEN [st EXCEPT !.steps = -1]                                   \* did not terminate within the bound
  ELSE IF ~(st.begin < st.end) THEN st
  ELSE IF ~st.inner
  THEN LET b == Guess(st.begin, st.end, st.begintime, st.endtime, target, K.chunk) IN
       Run(PG, [st EXCEPT !.bisect = b, !.off = b, !.inner = TRUE, !.probes = Append(st.probes, b), !.steps = st.steps + 1], target, K, fuel - 1)
  ELSE LET g == GetNext(PG, st.off, st.end - st.off) IN
       IF g.r = 0
       THEN IF st.bisect <= st.begin + 1 THEN Run(PG, [st EXCEPT !.end = st.begin, !.off = g.off], target, K, fuel - 1)
            ELSE IF st.bisect = 0 THEN [st EXCEPT !.steps = -2]                 \* seek_error
            ELSE LET b1 == st.bisect - K.chunk  b2 == IF b1 <= st.begin THEN st.begin + 1 ELSE b1 IN
                 Run(PG, [st EXCEPT !.bisect = b2, !.off = b2, !.probes = Append(st.probes, b2), !.steps = st.steps + 1], target, K, fuel - 1)
       ELSE LET p == PG[g.r]  s1 == [st EXCEPT !.og = g.r, !.off = g.off, !.steps = st.steps + 1] IN
            IF ~p.ours \/ p.gp = -1 THEN Run(PG, s1, target, K, fuel - 1)
            ELSE IF p.gp < target
            THEN LET s2 == [s1 EXCEPT !.best = p.off, !.begin = g.off, !.begintime = p.gp] IN
                 IF target - p.gp > K.near THEN Run(PG, [s2 EXCEPT !.inner = FALSE], target, K, fuel - 1)       \* break: bisect again
                 ELSE Run(PG, [s2 EXCEPT !.bisect = g.off], target, K, fuel - 1)                               \* close: read forward
            ELSE IF st.bisect <= st.begin + 1 THEN Run(PG, [s1 EXCEPT !.end = st.begin], target, K, fuel - 1)
            ELSE IF st.end = g.off
                 THEN LET b1 == st.bisect - K.chunk  b2 == IF b1 <= st.begin THEN st.begin + 1 ELSE b1 IN
                      Run(PG, [s1 EXCEPT !.end = p.off, !.bisect = b2, !.off = b2, !.probes = Append(s1.probes, b2)], target, K, fuel - 1)
                 ELSE Run(PG, [s1 EXCEPT !.end = st.bisect, !.endtime = p.gp, !.inner = FALSE], target, K, fuel - 1)

Search(PG, dataoff, endoff, begintime, endtime, target, K) ==
  LET st0 == [begin |-> dataoff, end |-> endoff, begintime |-> begintime, endtime |-> endtime, bisect |-> dataoff, off |-> dataoff, best |-> -1, og |-> 0,
              inner |-> FALSE, steps |-> 0, probes |-> <<>>]
      \* "if we have only one page, there will be no bisection.  Grab the page here"
      st1 == IF dataoff = endoff THEN LET g == GetNext(PG, dataoff, 1) IN [st0 EXCEPT !.og = g.r, !.off = g.off, !.probes = <<dataoff>>] ELSE st0
  IN Run(PG, st1, target, K, 400)

\* what the search is FOR: the last page of ours carrying a granule position below the target (-1: the target is on the first page)
Wanted(PG, dataoff, target) ==
  LET c == { i \in 1..Len(PG) : PG[i].off >= dataoff /\ PG[i].ours /\ PG[i].gp # -1 /\ PG[i].gp < target } IN
  IF c = {} THEN -1 ELSE PG[CHOOSE i \in c : \A j \in c : PG[j].off <= PG[i].off].off
\* the hand-over to the first-page special case succeeds only if a page was read, the range start is untouched and that page is ours
FirstPageCaseOK(PG, r, dataoff) == r.og # 0 /\ r.begin = dataoff /\ PG[r.og].ours
=============================================================================

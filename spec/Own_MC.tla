------------------------------- MODULE Own_MC -------------------------------
(***************************************************************************)
(* Ownership life cycle of the library's objects (C13).                    *)
(* Objects: info, comment, dsp, block (and, for vorbisfile, the handle).   *)
(* dsp is initialised from info, block from dsp.  The documented contract: *)
(* an object is initialised only when the object it depends on is live,    *)
(* and cleared before the object it was initialised from; a clear may be   *)
(* repeated any number of times, also on an object whose initialisation    *)
(* failed (fails = TRUE leaves it holding nothing).                        *)
(* `held[o]` abstracts the memory an object holds.  Invariant: whenever no *)
(* object is live, nothing is held; a clear never releases twice.          *)
(* The caller side of every behaviour is exported: these are the clear     *)
(* orders replayed against the real library under the allocator monitor.   *)
(***************************************************************************)
EXTENDS Integers, Sequences, TLC, Json, FiniteSets
CONSTANTS MaxLen, Gen
Objs == {"i", "c", "d", "b"}
Dep(o) == CASE o = "d" -> "i" [] o = "b" -> "d" [] OTHER -> "none"
VARIABLES st, held, freed2, hist
vars == <<st, held, freed2, hist>>
Init == st = [o \in Objs |-> "none"] /\ held = [o \in Objs |-> 0] /\ freed2 = FALSE /\ hist = <<>>
Rec(x) == hist' = (IF Gen THEN Append(hist, x) ELSE hist)
InitObj(o, ok) ==
  /\ st[o] # "live" /\ (Dep(o) # "none" => st[Dep(o)] = "live")
  /\ st' = [st EXCEPT ![o] = IF ok THEN "live" ELSE "failed"] /\ held' = [held EXCEPT ![o] = IF ok THEN 1 ELSE 0]
  /\ Rec(<<"init", o, IF ok THEN 1 ELSE 0>>) /\ UNCHANGED freed2
Clear(o) ==
  /\ \A p \in Objs : Dep(p) = o => st[p] # "live"            \* dependents first
  /\ st[o] # "none"
  /\ freed2' = (freed2 \/ (st[o] = "cleared" /\ held[o] > 0))   \* a repeated clear must find nothing to release
  /\ st' = [st EXCEPT ![o] = "cleared"] /\ held' = [held EXCEPT ![o] = 0]
  /\ Rec(<<"clear", o>>)
Next == /\ Len(hist) < MaxLen \/ ~Gen
        /\ \/ \E o \in Objs, ok \in BOOLEAN : InitObj(o, ok)
           \/ \E o \in Objs : Clear(o)
Spec == Init /\ [][Next]_vars
NothingLive == \A o \in Objs : st[o] # "live"
Released == NothingLive => \A o \in Objs : held[o] = 0
NoDoubleFree == ~freed2
Export == (Gen /\ Len(hist) >= 4 /\ NothingLive /\ \E o \in Objs : st[o] = "cleared") => PrintT("HIST " \o ToJson(hist))
View == <<st, held, freed2>>
=============================================================================

---------------------------- MODULE EncSetup_MC ----------------------------
(***************************************************************************)
(* Design-level model of the encoder set-up life cycle: every order of     *)
(* info_init / setup_vbr / setup_managed / one-step init / ctl get+set /   *)
(* setup_init / analysis_init / headerout / wrote / clear calls that       *)
(* respects the documented caller contract, answered by an ideal           *)
(* implementation.  TLC checks that the EncSetup rules are jointly         *)
(* satisfiable in every reachable state (RulesSatisfiable), that settings  *)
(* are frozen once set in stone (Frozen), and that a perturbed answer is   *)
(* caught (Sensitive).  The caller side of each behaviour is exported and  *)
(* replayed against the real library with concrete argument values.        *)
(***************************************************************************)
EXTENDS EncSetup, TLC, Json
CONSTANTS MaxLen, Gen
VARIABLES s, ready, hist, bad, frozenAt
vars == <<s, ready, hist, bad, frozenAt>>

Init == s = InitEnc /\ ready = FALSE /\ hist = <<>> /\ bad = {} /\ frozenAt = <<>>
Rec(op) == hist' = Append(hist, op)
Vi(st, ch, rate, stone) == [vcs |-> IF st = "none" THEN 0 ELSE 1, vch |-> ch, vrate |-> rate, stone |-> stone]

InfoInit ==
  /\ s.stage = "none"
  /\ LET e == [e |-> "InfoInit", vcs |-> 1, vch |-> 0, vrate |-> 0] IN bad' = bad \cup ChkInfoInit(s, e) /\ s' = NxtInfoInit(s, e)
  /\ ready' = FALSE /\ Rec(<<"einit">>) /\ UNCHANGED frozenAt

\* kind: "vbr" | "man"; ok: the library accepts the arguments or not; one: one-step variant
Setup(kind, ok, one) ==
  /\ s.stage \in {"inited", "chosen", "maybe"} /\ ~ready
  /\ LET ret == IF ok THEN 0 ELSE E_INVAL
         e == IF ok THEN [e |-> IF kind = "man" THEN "SetupManaged" ELSE "SetupVbr", ret |-> 0, ch |-> 2, rate |-> 44100, vcs |-> 1, vch |-> 2, vrate |-> 44100, stone |-> IF one THEN 1 ELSE 0]
              ELSE IF one THEN [ret |-> ret, ch |-> 0, rate |-> 0, vcs |-> 0, vch |-> 0, vrate |-> 0, stone |-> 0]
              ELSE [ret |-> ret, ch |-> 0, rate |-> 0, vcs |-> 1, vch |-> 0, vrate |-> 0, stone |-> 0]
     IN /\ bad' = bad \cup ChkSetup(s, e, one) /\ s' = NxtSetup(s, e, one)
        /\ frozenAt' = IF ok /\ one THEN NxtSetup(s, e, one) ELSE frozenAt
  /\ Rec(<<IF one THEN "i" \o kind ELSE kind, IF ok THEN "ok" ELSE "bad">>) /\ UNCHANGED ready

SetupInit ==
  /\ s.stage \in {"inited", "chosen", "maybe", "stone"} /\ ~ready
  /\ LET ok == s.stage = "chosen"
         e == [ret |-> IF ok THEN 0 ELSE E_INVAL, vch |-> s.ch, vrate |-> s.rate, stone |-> IF ok \/ s.stage = "stone" THEN 1 ELSE 0]
     IN /\ bad' = bad \cup ChkSetupInit(s, e) /\ s' = NxtSetupInit(s, e)
        /\ frozenAt' = IF ok THEN NxtSetupInit(s, e) ELSE frozenAt
  /\ Rec(<<"esetup">>) /\ UNCHANGED ready

CtlOps == {"rm2get", "rm2set", "rm2null", "lowget", "lowset", "ibget", "ibset", "cpget", "cpset", "raw"}
Ctl(w, arg) ==
  /\ s.stage \in {"chosen", "maybe", "stone"}          \* documented: ctl must be called after one of the setup calls
  /\ LET frozen == s.stage = "stone"
         isget == w \in {"rm2get", "lowget", "ibget", "cpget"}
         ret == IF w = "raw" THEN E_IMPL ELSE IF isget THEN 0 ELSE IF frozen THEN E_INVAL ELSE 0
         e == [what |-> w, ret |-> ret, number |-> 99, hz |-> IF w = "lowget" /\ s.low # Unknown THEN s.low ELSE Clamp(arg * 1000, 2000, 99000) + (IF w = "lowset" THEN arg * 1000 - Clamp(arg * 1000, 2000, 99000) ELSE 0),
               x10 |-> IF w = "ibget" /\ s.ib # Unknown THEN s.ib ELSE arg, v |-> IF w = "cpget" /\ s.cpl # Unknown THEN s.cpl ELSE arg % 2,
               act |-> arg % 2, min |-> 0, max |-> 0, avg |-> 64, damp1000 |-> 1500, resbits |-> 1000, bias1000 |-> 100]
     IN bad' = bad \cup ChkCtl(s, e) /\ s' = NxtCtl(s, e)
  /\ Rec(<<"ectl", w, arg>>) /\ UNCHANGED <<ready, frozenAt>>

AnalysisInit ==
  /\ s.stage = "stone" /\ ~ready
  /\ bad' = bad \cup ChkAnalysisInit(s, [ret |-> 0, rb |-> 0]) /\ ready' = TRUE /\ Rec(<<"eainit">>) /\ UNCHANGED <<s, frozenAt>>
Use(op) == /\ ready /\ Rec(<<op>>) /\ UNCHANGED <<s, ready, bad, frozenAt>>
Clear ==
  /\ s.stage # "none"
  /\ bad' = bad \cup ChkInfoClear(s, [vcs |-> 0, vch |-> 0, vrate |-> 0]) /\ s' = InitEnc /\ ready' = FALSE /\ frozenAt' = <<>> /\ Rec(<<"eclear">>)

Next ==
  /\ Len(hist) < MaxLen
  /\ \/ InfoInit
     \/ \E kind \in {"vbr", "man"}, ok \in BOOLEAN, one \in BOOLEAN : Setup(kind, ok, one)
     \/ SetupInit
     \/ \E w \in CtlOps, a \in (IF Gen THEN {1, 50} ELSE {-20, 0, 1, 50, 120}) : Ctl(w, a)
     \/ AnalysisInit
     \/ \E op \in {"ehdr", "ewrite", "eeof"} : Use(op)
     \/ Clear
Spec == Init /\ [][Next]_vars

RulesSatisfiable == bad = {}
\* once set in stone nothing observable through the get requests changes until the info is cleared
Frozen == s.stage = "stone" /\ frozenAt # <<>> => s = frozenAt
\* a perturbed answer is caught by some rule
Sensitive ==
  /\ s.stage = "stone" => ChkCtl(s, [what |-> "lowset", ret |-> 0, hz |-> 5000, number |-> 33]) # {}
  /\ ChkSetup(s, [ret |-> E_IMPL, ch |-> 2, rate |-> 8000, vcs |-> 1, vch |-> 2, vrate |-> 8000, stone |-> 0], TRUE) # {}
  /\ ChkSetup(s, [ret |-> 0, ch |-> 2, rate |-> 8000, vcs |-> 1, vch |-> 1, vrate |-> 8000, stone |-> 1], TRUE) # {}
  /\ ChkSetup(s, [ret |-> -1, ch |-> 2, rate |-> 8000, vcs |-> 1, vch |-> 2, vrate |-> 8000, stone |-> 0], FALSE) # {}
  /\ s.low # Unknown => ChkCtl(s, [what |-> "lowget", ret |-> 0, hz |-> s.low + 1, number |-> 32]) # {}
Export == (Gen /\ (Len(hist) = MaxLen \/ (Len(hist) > 3 /\ s.stage = "none"))) => PrintT("HIST " \o ToJson(hist))
View == <<s, ready, bad, frozenAt>>
=============================================================================

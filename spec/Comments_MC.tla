---------------------------- MODULE Comments_MC ----------------------------
(***************************************************************************)
(* Exhaustive check of the comment model on small instances and export of  *)
(* the instances as test cases for the real library (spec -> code).        *)
(* Alphabet: letters of both cases, the four neighbours of the letter      *)
(* ranges, "=", NUL and a Latin-1 pair that a locale-dependent toupper     *)
(* would fold.                                                             *)
(***************************************************************************)
EXTENDS Comments, TLC, Json
CONSTANTS MaxC, MaxL, Gen
Alpha == {97, 65, 122, 90, 64, 91, 96, 123, 61, 0, 233, 201}
TagAlpha == Alpha \ {0, 61}
Str(n) == UNION { [1..k -> Alpha] : k \in 0..n }
Tags == UNION { [1..k -> TagAlpha] : k \in 0..2 }
\* canonical run-length form of a plain byte sequence
RECURSIVE ToR(_)
ToR(s) == IF s = <<>> THEN <<>>
          ELSE LET r == ToR(Tail(s)) IN
               IF r # <<>> /\ r[1][1] = s[1] THEN <<<<s[1], r[1][2] + 1>>>> \o Tail(r) ELSE <<<<s[1], 1>>>> \o r
VARIABLES cs, tag, done
vars == <<cs, tag, done>>
\* exhaustive mode: every instance is an initial state; generation mode: instances are grown byte by byte (so that TLC can sample them)
Init == IF Gen THEN cs = <<>> /\ tag = <<>> /\ done = FALSE
        ELSE cs \in UNION { [1..k -> Str(MaxL)] : k \in 0..MaxC } /\ tag \in Tags /\ done = FALSE
Grow == /\ Gen /\ ~done
        /\ \/ \E b \in Alpha : cs # <<>> /\ Len(cs[Len(cs)]) < MaxL /\ cs' = [cs EXCEPT ![Len(cs)] = Append(@, b)] /\ UNCHANGED <<tag, done>>
           \/ Len(cs) < MaxC /\ cs' = Append(cs, <<>>) /\ UNCHANGED <<tag, done>>
           \/ \E b \in TagAlpha : Len(tag) < 2 /\ tag' = Append(tag, b) /\ UNCHANGED <<cs, done>>
           \* bias towards entries that can match: copy the tag (case flipped) and "=" into a fresh entry
           \/ Len(cs) < MaxC /\ Len(tag) + 1 <= MaxL /\ cs' = Append(cs, [i \in 1..(Len(tag) + 1) |-> IF i <= Len(tag) THEN (IF tag[i] \in {97, 122} THEN tag[i] - 32 ELSE IF tag[i] \in {65, 90} THEN tag[i] + 32 ELSE tag[i]) ELSE 61]) /\ UNCHANGED <<tag, done>>
Next == \/ (~done /\ done' = TRUE /\ UNCHANGED <<cs, tag>>)
        \/ Grow
Spec == Init /\ [][Next]_vars

R == [i \in 1..Len(cs) |-> ToR(cs[i])]
RoundTrip   == LET u == Unpack(Pack(<<88, 105>>, cs)) IN u.ok /\ u.cs = cs /\ u.vendor = <<88, 105>>
\* every proper prefix of a packed header is refused (nothing is read beyond the packet)
Truncated   == LET b == Pack(<<88>>, cs) IN \A k \in 0..(Len(b) - 1) : ~Unpack(SubSeq(b, 1, k)).ok
CountIsHits == QueryCount(R, tag) = Cardinality({ n \in 0..MaxC : NthMatch(R, tag, n) # 0 })
InOrder     == \A n \in 0..(MaxC - 1) : (NthMatch(R, tag, n + 1) # 0 => NthMatch(R, tag, n) # 0 /\ NthMatch(R, tag, n) < NthMatch(R, tag, n + 1))
FoldAscii   == \A b \in Alpha : Fold(Fold(b)) = Fold(b) /\ (b \in {233, 201, 64, 91, 96, 123} => Fold(b) = b)
RunsOK      == \A i \in 1..Len(cs) : Canonical(R[i]) /\ RLen(R[i]) = Len(cs[i]) /\ \A j \in 1..Len(cs[i]) : RAt(R[i], j - 1) = cs[i][j]
Export      == (Gen /\ done) => PrintT("CASE " \o ToJson([cs |-> cs, tag |-> tag, cnt |-> QueryCount(R, tag), hits |-> [n \in 0..MaxC |-> NthMatch(R, tag, n)]]))
=============================================================================

------------------------------- MODULE VFRead -------------------------------
(***************************************************************************)
(* Implementation-shaped model of the decode path of a SEEKABLE vorbisfile *)
(* handle (lib/vorbisfile.c): _fetch_and_process_packet, ov_read_float,    *)
(* ov_raw_seek with its scratch stream, the tail of ov_pcm_seek_page (what *)
(* happens to the page the search of VFSeek hands over) and the discard    *)
(* loops of ov_pcm_seek - on the page / reader primitives of VFSeek, the   *)
(* link table of VFOpen and the decoder bookkeeping of Block.              *)
(*                                                                         *)
(* A page is the record of VFOpen plus                                     *)
(*   eos   the end-of-stream flag                                          *)
(*   ws    the block flags of the packets that END on it (audio pages)     *)
(*   cont  the first of them began on an earlier page                      *)
(*   tail  the page ends in the middle of a packet                         *)
(*   pn    its page sequence number                                        *)
(*   k0    ghost: ordinal (1..) of the first of them among the audio       *)
(*         packets of its link                                             *)
(* LT is the link table of VFOpen (off ser doff first len), BL[i] = <<bs0, *)
(* bs1>> the block sizes of link i.                                        *)
(*                                                                         *)
(* The handle: [rs, link, ser, off, d, os, pos, hs, sk]  (hs: half-rate    *)
(* flag, sk: seekable; solid: lapout's once-per-block flag; gk, gsh:      *)
(* ghosts that say which samples the decoder holds)                        *)
(*   rs    ready_state (2 OPENED, 3 STREAMSET, 4 INITSET)                  *)
(*   link  current_link (1-based), ser current_serialno                    *)
(*   off   pcm_offset                                                      *)
(*   d     the decoder (Block), meaningful while rs = 4                    *)
(*   os    the ogg stream state: [ser, q, pno, part, pn]; q = packets ready,  *)
(*         each [w, g, eos, k] (w = -1: a header packet)                   *)
(*   pos   vf->offset, where the next page is looked for                   *)
(* Every call returns [ret, vf] (+ what it delivered).  A loop that uses   *)
(* up its step bound returns ret = -999.                                   *)
(***************************************************************************)
EXTENDS VFOpen
BK == INSTANCE Block

OPENED == 2
STREAMSET == 3
INITSET == 4
OV_EOF == -2
OV_EFAULT == -129
OV_EINVAL == -131
OV_EBADPACKET == -136
OV_EBADLINK == -137

Clamp0(x) == IF x < 0 THEN 0 ELSE x
RECURSIVE SumLen(_, _)
SumLen(LT, n) == IF n <= 0 THEN 0 ELSE SumLen(LT, n - 1) + LT[n].len        \* the samples of links 1..n
Total(LT) == SumLen(LT, Len(LT))
LinkOfSerial(LT, s) == LET c == { i \in 1..Len(LT) : LT[i].ser = s } IN IF c = {} THEN 0 ELSE CHOOSE i \in c : \A j \in c : i <= j
LinkEnd(PG, LT, i) == IF i = Len(LT) THEN DataEnd(PG) ELSE LT[i + 1].off                                 \* offsets[link+1]

(* ------------------------------ ogg stream ------------------------------ *)
OV_HOLE == -3
OsReset(ser) == [ser |-> ser, q |-> <<>>, pno |-> 0, part |-> FALSE, pn |-> -1]          \* pn: the page sequence number expected next (-1: any); part: the beginning of a packet is waiting for its rest
HoleMark == [w |-> -2, g |-> -1, eos |-> FALSE, k |-> 0]
PagePackets(p) ==
  LET n == IF p.hp > 0 THEN p.hp ELSE Len(p.ws) IN
  [i \in 1..n |-> [w |-> IF p.hp > 0 THEN -1 ELSE p.ws[i], g |-> IF i = n THEN p.gp ELSE -1, eos |-> p.eos /\ i = n, k |-> IF p.hp > 0 THEN 0 ELSE p.k0 + i - 1]]
\* ogg_stream_pagein: a page of another serial number is refused; a page that claims to continue a packet whose beginning the stream never saw loses it
PageIn(os, p) ==
  IF p.ser # os.ser THEN os
  ELSE LET hole == os.pn # -1 /\ p.pn # os.pn                     \* a page is missing (or there twice): the stream notes a gap, the codec is told once
           pp == PagePackets(p)
           nostart == hole \/ ~os.part                            \* nothing here that the page could continue
           skipall == p.cont /\ nostart /\ pp = <<>>              \* a page in the middle of a packet the stream never saw the beginning of: nothing is kept
           qq == IF p.cont /\ nostart /\ pp # <<>> THEN Tail(pp) ELSE pp
       IN [os EXCEPT !.q = @ \o (IF hole THEN << HoleMark >> ELSE <<>>) \o qq, !.pn = p.pn + 1, !.part = (~skipall /\ p.tail)]
\* all packets of a page table: the bound of the loops that go packet by packet (a page of small packets holds dozens of them)
RECURSIVE NPk(_, _)
NPk(PG, i) == IF i = 0 THEN 0 ELSE NPk(PG, i - 1) + (IF PG[i].hp > 0 THEN PG[i].hp ELSE Len(PG[i].ws))
OsPop(os) == IF os.q = <<>> THEN os ELSE [os EXCEPT !.q = Tail(@), !.pno = @ + 1]                         \* ogg_stream_packetout(os, NULL)

(* ------------------------------ the reader ------------------------------ *)
\* _get_next_page(vf, og, -1) from vf.pos: [r, pos]
\* (vf.fault: the read callback fails for the time being - no page arrives and nothing moves)
NextPage(PG, vf) == LET q == IF vf.fault THEN 0 ELSE PageAt(PG, vf.pos) IN IF vf.fault THEN [r |-> 0, pos |-> vf.pos] ELSE IF q = 0 THEN [r |-> 0, pos |-> DataEnd(PG)] ELSE [r |-> q, pos |-> PG[q].off + PG[q].len]

DecodeClear(vf) == [vf EXCEPT !.rs = OPENED]
MakeReady(BL, vf) == IF vf.rs # STREAMSET THEN vf ELSE [vf EXCEPT !.rs = INITSET, !.d = BK!DecRestart(BL[vf.link], vf.hs), !.solid = FALSE, !.gsh = 0]
Restart(BL, vf) == IF vf.rs = INITSET THEN [vf EXCEPT !.d = [BK!DecRestart(BL[vf.link], vf.hs) EXCEPT !.lW = vf.d.lW, !.W = vf.d.W], !.solid = FALSE, !.gsh = 0] ELSE vf           \* vorbis_synthesis_restart does nothing on a cleared state

(* _fetch_and_process_packet(vf, NULL, readp, spanp): [ret, vf] *)
\* a page inside the current link (seekable handle: the link table says where it ends); the pinned tree took every BOS page of another serial number for
\* the next link (vf.pinbos pins that rule)
K_inlink(PG, LT, vf, p) == ~vf.pinbos /\ p.off >= LT[vf.link].off /\ p.off < LinkEnd(PG, LT, vf.link)
\* streaming: _fetch_headers(vf, vi, vc, NULL, NULL, &og) with the page in hand (index cur), then on with the new link
RECURSIVE StreamLink(_, _, _, _, _, _, _, _)
\* (a streaming handle - sk = FALSE - knows no link table: it takes the next link from the headers it meets, LT only says which block sizes a serial
\*  number has; positions are then the stream's own granule positions)
RECURSIVE Fetch(_, _, _, _, _, _, _)
Fetch(PG, LT, BL, vf0, readp, spanp, fuel) ==
  IF fuel = 0 THEN [ret |-> -999, vf |-> vf0]
  ELSE
  LET bl == IF vf0.sk THEN vf0.link ELSE vf0.bl                             \* whose block sizes the decoder has (streaming: the link whose headers were read)
      vf == IF vf0.rs # STREAMSET THEN vf0 ELSE [vf0 EXCEPT !.rs = INITSET, !.d = BK!DecRestart(BL[bl], vf0.hs), !.solid = FALSE, !.gsh = 0] IN
  IF vf.rs = INITSET /\ vf.os.q # <<>>
  THEN LET p == Head(vf.os.q)  no == vf.os.pno  v1 == [vf EXCEPT !.os = OsPop(@)] IN
       IF p.w = -2 THEN [ret |-> OV_HOLE, vf |-> v1]                                                        \* a gap in the data
       ELSE IF p.w = -1 THEN Fetch(PG, LT, BL, v1, readp, spanp, fuel - 1)                                 \* not audio: vorbis_synthesis refuses it, next packet
       ELSE IF BK!DecAvail(v1.d) > 0 THEN [ret |-> OV_EFAULT, vf |-> v1]
       ELSE LET d2 == [BK!DecBlockin(BL[bl], v1.d, p.w, no, p.g, p.eos, TRUE) EXCEPT !.seq = no]
                off2 == IF p.g # -1 /\ ~p.eos
                        THEN IF vf.sk THEN Clamp0(p.g - LT[vf.link].first) - BK!ShlI(BK!DecAvail(d2), vf.hs) + SumLen(LT, vf.link - 1)
                             ELSE Clamp0(p.g) - BK!ShlI(BK!DecAvail(d2), vf.hs)
                        ELSE v1.off
            IN [ret |-> 1, vf |-> [v1 EXCEPT !.d = d2, !.off = off2, !.gk = p.k, !.solid = FALSE, !.gsh = 0]]
  ELSE IF ~readp THEN [ret |-> 0, vf |-> vf]
  ELSE LET n == NextPage(PG, vf) IN
       IF n.r = 0 THEN [ret |-> OV_EOF, vf |-> [vf EXCEPT !.pos = n.pos]]
       ELSE LET p == PG[n.r]  v1 == [vf EXCEPT !.pos = n.pos] IN
            IF vf.rs = INITSET /\ vf.ser # p.ser
            THEN IF ~p.bos \/ (vf.sk /\ K_inlink(PG, LT, vf, p))
                 THEN Fetch(PG, LT, BL, v1, readp, spanp, fuel - 1)                                          \* a multiplexed stream (also its BOS page inside this link): next page
                 ELSE IF ~spanp THEN [ret |-> OV_EOF, vf |-> IF vf.sk THEN [vf EXCEPT !.pos = p.off] ELSE v1]    \* the page is put back (if the source can seek)
                 ELSE IF ~vf.sk THEN StreamLink(PG, LT, BL, DecodeClear(v1), n.r, readp, spanp, fuel)
                 ELSE LET v2 == DecodeClear(v1)  lk == LinkOfSerial(LT, p.ser) IN
                      IF lk = 0 THEN Fetch(PG, LT, BL, v2, readp, spanp, fuel - 1)
                      ELSE Fetch(PG, LT, BL, [v2 EXCEPT !.ser = p.ser, !.link = lk, !.rs = STREAMSET, !.os = PageIn(OsReset(p.ser), p)], readp, spanp, fuel - 1)
            ELSE IF vf.rs < STREAMSET /\ ~vf.sk THEN StreamLink(PG, LT, BL, v1, n.r, readp, spanp, fuel)
            ELSE IF vf.rs < STREAMSET
            THEN LET lk == LinkOfSerial(LT, p.ser) IN
                 IF lk = 0 THEN Fetch(PG, LT, BL, v1, readp, spanp, fuel - 1)
                 ELSE Fetch(PG, LT, BL, [v1 EXCEPT !.ser = p.ser, !.link = lk, !.rs = STREAMSET, !.os = PageIn(OsReset(p.ser), p)], readp, spanp, fuel - 1)
            ELSE Fetch(PG, LT, BL, [v1 EXCEPT !.os = PageIn(@, p)], readp, spanp, fuel - 1)

StreamLink(PG, LT, BL, vf, cur, readp, spanp, fuel) ==
  LET VS == { LT[i].ser : i \in 1..Len(LT) }
      KS == [chunk |-> 65536, near |-> 0, read |-> 2048, backup |-> "begin", handover |-> "refetch", clamp |-> TRUE]
      h == FetchBos(PG, VS, [off |-> vf.pos, base |-> vf.pos, probes |-> <<>>], cur, <<>>, FALSE, 0, KS, Len(PG) + 2) IN
  IF ~h.ok THEN [ret |-> -133, vf |-> [vf EXCEPT !.pos = h.rd.off, !.rs = OPENED]]
  ELSE Fetch(PG, LT, BL, [vf EXCEPT !.pos = h.rd.off, !.rs = STREAMSET, !.ser = IF vf.pinser THEN PG[cur].ser ELSE h.vser, !.link = @ + 1, !.bl = LinkOfSerial(LT, h.vser),          \* (pinser pins the rule "the serial number of the page in hand")
                                   !.os = [ser |-> h.vser, q |-> <<>>, pno |-> 3, part |-> FALSE, pn |-> -1]], readp, spanp, fuel - 1)

(* ov_read_float(vf, len): [ret, vf, dl]; dl = what was delivered: [link, k, j, n, t0] = n samples, the first being sample j (0..) of those
   the decoder produced from audio packet k of the link, with pcm_offset t0 before the call returned them; n = 0: nothing *)
NoDelivery == [link |-> 0, k |-> 0, j |-> 0, n |-> 0, t0 |-> 0, hs |-> 0]
RECURSIVE ReadLoop(_, _, _, _, _, _)
ReadLoop(PG, LT, BL, vf, len, fuel) ==
  IF fuel = 0 THEN [ret |-> -999, vf |-> vf, dl |-> NoDelivery]
  ELSE IF vf.rs = INITSET /\ BK!DecAvail(vf.d) > 0
  THEN LET m == IF BK!DecAvail(vf.d) > len THEN len ELSE BK!DecAvail(vf.d) IN
       [ret |-> m, vf |-> [vf EXCEPT !.d = BK!DecRead(@, m), !.off = @ + BK!ShlI(m, vf.hs)],
        dl |-> [link |-> vf.link, k |-> vf.gk, j |-> vf.d.ret - vf.d.centerW - vf.gsh, n |-> m, t0 |-> vf.off, hs |-> vf.hs]]
  ELSE LET f == Fetch(PG, LT, BL, vf, TRUE, TRUE, 4 * Len(PG) + 8) IN
       IF f.ret = OV_EOF THEN [ret |-> 0, vf |-> f.vf, dl |-> NoDelivery]
       ELSE IF f.ret <= 0 THEN [ret |-> f.ret, vf |-> f.vf, dl |-> NoDelivery]
       ELSE ReadLoop(PG, LT, BL, f.vf, len, fuel - 1)
Read(PG, LT, BL, vf, len) == ReadLoop(PG, LT, BL, vf, len, 4 * Len(PG) + 8)

(* ov_raw_seek(vf, pos): [ret, vf] *)
\* the scan loop; lc = [wq, lastblock, accblock, lastflag, firstflag]
RECURSIVE RawScan(_, _, _, _, _, _, _)
RawScan(PG, LT, BL, vf, lc, seekpos, fuel) ==
  IF fuel = 0 THEN [ret |-> -999, vf |-> vf]
  ELSE IF vf.rs >= STREAMSET /\ lc.wq # <<>> /\ Head(lc.wq).w = -2
  THEN RawScan(PG, LT, BL, vf, [lc EXCEPT !.wq = Tail(@), !.skip = TRUE], seekpos, fuel - 1)              \* a gap in the scratch stream: no packet this time round
  ELSE IF vf.rs >= STREAMSET /\ lc.wq # <<>> /\ ~lc.skip
  THEN LET p == Head(lc.wq)  wq2 == Tail(lc.wq)
           hdr == p.w = -1
           thisblock == IF hdr THEN 0 ELSE BK!Bs(BL[vf.link], p.w)
           drop == hdr \/ (lc.lastflag /\ ~lc.firstflag)
           acc2 == IF ~hdr /\ ~drop /\ lc.lastblock # 0 THEN lc.accblock + (lc.lastblock + thisblock) \div 4 ELSE lc.accblock
           v1 == IF drop THEN [vf EXCEPT !.os = OsPop(@)] ELSE vf
       IN IF p.g # -1
          THEN [ret |-> 0, vf |-> [v1 EXCEPT !.off = Clamp0(Clamp0(p.g - LT[vf.link].first) - acc2) + SumLen(LT, vf.link - 1)]]
          ELSE RawScan(PG, LT, BL, v1, [lc EXCEPT !.wq = wq2, !.lastblock = thisblock, !.accblock = acc2], seekpos, fuel - 1)
  ELSE IF lc.lastblock # 0 THEN [ret |-> 0, vf |-> [vf EXCEPT !.off = -1]]                                 \* "bogus stream with packets but no granulepos"
  ELSE LET n == NextPage(PG, vf) IN
       IF n.r = 0 THEN [ret |-> 0, vf |-> [vf EXCEPT !.pos = n.pos, !.off = Total(LT)]]
       ELSE LET p == PG[n.r]
                v1 == [vf EXCEPT !.pos = n.pos]
                crossed == v1.rs >= STREAMSET /\ v1.ser # p.ser /\ p.bos
                v2 == IF crossed THEN DecodeClear(v1) ELSE v1
                lc2 == IF crossed THEN [lc EXCEPT !.wq = <<>>, !.wpart = FALSE, !.wpn = -1] ELSE lc
            IN IF v2.rs < STREAMSET
               THEN LET lk == LinkOfSerial(LT, p.ser) IN
                    IF lk = 0 THEN RawScan(PG, LT, BL, v2, [lc2 EXCEPT !.skip = FALSE], seekpos, fuel - 1)
                    ELSE LET v3 == [v2 EXCEPT !.link = lk, !.ser = p.ser, !.rs = STREAMSET, !.os = PageIn(OsReset(p.ser), p)]
                             wos == PageIn(OsReset(p.ser), p)
                         IN RawScan(PG, LT, BL, v3, [lc2 EXCEPT !.wq = wos.q, !.wpart = wos.part, !.wpn = wos.pn, !.skip = FALSE, !.firstflag = (seekpos <= LT[lk].doff), !.lastflag = p.eos], seekpos, fuel - 1)
               ELSE \* the page goes to both streams (each refuses a foreign serial number); lastflag follows whatever page was read
                    LET wos == PageIn([ser |-> v2.ser, q |-> lc2.wq, pno |-> 0, part |-> lc2.wpart, pn |-> lc2.wpn], p) IN
                    RawScan(PG, LT, BL, [v2 EXCEPT !.os = PageIn(@, p)], [lc2 EXCEPT !.wq = wos.q, !.wpart = wos.part, !.wpn = wos.pn, !.skip = FALSE, !.lastflag = p.eos], seekpos, fuel - 1)
RawSeek(PG, LT, BL, vf, seekpos) ==
  IF seekpos < 0 \/ seekpos > DataEnd(PG) THEN [ret |-> OV_EINVAL, vf |-> vf]
  ELSE LET v1 == IF vf.rs >= STREAMSET /\ (seekpos < LT[vf.link].off \/ seekpos >= LinkEnd(PG, LT, vf.link)) THEN DecodeClear(vf) ELSE vf
           v2 == Restart(BL, [v1 EXCEPT !.off = -1, !.os = OsReset(v1.ser), !.pos = seekpos])
       IN RawScan(PG, LT, BL, v2, [wq |-> <<>>, wpart |-> FALSE, wpn |-> -1, skip |-> FALSE, lastblock |-> 0, accblock |-> 0, lastflag |-> FALSE, firstflag |-> FALSE], seekpos, 6 * Len(PG) + 12)

(* ov_pcm_seek_page(vf, target): [ret, vf].  The search itself is VFSeek!Submit on the pages of the link; here: what is done with the page found *)
LinkOfPos(LT, t) ==      \* for(link=links-1; link>=0; link--){ total -= len; if(pos >= total) break; }
  LET c == { i \in 1..Len(LT) : t >= SumLen(LT, i - 1) } IN CHOOSE i \in c : \A j \in c : j <= i
OursOf(PG, ser) == [i \in 1..Len(PG) |-> [PG[i] EXCEPT !.ours = (PG[i].ser = ser)]]
\* common tail: machine for link lk, stream reset, page submitted
HandOver(BL, vf, lk, ser, p) ==
  LET v1 == IF lk # vf.link \/ vf.rs < STREAMSET THEN [DecodeClear(vf) EXCEPT !.link = lk, !.ser = ser, !.rs = STREAMSET] ELSE Restart(BL, vf)
  IN [v1 EXCEPT !.os = PageIn(OsReset(v1.ser), p)]
SeekError(vf, code) == [ret |-> code, vf |-> [DecodeClear(vf) EXCEPT !.off = -1]]
\* _get_prev_page from offset o: the last page that begins before o (0: none) - the continued-packet fallback
PrevPage(PG, o) == LET c == { i \in 1..Len(PG) : PG[i].off < o } IN IF c = {} THEN 0 ELSE CHOOSE i \in c : \A j \in c : j <= i
RECURSIVE Rewind(_, _, _, _, _, _, _)
Rewind(PG, LT, BL, vf, lk, result, fuel) ==
  IF fuel = 0 THEN [ret |-> -999, vf |-> vf]
  ELSE IF ~(result > LT[lk].doff) THEN SeekError(vf, OV_EBADPACKET)
  ELSE LET q == PrevPage(PG, result) IN
       IF q = 0 THEN SeekError(vf, OV_EBADLINK)
       ELSE IF PG[q].ser = vf.ser /\ (PG[q].gp > -1 \/ ~PG[q].cont) THEN RawSeek(PG, LT, BL, vf, PG[q].off)
       ELSE Rewind(PG, LT, BL, vf, lk, PG[q].off, fuel - 1)
PcmSeekPage(PG, LT, BL, vf, target, K) ==
  IF target < 0 \/ target > Total(LT) THEN [ret |-> OV_EINVAL, vf |-> vf]
  ELSE LET lk == LinkOfPos(LT, target)
           total == SumLen(LT, lk - 1)
           L == LT[lk]
           endoff == LinkEnd(PG, LT, lk)
           PGo == OursOf(PG, L.ser)
           r == Search(PGo, L.doff, endoff, L.first, L.first + L.len, target - total + L.first, K, vf.pos)
       IN \* (repaired, ad70f26) a link without any audio page has one position, its start: the handle is set up there without looking for a page
          \* (the pinned tree went on to its one-page special case, asked for a page that is not there and failed with the position lost)
          IF L.doff = endoff /\ target = total /\ L.len = 0
          THEN LET v1 == IF lk # vf.link \/ vf.rs < STREAMSET THEN [DecodeClear(vf) EXCEPT !.link = lk, !.ser = L.ser, !.rs = STREAMSET] ELSE Restart(BL, vf)
               IN [ret |-> 0, vf |-> [v1 EXCEPT !.os = OsReset(v1.ser), !.pos = L.doff, !.off = total]]
          ELSE IF r.steps < 0 THEN SeekError(vf, IF r.steps = -1 THEN -999 ELSE OV_EBADLINK)
          ELSE IF r.best = -1
          THEN \* "the beginning-of-stream case": the first page of the link's stream is fetched again
               IF ~(r.og # 0 /\ r.begin = L.doff) THEN SeekError(vf, OV_EBADLINK)
               ELSE LET f == Refetch(PGo, SeekTo(r, L.doff), endoff, K, Len(PG) + 1) IN
                    IF f.sub = 0 THEN SeekError(vf, OV_EBADLINK)
                    ELSE LET v2 == [HandOver(BL, [vf EXCEPT !.pos = f.st.off], lk, L.ser, PG[f.sub]) EXCEPT !.off = total] IN
                         IF v2.off > target THEN SeekError(v2, OV_EFAULT) ELSE [ret |-> 0, vf |-> v2]
          ELSE LET sk == SeekTo(r, r.best)  g == GetNext(PGo, sk, -1, K) IN
               IF g.r = 0 THEN SeekError(vf, OV_EBADLINK)
               ELSE LET p == PG[g.r]
                        v2 == [HandOver(BL, [vf EXCEPT !.pos = g.off], lk, L.ser, p) EXCEPT !.off = -1]
                        n == Len(v2.os.q)                                                                  \* "pull out all but last packet; the one with granulepos"
                    IN IF n = 0 THEN Rewind(PG, LT, BL, v2, lk, r.best, Len(PG) + 2)
                       ELSE LET lastp == v2.os.q[n]
                                v3 == [v2 EXCEPT !.os.q = << lastp >>, !.os.pno = n - 1, !.off = Clamp0(lastp.g - L.first) + total] IN
                            IF lastp.g = -1 THEN SeekError(v2, OV_EBADPACKET)                              \* (a page whose last packet has no position: not built here)
                            ELSE IF v3.off > target THEN SeekError(v3, OV_EFAULT) ELSE [ret |-> 0, vf |-> v3]

(* ov_pcm_seek(vf, target) = ov_pcm_seek_page + the two discard loops: [ret, vf] *)
\* loop 1: packets that are not needed for the lapping of the target are tracked, not decoded
RECURSIVE Discard(_, _, _, _, _, _, _, _)
Discard(PG, LT, BL, vf, lastblock, target, K, fuel) ==
  IF fuel = 0 THEN [ret |-> -999, vf |-> vf]
  ELSE IF vf.os.q # <<>>
  THEN LET p == Head(vf.os.q) IN
       IF p.w = -2 THEN [ret |-> 0, vf |-> [vf EXCEPT !.os = OsPop(@)]]                                    \* a gap: the peek reports -1, which is not OV_HOLE (-3): the loop ends
       ELSE IF p.w = -1 THEN Discard(PG, LT, BL, [vf EXCEPT !.os = OsPop(@)], lastblock, target, K, fuel - 1)
       ELSE LET thisblock == BK!Bs(BL[vf.link], p.w)
                off1 == IF lastblock # 0 THEN vf.off + (lastblock + thisblock) \div 4 ELSE vf.off IN
            \* (the pinned tree took the long block of the FIRST link here, vorbis_info_blocksize(vf->vi, 1); K.discardvi = "first" pins that rule)
            IF off1 + (thisblock + (IF "discardvi" \in DOMAIN K /\ K.discardvi = "first" THEN BL[1][2] ELSE BL[vf.link][2])) \div 4 >= target THEN [ret |-> 0, vf |-> [vf EXCEPT !.off = off1]]
            ELSE LET no == vf.os.pno
                     d2 == [BK!DecBlockin(BL[vf.link], vf.d, p.w, no, p.g, p.eos, FALSE) EXCEPT !.seq = no]
                     off2 == IF p.g > -1 THEN Clamp0(p.g - LT[vf.link].first) + SumLen(LT, vf.link - 1) ELSE off1
                 IN Discard(PG, LT, BL, [vf EXCEPT !.os = OsPop(@), !.d = d2, !.off = off2], thisblock, target, K, fuel - 1)
  ELSE LET n == NextPage(PG, vf) IN
       IF n.r = 0 THEN [ret |-> 0, vf |-> [vf EXCEPT !.pos = n.pos]]
       ELSE LET p == PG[n.r]
                v1 == IF p.bos THEN DecodeClear([vf EXCEPT !.pos = n.pos]) ELSE [vf EXCEPT !.pos = n.pos] IN
            IF v1.rs < STREAMSET
            THEN LET lk == LinkOfSerial(LT, p.ser) IN
                 IF lk = 0 THEN Discard(PG, LT, BL, v1, lastblock, target, K, fuel - 1)
                 ELSE LET v2 == MakeReady(BL, [v1 EXCEPT !.link = lk, !.rs = STREAMSET, !.ser = p.ser, !.os = OsReset(p.ser)]) IN
                      Discard(PG, LT, BL, [v2 EXCEPT !.os = PageIn(@, p)], 0, target, K, fuel - 1)
            ELSE Discard(PG, LT, BL, [v1 EXCEPT !.os = PageIn(@, p)], lastblock, target, K, fuel - 1)
\* loop 2: decoded samples before the target are dropped
RECURSIVE Drop(_, _, _, _, _, _)
Drop(PG, LT, BL, vf, target, fuel) ==
  LET hs == vf.hs  lim == IF hs = 1 THEN 2 * (target \div 2) ELSE target IN          \* while(pcm_offset < ((pos>>hs)<<hs))
  IF fuel = 0 THEN [ret |-> -999, vf |-> vf]
  ELSE IF ~(vf.off < lim) THEN [ret |-> 0, vf |-> vf]
  ELSE LET want == BK!ShrI(target - vf.off, hs)
           have == IF vf.rs = INITSET THEN BK!DecAvail(vf.d) ELSE 0
           m == IF have > want THEN want ELSE have
           v1 == IF m > 0 THEN [vf EXCEPT !.d = BK!DecRead(@, m), !.off = @ + BK!ShlI(m, hs)] ELSE vf
       IN IF want <= 0 THEN [ret |-> 0, vf |-> vf]          \* half rate: less than one output sample left to discard
          ELSE IF m < want
          THEN LET f == Fetch(PG, LT, BL, v1, TRUE, TRUE, 4 * Len(PG) + 8) IN
               IF f.ret = -999 THEN [ret |-> -999, vf |-> f.vf]
               ELSE IF f.ret <= 0 THEN Drop(PG, LT, BL, [f.vf EXCEPT !.off = Total(LT)], target, fuel - 1)
               ELSE Drop(PG, LT, BL, f.vf, target, fuel - 1)
          ELSE Drop(PG, LT, BL, v1, target, fuel - 1)
PcmSeek(PG, LT, BL, vf, target, K) ==
  LET s == PcmSeekPage(PG, LT, BL, vf, target, K) IN
  IF s.ret # 0 THEN s
  ELSE LET v1 == MakeReady(BL, s.vf)
           a == Discard(PG, LT, BL, v1, 0, target, K, 4 * Len(PG) + 8 + NPk(PG, Len(PG))) IN
       IF a.ret # 0 THEN a ELSE Drop(PG, LT, BL, a.vf, target, 8 * Len(PG) + 16 + NPk(PG, Len(PG)))

(* the lapped seeks: _ov_64_seek_lap / _ov_d_seek_lap around one of the plain seeks: [ret, vf].  The blend itself is float arithmetic and not here;
   what is here is what the call does to the handle: samples taken for the lap before the seek, the buffer primed and consolidated after it *)
RECURSIVE InitSet(_, _, _, _, _)
InitSet(PG, LT, BL, vf, fuel) ==
  IF fuel = 0 THEN [ret |-> -999, vf |-> vf]
  ELSE IF vf.rs = INITSET THEN [ret |-> 0, vf |-> vf]
  ELSE LET f == Fetch(PG, LT, BL, vf, TRUE, FALSE, 4 * Len(PG) + 8) IN IF f.ret < 0 /\ f.ret # OV_HOLE THEN f ELSE InitSet(PG, LT, BL, f.vf, fuel - 1)
RECURSIVE InitPrime(_, _, _, _, _)
InitPrime(PG, LT, BL, vf, fuel) ==
  IF fuel = 0 THEN [ret |-> -999, vf |-> vf]
  ELSE IF vf.rs = INITSET /\ BK!DecAvail(vf.d) > 0 THEN [ret |-> 0, vf |-> vf]
  ELSE LET f == Fetch(PG, LT, BL, vf, TRUE, FALSE, 4 * Len(PG) + 8) IN IF f.ret < 0 /\ f.ret # OV_HOLE THEN f ELSE InitPrime(PG, LT, BL, f.vf, fuel - 1)
Lapout(BL, vf) == LET r == BK!DecLapout(BL[vf.link], vf.d, vf.solid) IN
                  [vf EXCEPT !.d = r.d, !.solid = r.solid, !.gsh = @ + (r.d.ret - r.d.centerW) - (vf.d.ret - vf.d.centerW)]
RECURSIVE GetLap(_, _, _, _, _, _, _)
GetLap(PG, LT, BL, vf, lapsize, lapcount, fuel) ==
  IF fuel = 0 THEN [ret |-> -999, vf |-> vf]
  ELSE IF ~(lapcount < lapsize) THEN [ret |-> 0, vf |-> vf]
  ELSE LET have == IF vf.rs = INITSET THEN BK!DecAvail(vf.d) ELSE 0 IN
       IF have > 0
       THEN LET m == IF have > lapsize - lapcount THEN lapsize - lapcount ELSE have IN
            GetLap(PG, LT, BL, [vf EXCEPT !.d = BK!DecRead(@, m), !.off = IF @ >= 0 THEN @ + BK!ShlI(m, vf.hs) ELSE @], lapsize, lapcount + m, fuel - 1)
       ELSE LET f == Fetch(PG, LT, BL, vf, TRUE, FALSE, 4 * Len(PG) + 8) IN
            IF f.ret = -999 THEN f
            ELSE IF f.ret = OV_EOF THEN [ret |-> 0, vf |-> IF f.vf.rs = INITSET THEN Lapout(BL, f.vf) ELSE f.vf]          \* the rest comes from lapout
            ELSE GetLap(PG, LT, BL, f.vf, lapsize, lapcount, fuel - 1)
\* kind: "pcm" | "page" | "raw" | "einval"
LapSeek(PG, LT, BL, vf, kind, arg, K) ==
  LET a == InitSet(PG, LT, BL, vf, Len(PG) + 4) IN
  IF a.ret # 0 THEN a
  ELSE LET n1 == BK!ShrI(BL[a.vf.link][1] \div 2, a.vf.hs)
           g == GetLap(PG, LT, BL, a.vf, n1, 0, 4 * Len(PG) + 16) IN
       IF g.ret # 0 THEN g
       ELSE LET s == IF kind = "pcm" THEN PcmSeek(PG, LT, BL, g.vf, arg, K) ELSE IF kind = "page" THEN PcmSeekPage(PG, LT, BL, g.vf, arg, K)
                     ELSE IF kind = "raw" THEN RawSeek(PG, LT, BL, g.vf, arg) ELSE [ret |-> OV_EINVAL, vf |-> g.vf] IN          \* "einval": a time outside the stream
            IF s.ret # 0 THEN s
            ELSE LET p == InitPrime(PG, LT, BL, s.vf, Len(PG) + 4) IN
                 IF p.ret # 0 THEN p ELSE [ret |-> 0, vf |-> Lapout(BL, p.vf)]

(* ov_crosslap(vf1, vf2) on two different handles (each with its own file): [ret, vf1, vf2] *)
Crosslap(PG1, LT1, BL1, vf1, PG2, LT2, BL2, vf2) ==
  LET a == InitSet(PG1, LT1, BL1, vf1, Len(PG1) + 4) IN
  IF a.ret # 0 THEN [ret |-> a.ret, vf1 |-> a.vf, vf2 |-> vf2]
  ELSE LET p == InitPrime(PG2, LT2, BL2, vf2, Len(PG2) + 4) IN
       IF p.ret # 0 THEN [ret |-> p.ret, vf1 |-> a.vf, vf2 |-> p.vf]
       ELSE IF a.vf.hs # p.vf.hs THEN [ret |-> OV_EINVAL, vf1 |-> a.vf, vf2 |-> p.vf]
       ELSE LET g == GetLap(PG1, LT1, BL1, a.vf, BK!ShrI(BL1[a.vf.link][1] \div 2, a.vf.hs), 0, 4 * Len(PG1) + 16) IN
            [ret |-> IF g.ret = -999 THEN -999 ELSE 0, vf1 |-> g.vf, vf2 |-> Lapout(BL2, p.vf)]

(* ov_halfrate(vf, flag) on a stream all of whose links accept it: [ret, vf] *)
HalfRate(PG, LT, BL, vf, flag, K) ==
  LET reseek == vf.rs > STREAMSET
      v1 == [vf EXCEPT !.rs = IF reseek THEN STREAMSET ELSE @, !.hs = flag] IN
  IF reseek /\ v1.off >= 0
  THEN LET s == PcmSeek(PG, LT, BL, [v1 EXCEPT !.off = -1], v1.off, K) IN [ret |-> IF s.ret = -999 THEN -999 ELSE 0, vf |-> s.vf]
  ELSE [ret |-> 0, vf |-> v1]

(* ov_raw_seek when the seek callback fails: the machine is dumped, the position unknown *)
RawSeekSeekFails(PG, LT, BL, vf, seekpos) ==
  IF seekpos < 0 \/ seekpos > DataEnd(PG) THEN [ret |-> OV_EINVAL, vf |-> vf]
  ELSE IF seekpos = vf.pos THEN RawSeek(PG, LT, BL, vf, seekpos)                       \* "only seek if the file position isn't already there": the callback is not asked
  ELSE LET v1 == IF vf.rs >= STREAMSET /\ (seekpos < LT[vf.link].off \/ seekpos >= LinkEnd(PG, LT, vf.link)) THEN DecodeClear(vf) ELSE vf
           v2 == Restart(BL, [v1 EXCEPT !.off = -1, !.os = OsReset(v1.ser)])
       IN [ret |-> OV_EBADLINK, vf |-> DecodeClear(v2)]

(* the handle as _open_seekable2 leaves it: link table built, then ov_raw_seek(dataoffsets[0]) *)
Opened(PG, LT, BL) ==
  LET v0 == [rs |-> OPENED, link |-> 1, ser |-> LT[1].ser, off |-> -1, d |-> BK!DecRestart(BL[1], 0), os |-> OsReset(LT[1].ser), pos |-> 0, gk |-> 0, hs |-> 0, sk |-> TRUE, pinser |-> FALSE, pinbos |-> FALSE, fault |-> FALSE, bl |-> 1, solid |-> FALSE, gsh |-> 0]
  IN RawSeek(PG, LT, BL, v0, LT[1].doff)
(* a streaming handle after ov_open_callbacks: the headers of the first link read, nothing else *)
OpenedStreaming(PG, LT, BL) ==
  LET VS == { LT[i].ser : i \in 1..Len(LT) }
      KS == [chunk |-> 65536, near |-> 0, read |-> 2048, backup |-> "begin", handover |-> "refetch", clamp |-> TRUE]
      h == FetchHeaders(PG, VS, [off |-> 0, base |-> 0, probes |-> <<>>], KS) IN
  IF ~h.ok THEN [ret |-> -132, vf |-> <<>>]
  ELSE [ret |-> 0, vf |-> [rs |-> STREAMSET, link |-> 1, ser |-> h.vser, off |-> 0, d |-> BK!DecRestart(BL[1], 0), os |-> [ser |-> h.vser, q |-> <<>>, pno |-> 3, part |-> FALSE, pn |-> -1],
                           pos |-> h.rd.off, gk |-> 0, hs |-> 0, sk |-> FALSE, pinser |-> FALSE, pinbos |-> FALSE, fault |-> FALSE, bl |-> LinkOfSerial(LT, h.vser), solid |-> FALSE, gsh |-> 0]]
=============================================================================

SPECIFICATION Spec
CONSTANTS MaxEntries = 5
 MaxLenBits = 3
 Gen = FALSE
INVARIANT OverIffKraft
INVARIANT CarryChainAgrees
INVARIANT FastAgrees
INVARIANT PrefixFree
INVARIANT RoundTrip
INVARIANT FirstIsZero
INVARIANT ModelAgrees
CHECK_DEADLOCK FALSE

------------------------------ MODULE Bitrate ------------------------------
(***************************************************************************)
(* The bitrate manager of the encoder (lib/bitrate.c).                     *)
(*                                                                         *)
(* AddBlock is vorbis_bitrate_addblock transcribed statement by statement  *)
(* on integers.  The only part that is not integer arithmetic, the         *)
(* floating "average" tracker that proposes a starting candidate, is       *)
(* replaced by its result: the candidate index `ac` it hands to the hard   *)
(* limit stage (any index when an average is configured, the middle        *)
(* candidate otherwise).  That is an over-approximation, so everything     *)
(* proved about the hard limits holds for whatever the tracker does.       *)
(*                                                                         *)
(* A parameter record P is                                                 *)
(*   [K     number of candidate packets per block (PACKETBLOBS = 15),      *)
(*    minb, maxb, avgb   bits per half short block (0 = limit not set),    *)
(*    spl   short blocks per long block,                                   *)
(*    R     reservoir size in bits,  fill  desired fill (R * bias)]        *)
(* sz is the sequence of the K candidate sizes in BYTES, W the block flag  *)
(* (1 = long block), res the reservoir before the call.                    *)
(***************************************************************************)
EXTENDS Integers, Sequences

\* C division truncates toward zero
CDiv(a, b) == IF a >= 0 THEN a \div b ELSE -((-a) \div b)
MaxI(a, b) == IF a >= b THEN a ELSE b
MinI(a, b) == IF a <= b THEN a ELSE b

MinT(P, W) == IF W = 1 THEN P.minb * P.spl ELSE P.minb
MaxT(P, W) == IF W = 1 THEN P.maxb * P.spl ELSE P.maxb
AvgT(P, W) == IF W = 1 THEN P.avgb * P.spl ELSE P.avgb
Bits(sz, c) == 8 * sz[c + 1]

\* "enforce min": raise the candidate while the reservoir cannot pay for the deficit.
\* State of the C loop is the pair <<choice, this_bits>>; choice may leave the loop as K (with the bits of K-1).
RECURSIVE MinLoop(_, _, _, _, _, _)
MinLoop(P, W, sz, res, c, tb) ==
  IF res - (MinT(P, W) - tb) < 0
  THEN IF c + 1 >= P.K THEN <<c + 1, tb>> ELSE MinLoop(P, W, sz, res, c + 1, Bits(sz, c + 1))
  ELSE <<c, tb>>
MinStage(P, W, sz, res, c, tb) ==
  IF P.minb > 0 /\ tb < MinT(P, W) THEN MinLoop(P, W, sz, res, c, tb) ELSE <<c, tb>>

\* "enforce max": lower the candidate while the excess does not fit into the reservoir; may leave as -1
RECURSIVE MaxLoop(_, _, _, _, _, _)
MaxLoop(P, W, sz, res, c, tb) ==
  IF res + (tb - MaxT(P, W)) > P.R
  THEN IF c - 1 < 0 THEN <<c - 1, tb>>
       ELSE MaxLoop(P, W, sz, res, c - 1, IF c - 1 < P.K THEN Bits(sz, c - 1) ELSE tb)
  ELSE <<c, tb>>
MaxStage(P, W, sz, res, c, tb) ==
  IF P.maxb > 0 /\ tb > MaxT(P, W) THEN MaxLoop(P, W, sz, res, c, tb) ELSE <<c, tb>>

\* the three-way reservoir update
ResUpdate(P, W, res, tb) ==
  LET mn == MinT(P, W)  mx == MaxT(P, W) IN
  IF ~(P.minb > 0 \/ P.maxb > 0) THEN res
  ELSE IF mx > 0 /\ tb > mx THEN res + (tb - mx)
  ELSE IF mn > 0 /\ tb < mn THEN res + (tb - mn)
  ELSE IF res > P.fill
       THEN (IF mx > 0 THEN MaxI(res + (tb - mx), P.fill) ELSE P.fill)
       ELSE (IF mn > 0 THEN MinI(res + (tb - mn), P.fill) ELSE P.fill)

\* result of one call: chosen candidate, final packet size in bytes, reservoir afterwards, what was done to the packet
AddBlock(P, W, sz, res, ac) ==
  LET s1 == MinStage(P, W, sz, res, ac, Bits(sz, ac))
      s2 == MaxStage(P, W, sz, res, s1[1], s1[2])
      c2 == s2[1]
  IN IF c2 < 0
     THEN LET maxsize == CDiv(MaxT(P, W) + (P.R - res), 8)
              bytes   == IF sz[1] > maxsize THEN maxsize ELSE sz[1]
          IN [choice |-> 0, bytes |-> bytes, res |-> ResUpdate(P, W, res, 8 * bytes),
              trunc |-> sz[1] > maxsize, pad |-> FALSE]
     ELSE LET c       == IF c2 >= P.K THEN P.K - 1 ELSE c2
              minsize == CDiv(MinT(P, W) - res + 7, 8)
              bytes   == MaxI(sz[c + 1], minsize)
          IN [choice |-> c, bytes |-> bytes, res |-> ResUpdate(P, W, res, 8 * bytes),
              trunc |-> FALSE, pad |-> minsize > sz[c + 1]]

\* candidates the average tracker may hand over
AvgChoices(P) == IF P.avgb > 0 THEN 0 .. (P.K - 1) ELSE {P.K \div 2}
Outcomes(P, W, sz, res) == { AddBlock(P, W, sz, res, ac) : ac \in AvgChoices(P) }

(***************************************************************************)
(* The property (C14), in the manager's own units: a block of flag W lasts *)
(* spl^W half short blocks, so its budget is MaxT / MinT bits.  `dmax` is  *)
(* the largest excess over the maximum of any run of packets ending now,   *)
(* `dmin` the largest shortfall below the minimum.                         *)
(***************************************************************************)
DMax(P, W, dmax, bytes) == IF P.maxb > 0 THEN MaxI(0, dmax + 8 * bytes - MaxT(P, W)) ELSE 0
DMin(P, W, dmin, bytes) == IF P.minb > 0 THEN MaxI(0, dmin + MinT(P, W) - 8 * bytes) ELSE 0

\* Packets are whole bytes: with both limits set a reservoir below one byte cannot be honoured by anybody.
Domain(P) == /\ P.R >= 1 /\ 0 <= P.fill /\ P.fill <= P.R
             /\ (P.minb > 0 /\ P.maxb > 0 => P.minb <= P.maxb /\ P.R >= 8)
WindowMaxOK(P, dmax) == P.maxb > 0 => dmax <= P.R
WindowMinOK(P, dmin) == P.minb > 0 => dmin <= P.R
=============================================================================

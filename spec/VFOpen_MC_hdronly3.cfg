SPECIFICATION Spec
CONSTANTS MaxLinks = 3
 Lens = {1,4}
 Chunk = 4
 Read = 2
 Shapes = {1,6,14,15}
 Damage = 0
 Clamp = TRUE
 Trim = TRUE
 SearchFrom = "dataoffset"
INVARIANT OpenSucceeds
INVARIANT LinkTableIsTheTruth
CHECK_DEADLOCK FALSE

-------------------------- MODULE HdrVerdict_Trace --------------------------
(***************************************************************************)
(* The verdict of the strict reader against the verdict of the decoder on  *)
(* setup headers that are one or a few bit flips away from encoder-made    *)
(* ones.  A header the reader finds well-formed must be accepted           *)
(* (ValidHeaderAccepted, an alarm: a well-formed stream must decode); a    *)
(* header the decoder accepts although the reader refuses it is a note     *)
(* (DRIFT AcceptedThoughRefusedByReader): the reader also enforces the     *)
(* limits of this implementation that SetupOK spells out, and its own      *)
(* size bound.                                                             *)
(***************************************************************************)
EXTENDS SetupParse, TLC, Json, IOUtils
Tr == ndJsonDeserialize(IOEnv.TRACE)
VARIABLES l, scn, n, pend
vars == <<l, scn, n, pend>>
Out(kind, rules, e) == IF rules = {} THEN TRUE ELSE PrintT(kind \o " " \o ToJson([line |-> l, scn |-> Tr[scn].scn, ev |-> e.e, rules |-> rules]))
None == [have |-> FALSE, valid |-> FALSE, ret |-> 0]
Init == l = 1 /\ scn = 1 /\ n = [valid |-> 0, invalid |-> 0] /\ pend = None
\* the decoder's verdict is complete only after vorbis_synthesis_init: the Huffman trees are built (and refused) there, not in vorbis_synthesis_headerin
Next ==
  /\ l <= Len(Tr)
  /\ LET e == Tr[l] IN
     CASE e.e = "Reset" -> scn' = l /\ l' = l + 1 /\ pend' = None /\ UNCHANGED n
       [] e.e = "HeaderIn" /\ "setupbytes" \in DOMAIN e /\ e.nhb = 1 ->
            LET v == HeadersValid(e.idbytes, e.setupbytes) IN
            /\ pend' = [have |-> TRUE, valid |-> v, ret |-> e.ret]
            /\ n' = (IF v THEN [n EXCEPT !.valid = @ + 1] ELSE [n EXCEPT !.invalid = @ + 1]) /\ l' = l + 1 /\ UNCHANGED scn
       [] e.e = "SynthInit" /\ pend.have ->
            LET accepted == pend.ret = 0 /\ e.ret = 0 IN
            /\ Out("VIOL", IF pend.valid /\ ~accepted THEN {"ValidHeaderAccepted"} ELSE {}, e)
            /\ Out("DRIFT", IF ~pend.valid /\ accepted THEN {"AcceptedThoughRefusedByReader"} ELSE {}, e)
            /\ pend' = None /\ l' = l + 1 /\ UNCHANGED <<scn, n>>
       [] e.e = "End" -> PrintT("JUDGED " \o ToJson(n)) /\ n' = [valid |-> 0, invalid |-> 0] /\ l' = l + 1 /\ UNCHANGED <<scn, pend>>
       [] OTHER -> l' = l + 1 /\ UNCHANGED <<scn, n, pend>>
Spec == Init /\ [][Next]_vars
TypeOK == l >= 1
Accepted == TLCGet("stats").diameter = Len(Tr) + 1
=============================================================================

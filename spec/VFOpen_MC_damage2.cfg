SPECIFICATION Spec
CONSTANTS MaxLinks = 2
 Lens = {1,4}
 Chunk = 4
 Read = 2
 Shapes = {1,2,4,6,8,10,11,14}
 Damage = 2
 Clamp = TRUE
 Trim = FALSE
 SearchFrom = "dataoffset"
INVARIANT NoLoopBoundHit
INVARIANT ProbesInsideFile
INVARIANT TableSane
CHECK_DEADLOCK FALSE

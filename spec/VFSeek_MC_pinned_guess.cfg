SPECIFICATION Spec
CONSTANTS MaxPages = 2
 EndAt = "data"
 Lens = {1,4}
 Chunk = 4
 Reads = {2}
 BackUpRule = "begin"
 HandOver = "refetch"
 GuessRule = "pinned"
 Lies = TRUE
INVARIANT Terminates
INVARIANT ProbesInsideFile
CHECK_DEADLOCK FALSE

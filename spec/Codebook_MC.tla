---------------------------- MODULE Codebook_MC ----------------------------
(***************************************************************************)
(* Exhaustive check of the codeword assignment on every length list over   *)
(* 0..MaxLenBits with at most MaxEntries entries, and generation of decode *)
(* tests for the real decoder: a synthetic set-up whose floor-1 posts are  *)
(* read through the codebook under test, and audio packets that spell out  *)
(* chosen entries codeword by codeword; the decoder must consume exactly   *)
(* the bits of the codewords (observable through the packet bit counter).  *)
(***************************************************************************)
EXTENDS Codebook, AudioRead, TLC, Json
CONSTANTS MaxEntries, MaxLenBits, Gen
VARIABLES lens, done
vars == <<lens, done>>
Lists == UNION { [1..k -> 0..MaxLenBits] : k \in 1..MaxEntries }
Init == lens \in Lists /\ done = FALSE
Next == ~done /\ done' = TRUE /\ UNCHANGED lens
Spec == Init /\ [][Next]_vars

CW == Codewords(lens)
Used == { j \in 1..Len(lens) : lens[j] > 0 }
Complete == Kraft(lens) = 65536
\* the assignment fails exactly when the lengths over-subscribe the tree
OverIffKraft == Overpopulated(lens) <=> Kraft(lens) > 65536
CarryChainAgrees == KraftOne(lens) <=> Kraft(lens) = 65536
\* the marker algorithm (AudioRead.FastWords, the shape of lib/sharedbook.c _make_words) assigns the same words as the declarative rule, flags the same lists
\* as overpopulated, and its lookup table decodes every word to its entry
FastAgrees == /\ FastWords(lens).over = Overpopulated(lens)
              /\ (~Overpopulated(lens) => FastWords(lens).words = CW)
              /\ (~Overpopulated(lens) => LET cm == CwMap(lens) IN cm.ok /\ \A a \in Used : cm.map[<<lens[a], CW[a].w>>] = a)
PrefixFree == ~Overpopulated(lens) => \A a, b \in Used : a # b => ~Clash(CW[a].w, CW[a].l, CW[b].w, CW[b].l)
\* every codeword decodes to its own entry and consumes exactly its length, whatever follows
RoundTrip == ~Overpopulated(lens) => \A a \in Used : \A tail \in {<<>>, <<0>>, <<1>>, <<1, 0, 1>>} :
                LET bits == [i \in 1..lens[a] |-> WordBits(CW[a].w, lens[a])[i][1]] \o tail
                    r == Decode(CW, bits) IN r.entry = a /\ r.used = lens[a]
\* lowest-first: the first used entry gets the all-zero word
FirstIsZero == ~Overpopulated(lens) /\ Used # {} => CW[CHOOSE a \in Used : \A b \in Used : a <= b].w = 0

\* ---- generation: set-up with this book as the floor-1 post book, packets spelling entry sequences ----
BookUT == [dim |-> 1, entries |-> Len(lens), ordered |-> 0, sparse |-> IF \E j \in 1..Len(lens) : lens[j] = 0 THEN 1 ELSE 0, lens |-> lens,
           maptype |-> 0, qmin |-> 0, qdelta |-> 0, qbits |-> 1, qseq |-> 0, quant |-> <<>>]
Aux == [dim |-> 2, entries |-> 4, ordered |-> 0, sparse |-> 0, lens |-> <<2, 2, 2, 2>>, maptype |-> 0, qmin |-> 0, qdelta |-> 0, qbits |-> 1, qseq |-> 0, quant |-> <<>>]
S == [ch |-> 1, rate |-> 8000, e0 |-> 6, e1 |-> 7, books |-> << BookUT, Aux >>,
      floors |-> << [type |-> 1, parts |-> <<0>>, cdim |-> <<4>>, csubs |-> <<0>>, cbook |-> <<0>>, csub |-> << <<0>> >>, mult |-> 1, rb |-> 5, posts |-> <<16, 8, 24, 4>>] >>,
      residues |-> << [type |-> 1, begin |-> 0, end |-> 32, psize |-> 8, nclass |-> 2, gbook |-> 1, cascade |-> <<0, 0>>, rbooks |-> <<>>] >>,
      maps |-> << [submaps |-> 1, coupling |-> <<>>, mux |-> <<>>, sfloor |-> <<0>>, sres |-> <<0>>] >>,
      modes |-> << [bf |-> 0, wt |-> 0, tt |-> 0, map |-> 0], [bf |-> 1, wt |-> 0, tt |-> 0, map |-> 0] >>]
\* a floor-using packet for mode 0: type, mode, nonzero, two 8-bit end posts, then four codewords
Packet(es) == << <<0, 1>>, <<0, 1>>, <<1, 1>>, <<100, 8>>, <<50, 8>> >> \o Cat([i \in 1..4 |-> WordBits(CW[es[i]].w, lens[es[i]])])
UsedSeq == LET U == Used IN [i \in 1..Cardinality(U) |-> CHOOSE a \in U : Cardinality({ b \in U : b < a }) = i - 1]
Entries4(k) == [i \in 1..4 |-> UsedSeq[1 + ((k + i * (i + k)) % Len(UsedSeq))]]
TreeGood == TreeOK(lens) /\ ~Overpopulated(lens)
Export == (Gen /\ done /\ Used # {}) =>
  PrintT("CASE " \o ToJson([name |-> "book", ok |-> SetupOK(S), idok |-> TRUE, ch |-> 1, e0 |-> 6, e1 |-> 7, id |-> IdFields(S), setup |-> SetupFields(S), lens |-> lens,
                            audio |-> IF TreeGood THEN [k \in 1..3 |-> [W |-> 0, f |-> Packet(Entries4(k))]] ELSE <<>>]))
ModelAgrees == SetupOK(S) <=> TreeGood       \* the validity predicate of Setup.tla and the assignment algorithm agree on which trees are usable
=============================================================================

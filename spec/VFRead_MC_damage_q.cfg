SPECIFICATION Spec
CONSTANTS MaxLinks = 1
 Shapes = {1,2,3,5}
 PPPs = {1,2}
 S0s = {1,2}
 ETs = {0,1}
 Muxes = {0,1}
 BIdx = {1}
 Spans = {0,1}
 Dmg = {"drop","dup"}
 DiscardVi = "link"
 Streaming = FALSE
 PinSer = FALSE
 PinBos = FALSE
 PLen = 2
 ReadLens = {100}
 MaxCalls = 2
 Ops = {"read","raw","pcm","page","lap"}
INVARIANT NoLoopBoundHit
INVARIANT DamagedCallsBehave
CHECK_DEADLOCK FALSE

SPECIFICATION Spec
CONSTANTS BS0 = 8
 BS1 = 16
 HS = 1
 MaxLen = 6
 Gen = FALSE
INVARIANT BufOK
INVARIANT PendingOK
INVARIANT RetInsideCur
CHECK_DEADLOCK FALSE

SPECIFICATION Spec
CONSTANTS BS0 = 8
 BS1 = 16
 HS = 1
 MaxLen = 6
 Gen = FALSE
 Toggles = FALSE
INVARIANT BufOK
INVARIANT PendingOK
INVARIANT RetInsideCur
INVARIANT StoreOK
INVARIANT LapoutOK
CHECK_DEADLOCK FALSE

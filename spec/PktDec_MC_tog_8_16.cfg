SPECIFICATION Spec
CONSTANTS BS0 = 8
 BS1 = 16
 HS = 1
 MaxLen = 6
 Gen = FALSE
 Toggles = TRUE
INVARIANT StoreOK
INVARIANT LapoutOK
INVARIANT RetInsideCur
CHECK_DEADLOCK FALSE

----------------------------- MODULE Inst_Trace -----------------------------
(***************************************************************************)
(* Trace validation for C18: every program's output under a dictated       *)
(* interleaving (or free running) equals its output when run alone, solo   *)
(* outputs are the same for every initial heap content, and no step leaves *)
(* the floating-point environment changed.                                 *)
(***************************************************************************)
EXTENDS Integers, Sequences, TLC, Json, IOUtils, FiniteSets
Tr == ndJsonDeserialize(IOEnv.TRACE)
VARIABLES l, scn, nviol, solo
vars == <<l, scn, nviol, solo>>
Report(rules, e) == IF rules = {} THEN TRUE ELSE PrintT("VIOL " \o ToJson([line |-> l, scn |-> Tr[scn].scn, ev |-> e.e, rules |-> rules]))
Init == l = 1 /\ scn = 1 /\ nviol = 0 /\ solo = [p \in 0..7 |-> ""]
Step(rules, e) == Report(rules, e) /\ nviol' = nviol + Cardinality(rules) /\ l' = l + 1
Next ==
  /\ l <= Len(Tr)
  /\ LET e == Tr[l] IN
     CASE e.e = "Reset" -> scn' = l /\ l' = l + 1 /\ UNCHANGED <<nviol, solo>>      \* solo hashes persist across scenarios of one trace
       [] e.e = "Solo" ->
            /\ Step((IF solo[e.p] # "" /\ solo[e.p] # e.hash THEN {"OutputIndependentOfHeapContents"} ELSE {}) \cup
                    (IF e.fpu # 0 THEN {"FpuStateRestored"} ELSE {}) \cup (IF e.steps # 10 THEN {"ProgramCompletes"} ELSE {}), e)
            /\ solo' = [solo EXCEPT ![e.p] = IF @ = "" THEN e.hash ELSE @] /\ UNCHANGED scn
       [] e.e = "Done" ->
            /\ Step((IF solo[e.p] # "" /\ solo[e.p] # e.hash THEN {"OutputEqualsSolo"} ELSE {}) \cup
                    (IF e.fpu # 0 THEN {"FpuStateRestored"} ELSE {}) \cup (IF e.steps # 10 THEN {"ProgramCompletes"} ELSE {}), e) /\ UNCHANGED <<scn, solo>>
       [] e.e = "End" -> Step({}, e) /\ UNCHANGED <<scn, solo>>
       [] e.e \in {"Sched", "Prepared", "Note"} -> l' = l + 1 /\ UNCHANGED <<scn, nviol, solo>>
       [] e.e \in {"Crash", "Hang", "Exit"} -> Step({IF e.e = "Crash" THEN "NoCrashOrRace" ELSE IF e.e = "Hang" THEN "CallsTerminate" ELSE "LibraryNeverExits"}, e) /\ UNCHANGED <<scn, solo>>
       [] OTHER -> Step({"UnknownEvent"}, e) /\ UNCHANGED <<scn, solo>>
Spec == Init /\ [][Next]_vars
TypeOK == nviol >= 0
Accepted == TLCGet("stats").diameter = Len(Tr) + 1
=============================================================================

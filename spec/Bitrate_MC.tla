----------------------------- MODULE Bitrate_MC -----------------------------
(***************************************************************************)
(* Design-level check of the rate manager: every sequence of candidate     *)
(* size vectors (not assumed monotone), every block flag sequence, every   *)
(* proposal of the average tracker, for a family of small parameter sets.  *)
(* Invariants: reservoir stays in [0,R]; the reservoir dominates the true  *)
(* excess / shortfall of every contiguous run (Dominates), hence Window.   *)
(* With Gen = TRUE the caller side of each behaviour is exported as JSON   *)
(* and replayed into the real vorbis_bitrate_addblock (spec -> code).      *)
(***************************************************************************)
EXTENDS Bitrate, TLC, Json, FiniteSets
CONSTANTS KK, MaxSz, MaxLen, Gen, PSet
VARIABLES P, res, dmax, dmin, n, hist, last
vars == <<P, res, dmax, dmin, n, hist, last>>

\* parameter families: <<minb, maxb, avgb, spl, R, fill>>
Tuples ==
  CASE PSet = "a" -> { <<0, 10, 0, 2, 8, 0>>, <<0, 10, 0, 2, 8, 8>>, <<0, 9, 0, 4, 13, 5>>, <<0, 17, 9, 2, 24, 3>>, <<0, 3, 0, 1, 1, 0>>, <<0, 16, 0, 2, 16, 16>> }
    [] PSet = "b" -> { <<9, 0, 0, 2, 8, 0>>, <<9, 0, 0, 2, 8, 8>>, <<11, 0, 0, 4, 13, 6>>, <<12, 0, 12, 2, 20, 20>>, <<3, 0, 0, 1, 1, 1>> }
    [] PSet = "c" -> { <<9, 10, 0, 2, 8, 0>>, <<9, 10, 0, 2, 8, 8>>, <<10, 10, 0, 2, 8, 4>>, <<10, 10, 10, 2, 9, 1>>, <<7, 19, 12, 4, 15, 7>>, <<16, 16, 0, 1, 8, 8>>, <<1, 30, 0, 2, 11, 5>> }
    [] OTHER -> {}
MkP(t) == [K |-> KK, minb |-> t[1], maxb |-> t[2], avgb |-> t[3], spl |-> t[4], R |-> t[5], fill |-> t[6]]

Init == /\ P \in { MkP(t) : t \in Tuples }
        /\ res = P.fill /\ dmax = 0 /\ dmin = 0 /\ n = 0 /\ hist = <<>> /\ last = [trunc |-> FALSE, pad |-> FALSE, bytes |-> 0, sz0 |-> 0]

\* generation thins the vectors: a base size, a slope and one kink
GenVec(b, s, k, kv) == [i \in 1..KK |-> IF i = k THEN kv ELSE MinI(MaxSz, b + ((i - 1) * s) \div 2)]

Step(W, sz, ac) ==
  LET o == AddBlock(P, W, sz, res, ac) IN
  /\ res' = o.res
  /\ dmax' = DMax(P, W, dmax, o.bytes)
  /\ dmin' = DMin(P, W, dmin, o.bytes)
  /\ n' = n + 1
  /\ last' = [trunc |-> o.trunc, pad |-> o.pad, bytes |-> o.bytes, sz0 |-> sz[o.choice + 1]]
  /\ hist' = IF Gen THEN Append(hist, [W |-> W, sz |-> sz, ac |-> ac, choice |-> o.choice, bytes |-> o.bytes, res |-> o.res]) ELSE hist
  /\ UNCHANGED P

\* the run accumulators may be restarted at any packet: they then measure the run starting here
Restart == /\ n > 0 /\ (dmax > 0 \/ dmin > 0) /\ dmax' = 0 /\ dmin' = 0 /\ UNCHANGED <<P, res, n, hist, last>>

Next ==
  /\ n < MaxLen
  /\ \/ \E W \in {0, 1}, ac \in (IF Gen THEN AvgChoices(P) \cap {0, KK \div 2, KK - 1} ELSE AvgChoices(P)) :
          IF Gen
          THEN \E b \in 0..MaxSz, s \in 0..2, k \in {1, 1 + KK \div 2, KK}, kv \in {0, MaxSz} : Step(W, GenVec(b, s, k, kv), ac)
          ELSE \E sz \in [1..KK -> 0..MaxSz] : Step(W, sz, ac)

Spec == Init /\ [][Next]_vars

ResBounds  == Domain(P) => 0 <= res /\ res <= P.R
\* the reservoir over-approximates the worst run: this is why the hard limits hold for every contiguous run
Dominates  == Domain(P) => (P.maxb > 0 => dmax <= res) /\ (P.minb > 0 => dmin <= P.R - res)
WindowMax  == Domain(P) => WindowMaxOK(P, dmax)
WindowMin  == Domain(P) => WindowMinOK(P, dmin)
\* a packet is cut short only under a hard maximum, padded only under a hard minimum, and never both
TruncOnlyUnderMax == (last.trunc => P.maxb > 0 /\ last.bytes < last.sz0) /\ (last.pad => P.minb > 0 /\ last.bytes > last.sz0) /\ ~(last.trunc /\ last.pad)
\* non-vacuity witnesses (expected to be VIOLATED when checked): truncation, padding and a full reservoir are reachable
NeverTrunc == ~last.trunc
NeverPad   == ~last.pad
NeverFull  == ~(n > 0 /\ res = P.R /\ P.maxb > 0)
NeverEmpty == ~(n > 0 /\ res = 0 /\ P.minb > 0)

Export == (Gen /\ n = MaxLen) => PrintT("HIST " \o ToJson([p |-> P, steps |-> hist]))
View == <<P, res, dmax, dmin, last, IF Gen THEN n ELSE 0>>
=============================================================================

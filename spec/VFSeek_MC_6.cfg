SPECIFICATION Spec
CONSTANTS MaxPages = 6
 EndAt = "data"
 Lens = {1,4}
 Chunk = 4
 Reads = {2}
 BackUpRule = "begin"
 HandOver = "refetch"
 GuessRule = "clamped"
 Lies = FALSE
INVARIANT Terminates
INVARIANT SubmitsTheRightPage
CHECK_DEADLOCK FALSE

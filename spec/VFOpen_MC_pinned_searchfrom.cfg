SPECIFICATION Spec
CONSTANTS MaxLinks = 3
 Lens = {1,4}
 Chunk = 4
 Read = 2
 Shapes = {1,14}
 Damage = 0
 Clamp = TRUE
 Trim = TRUE
 SearchFrom = "consumed"
INVARIANT OpenSucceeds
INVARIANT LinkTableIsTheTruth
CHECK_DEADLOCK FALSE

SPECIFICATION Spec
CONSTANTS KK = 3
 MaxSz = 4
 MaxLen = 1000
 Gen = FALSE
 PSet = "a"
INVARIANT ResBounds
INVARIANT Dominates
INVARIANT WindowMax
INVARIANT WindowMin
INVARIANT TruncOnlyUnderMax
VIEW View
CHECK_DEADLOCK FALSE

------------------------------ MODULE AudioRead ------------------------------
(***************************************************************************)
(* A strict reader of Vorbis I audio packets (specification 4.3.1 - 4.3.4, *)
(* 6.2.2, 7.2.3, 8.6.2, 3.2.1 scalar / vector codeword decode): bytes ->   *)
(* how many bits the packet holds according to the specification, whether  *)
(* it runs out of data, and what it selects (mode, window flags, which     *)
(* channels carry a floor).  Values are not formed: this is the syntax of  *)
(* a packet, for packets of any origin and books of any size.              *)
(*                                                                         *)
(* Codewords: FastWords is the marker algorithm of lib/sharedbook.c        *)
(* (_make_words) transcribed as a left fold: linear in the number of       *)
(* entries, where the declarative assignment of Codebook.tla is quadratic. *)
(* Codebook_MC checks that the two agree on every small length list; the   *)
(* reader uses the fast one on books of thousands of entries.              *)
(* CwMap turns the words into a function from <<length, word>> to entry    *)
(* (1-based), which is what decoding a codeword bit by bit looks up.       *)
(***************************************************************************)
EXTENDS SetupParse

(* ------------------------------ codewords ------------------------------ *)
\* marker[j] (j = 1..32) = the next free word of length j
MarkStep(mk, len) ==
  LET entry == mk[len]
      \* walk up: the first marker with its low bit set takes the sibling's parent's successor, the ones below are incremented
      RECURSIVE Up(_, _)
      Up(m, j) == IF j = 0 THEN m
                  ELSE IF m[j] % 2 = 1 THEN (IF j = 1 THEN [m EXCEPT ![1] = m[1] + 1] ELSE [m EXCEPT ![j] = m[j - 1] * 2])
                  ELSE Up([m EXCEPT ![j] = m[j] + 1], j - 1)
      m1 == Up(mk, len)
      \* prune: longer markers that dangled from the word just taken now dangle from the new node
      RECURSIVE Down(_, _, _)
      Down(m, j, e) == IF j > 30 THEN m ELSE IF m[j] \div 2 = e THEN Down([m EXCEPT ![j] = m[j - 1] * 2], j + 1, m[j]) ELSE m
  IN [word |-> entry, over |-> entry \div Pow2(len) # 0, mk |-> Down(m1, len + 1, entry)]
\* words = sequence over the entries: [w, l] (l = 0: unused); over = the tree is overpopulated
FastWords(lens0) ==
  LET lens == TLCEval(lens0) IN
  FoldLeft(LAMBDA acc, i : IF lens[i] = 0 \/ acc.over THEN [acc EXCEPT !.words = Append(@, [w |-> -1, l |-> 0])]
                           ELSE IF lens[i] > 30 THEN [acc EXCEPT !.over = TRUE]                 \* (a bound of this reader: 32-bit integers)
                           ELSE LET st == MarkStep(acc.mk, lens[i]) IN [words |-> Append(acc.words, [w |-> st.word, l |-> lens[i]]), over |-> st.over, mk |-> st.mk],
           [words |-> <<>>, over |-> FALSE, mk |-> [j \in 1..31 |-> 0]], [i \in 1..Len(lens) |-> i])
CwMap(lens0) == LET lens == TLCEval(lens0)  fw == TLCEval(FastWords(lens))
                   U == { i \in 1..Len(lens) : lens[i] > 0 } IN
               IF fw.over THEN [ok |-> FALSE, map |-> <<>>, maxlen |-> 0]
               ELSE [ok |-> TRUE, map |-> [p \in { <<fw.words[i].l, fw.words[i].w>> : i \in U } |-> CHOOSE i \in U : fw.words[i].l = p[1] /\ fw.words[i].w = p[2]],
                     maxlen |-> IF U = {} THEN 0 ELSE CHOOSE m \in { lens[i] : i \in U } : \A i \in U : lens[i] <= m]
\* the single-entry book: its one used entry is read as one bit (spec 3.2.1: "a single used entry ... length 1"); libvorbis and the specification agree that
\* the word is 0
RECURSIVE DecodeFrom(_, _, _, _, _)
DecodeFrom(b, pos, cm, len, acc) ==
  IF len > cm.maxlen THEN [entry |-> 0, bits |-> len - 1]
  ELSE LET a == 2 * acc + Bit(b, pos + len - 1) IN
       IF <<len, a>> \in DOMAIN cm.map THEN [entry |-> cm.map[<<len, a>>], bits |-> len] ELSE DecodeFrom(b, pos, cm, len + 1, a)
Decode1(b, pos, cm) == DecodeFrom(b, pos, cm, 1, 0)              \* entry = 0: no codeword matches (an invalid packet)

(* ------------------------------- floors -------------------------------- *)
\* every reader returns [ok, pos]; ok = FALSE: a codeword did not decode
RECURSIVE Words(_, _, _, _)
Words(b, pos, cm, n) == IF n = 0 THEN [ok |-> TRUE, pos |-> pos]
                        ELSE LET d == Decode1(b, pos, cm) IN IF d.entry = 0 THEN [ok |-> FALSE, pos |-> pos] ELSE Words(b, pos + d.bits, cm, n - 1)
RECURSIVE F1Class(_, _, _, _, _, _, _)
F1Class(b, pos, s, cms, f, c, st) ==          \* st = [j, cval]: the values of one partition of class c (1-based)
  IF st.j > f.cdim[c] THEN [ok |-> TRUE, pos |-> pos]
  ELSE LET bk == f.csub[c][(st.cval % Pow2(f.csubs[c])) + 1]  nx == [j |-> st.j + 1, cval |-> st.cval \div Pow2(f.csubs[c])] IN
       IF bk < 0 THEN F1Class(b, pos, s, cms, f, c, nx)
       ELSE LET d == Decode1(b, pos, cms[bk + 1]) IN IF d.entry = 0 THEN [ok |-> FALSE, pos |-> pos] ELSE F1Class(b, pos + d.bits, s, cms, f, c, nx)
RECURSIVE F1Parts(_, _, _, _, _, _)
F1Parts(b, pos, s, cms, f, i) ==
  IF i > Len(f.parts) THEN [ok |-> TRUE, pos |-> pos]
  ELSE LET c == f.parts[i] + 1 IN
       IF f.csubs[c] > 0
       THEN LET d == Decode1(b, pos, cms[f.cbook[c] + 1]) IN
            IF d.entry = 0 THEN [ok |-> FALSE, pos |-> pos]
            ELSE LET r == F1Class(b, pos + d.bits, s, cms, f, c, [j |-> 1, cval |-> d.entry - 1]) IN IF ~r.ok THEN r ELSE F1Parts(b, r.pos, s, cms, f, i + 1)
       ELSE LET r == F1Class(b, pos, s, cms, f, c, [j |-> 1, cval |-> 0]) IN IF ~r.ok THEN r ELSE F1Parts(b, r.pos, s, cms, f, i + 1)
QBitsOf(f) == ILog((CASE f.mult = 1 -> 256 [] f.mult = 2 -> 128 [] f.mult = 3 -> 86 [] OTHER -> 64) - 1)
\* [ok, pos, used]
PktFloor(b, pos, s, cms, f) ==
  IF f.type = 1
  THEN IF Bit(b, pos) = 0 THEN [ok |-> TRUE, pos |-> pos + 1, used |-> FALSE]
       ELSE LET r == F1Parts(b, pos + 1 + 2 * QBitsOf(f), s, cms, f, 1) IN [ok |-> r.ok, pos |-> r.pos, used |-> TRUE]
  ELSE LET amp == RB(b, pos, f.ampbits) IN
       IF amp = 0 THEN [ok |-> TRUE, pos |-> pos + f.ampbits, used |-> FALSE]
       ELSE LET w == ILog(Len(f.fbooks))  bn == RB(b, pos + f.ampbits, w) IN
            IF bn >= Len(f.fbooks) THEN [ok |-> FALSE, pos |-> pos, used |-> FALSE]
            ELSE LET bk == f.fbooks[bn + 1]  d == s.books[bk + 1].dim
                     r == Words(b, pos + f.ampbits + w, cms[bk + 1], (f.order + d - 1) \div d) IN [ok |-> r.ok, pos |-> r.pos, used |-> TRUE]

(* ------------------------------ residues ------------------------------- *)
IPowS(x, n) == IF n <= 0 THEN 1 ELSE IPow(x, n)
\* the classes of one group from its classification word (entry - 1), most significant digit first
GroupClasses(r, dimG, temp) == [k \in 1..dimG |-> ((temp \div IPowS(r.nclass, dimG - k)) % r.nclass) + 1]
StageBookOf(r, c, st) == r.rbooks[1 + FoldFunction(LAMBDA x, y : x + y, 0, [j \in 1..(c - 1) |-> BitCount(r.cascade[j])]) + BitCount(r.cascade[c] % Pow2(st))]
HasStageOf(r, c, st) == (r.cascade[c] \div Pow2(st)) % 2 = 1
\* the vectors of partition p (0-based) of every read channel in stage st: channels in order
RECURSIVE PartVecs(_, _, _, _, _, _, _, _, _)
PartVecs(b, pos, s, cms, r, st, cls, p, j) ==        \* cls[j][p + 1] = class (1-based) of partition p of read channel j
  IF j > Len(cls) THEN [ok |-> TRUE, pos |-> pos]
  ELSE LET c == cls[j][p + 1] IN
       IF ~HasStageOf(r, c, st) THEN PartVecs(b, pos, s, cms, r, st, cls, p, j + 1)
       ELSE LET bk == StageBookOf(r, c, st)  d == s.books[bk + 1].dim
                nvec == IF r.type = 0 THEN r.psize \div d ELSE (r.psize + d - 1) \div d
                w == Words(b, pos, cms[bk + 1], nvec) IN
            IF ~w.ok THEN w ELSE PartVecs(b, w.pos, s, cms, r, st, cls, p, j + 1)
\* one stage: groups left to right; in stage 0 each group begins with one classification word per read channel
ReadStage(b, pos0, s, cms, r, st, cls0, pv, chans) ==
  LET dimG == s.books[r.gbook + 1].dim  groups == (pv + dimG - 1) \div dimG IN
  FoldLeft(LAMBDA acc, g :
             IF ~acc.ok THEN acc
             ELSE LET \* classification words of this group (stage 0 only)
                      cw == IF st # 0 THEN [ok |-> TRUE, pos |-> acc.pos, cls |-> acc.cls]
                            ELSE FoldLeft(LAMBDA a, j : IF ~a.ok THEN a
                                                        ELSE LET d == Decode1(b, a.pos, cms[r.gbook + 1]) IN
                                                             IF d.entry = 0 \/ d.entry - 1 >= IPowS(r.nclass, dimG) THEN [a EXCEPT !.ok = FALSE]
                                                             ELSE LET gc == GroupClasses(r, dimG, d.entry - 1) IN
                                                                  [ok |-> TRUE, pos |-> a.pos + d.bits, cls |-> [a.cls EXCEPT ![j] = @ \o gc]],
                                          [ok |-> TRUE, pos |-> acc.pos, cls |-> acc.cls], [j \in 1..chans |-> j])
                  IN IF ~cw.ok THEN [acc EXCEPT !.ok = FALSE]
                     ELSE FoldLeft(LAMBDA a, k : IF ~a.ok \/ (g - 1) * dimG + (k - 1) >= pv THEN a
                                                 ELSE LET v == PartVecs(b, a.pos, s, cms, r, st, a.cls, (g - 1) * dimG + (k - 1), 1) IN [ok |-> v.ok, pos |-> v.pos, cls |-> a.cls],
                                   [ok |-> TRUE, pos |-> cw.pos, cls |-> cw.cls], [k \in 1..dimG |-> k]),
           [ok |-> TRUE, pos |-> pos0, cls |-> cls0], [g \in 1..groups |-> g])
StagesOf(r) == LET S == { ILog(r.cascade[j]) : j \in 1..Len(r.cascade) } IN CHOOSE m \in S : \A x \in S : x <= m
\* nb = channels of the submap, chans = vectors read (see AudioPacket.ResidueBits)
PktResidue(b, pos, s, cms, r, half, nb, chans) ==
  LET mx == IF r.type = 2 THEN half * nb ELSE half
      en == IF r.end < mx THEN r.end ELSE mx
      pv == IF en - r.begin > 0 THEN (en - r.begin) \div r.psize ELSE 0 IN
  IF chans = 0 \/ pv = 0 THEN [ok |-> TRUE, pos |-> pos]
  ELSE LET res == FoldLeft(LAMBDA acc, st1 : IF ~acc.ok THEN acc ELSE ReadStage(b, acc.pos, s, cms, r, st1 - 1, acc.cls, pv, chans),
                           [ok |-> TRUE, pos |-> pos, cls |-> [j \in 1..chans |-> <<>>]], [st1 \in 1..StagesOf(r) |-> st1])
       IN [ok |-> res.ok, pos |-> res.pos]

(* ------------------------------ the packet ----------------------------- *)
SubmapOfCh(m, c) == IF m.submaps > 1 THEN m.mux[c] ELSE 0
RECURSIVE SpreadNZ(_, _, _)
SpreadNZ(nz, cp, i) == IF i > Len(cp) THEN nz
                       ELSE LET M == cp[i][1] + 1  A == cp[i][2] + 1 IN SpreadNZ(IF nz[M] \/ nz[A] THEN [nz EXCEPT ![M] = TRUE, ![A] = TRUE] ELSE nz, cp, i + 1)
\* [ok, bits, mode, W, lw, nw, used]: ok = every codeword decoded and the packet did not run out of data; bits = what the packet holds by the specification
ReadAudio(s, cms, bytes) ==
  LET b == TLCEval(BitsOf(bytes)) IN
  IF Len(bytes) = 0 \/ Bit(b, 0) # 0 THEN [ok |-> FALSE, why |-> "not an audio packet", bits |-> 0]
  ELSE LET mb == ILog(Len(s.modes) - 1)  mode == RB(b, 1, mb) IN
       IF mode >= Len(s.modes) THEN [ok |-> FALSE, why |-> "mode out of range", bits |-> 1 + mb]
       ELSE LET W == s.modes[mode + 1].bf
                p0 == 1 + mb + (IF W = 1 THEN 2 ELSE 0)
                m == s.maps[s.modes[mode + 1].map + 1]
                half == Pow2(IF W = 1 THEN s.e1 ELSE s.e0) \div 2
                fl == FoldLeft(LAMBDA acc, c : IF ~acc.ok THEN acc
                                               ELSE LET r == PktFloor(b, acc.pos, s, cms, s.floors[m.sfloor[SubmapOfCh(m, c) + 1] + 1]) IN
                                                    [ok |-> r.ok, pos |-> r.pos, used |-> Append(acc.used, r.used)],
                               [ok |-> TRUE, pos |-> p0, used |-> <<>>], [c \in 1..s.ch |-> c])
            IN IF ~fl.ok THEN [ok |-> FALSE, why |-> "floor codeword", bits |-> fl.pos]
               ELSE LET dec == SpreadNZ(fl.used, m.coupling, 1)
                        rs == FoldLeft(LAMBDA acc, sm1 :
                                         IF ~acc.ok THEN acc
                                         ELSE LET B == SelectSeq([c \in 1..s.ch |-> c], LAMBDA c : SubmapOfCh(m, c) = sm1 - 1)
                                                  r == s.residues[m.sres[sm1] + 1]
                                                  nd == Cardinality({ k \in 1..Len(B) : dec[B[k]] })
                                              IN PktResidue(b, acc.pos, s, cms, r, half, Len(B), IF r.type = 2 THEN (IF nd > 0 THEN 1 ELSE 0) ELSE nd),
                                       [ok |-> TRUE, pos |-> fl.pos], [sm1 \in 1..m.submaps |-> sm1])
                    IN [ok |-> rs.ok /\ rs.pos <= Len(b), why |-> IF ~rs.ok THEN "residue codeword" ELSE IF rs.pos > Len(b) THEN "out of data" ELSE "", bits |-> rs.pos,
                        mode |-> mode, W |-> W, lw |-> IF W = 1 THEN Bit(b, 1 + mb) ELSE 0, nw |-> IF W = 1 THEN Bit(b, 2 + mb) ELSE 0, used |-> fl.used]
=============================================================================

SPECIFICATION Spec
CONSTANTS MaxLen = 1000000
 Gen = FALSE
 Mode = "seek"
INVARIANT RulesSatisfiable
INVARIANT PosInFile
INVARIANT LapBounded
INVARIANT Sensitive
INVARIANT NoDecidedRegion
VIEW ViewAbs
CHECK_DEADLOCK FALSE

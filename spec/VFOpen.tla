------------------------------- MODULE VFOpen -------------------------------
(***************************************************************************)
(* Implementation-shaped model of how a seekable open finds the links of   *)
(* a chained physical stream (lib/vorbisfile.c: _fetch_headers,            *)
(* _initial_pcmoffset, _get_prev_page_serial, _bisect_forward_serialno,    *)
(* _open_seekable2), on the same page / sync-buffer / seek primitives as   *)
(* VFSeek.                                                                 *)
(*                                                                         *)
(* A page is [off, len, ser, gp, bos, hp, bs]:  byte offset and length,    *)
(* serial number, granule position (-1: no packet ends on it), whether it  *)
(* begins a logical stream, how many HEADER packets of its stream end on   *)
(* it (the BOS page of a Vorbis stream: 1; then 2 more on one or two       *)
(* pages; audio pages: 0) and, for audio pages, the samples the block      *)
(* sizes of its packets account for (what _initial_pcmoffset subtracts).   *)
(* VS is the set of serial numbers whose first packet is a Vorbis          *)
(* identification header.                                                  *)
(*                                                                         *)
(* Open(PG, VS, K) returns [ok, links, probes]: links[i] = [off, ser,      *)
(* doff, first, len] = where link i begins, the serial number of its       *)
(* Vorbis stream, where its audio begins, its initial sample offset and    *)
(* its length in samples - the link table the rest of vorbisfile works     *)
(* with - and the offsets of the callback seeks in order.                  *)
(***************************************************************************)
EXTENDS VFSeek

Pg(PG, i) == PG[i]
InList(s, list) == \E k \in 1..Len(list) : list[k] = s

\* one _get_next_page step on the threaded reader state rd = [off, base, probes]
\* a loop that used up its step bound leaves the mark -999 among the probes (the model's way of saying: this does not terminate as modelled)
Out(rd) == [rd EXCEPT !.probes = Append(@, -999)]
Next1(PG, rd, boundary, K) == LET g == GetNext(PG, rd, boundary, K) IN [r |-> g.r, rd |-> [rd EXCEPT !.off = g.off]]

(* _fetch_headers(og_ptr = NULL): [ok, list, vser, rd] *)
\* phase 2: collect the two remaining header packets of stream vser; have = packets already available, allbos as in the code
RECURSIVE FetchRest(_, _, _, _, _, _, _, _)
FetchRest(PG, rd, list, vser, have, allbos, K, fuel) ==
  IF have >= 2 THEN [ok |-> TRUE, list |-> list, vser |-> vser, rd |-> rd]
  ELSE IF fuel = 0 THEN [ok |-> FALSE, list |-> list, vser |-> vser, rd |-> Out(rd)]
  ELSE LET n == Next1(PG, rd, K.chunk, K) IN
       IF n.r = 0 THEN [ok |-> FALSE, list |-> list, vser |-> vser, rd |-> n.rd]
       ELSE LET p == PG[n.r] IN
            IF p.ser = vser THEN FetchRest(PG, n.rd, list, vser, have + p.hp, allbos, K, fuel - 1)
            ELSE IF p.bos /\ allbos THEN [ok |-> FALSE, list |-> list, vser |-> vser, rd |-> n.rd]
            ELSE FetchRest(PG, n.rd, list, vser, have, allbos \/ p.bos, K, fuel - 1)
\* phase 1: the run of BOS pages; cur = index of the page in hand; hasv = a Vorbis stream has been seen (its serial number is vser)
RECURSIVE FetchBos(_, _, _, _, _, _, _, _, _)
FetchBos(PG, VS, rd, cur, list, hasv, vser, K, fuel) ==
  LET p == PG[cur] IN
  IF fuel = 0 THEN [ok |-> FALSE, list |-> list, vser |-> vser, rd |-> Out(rd)]
  ELSE IF ~p.bos
  THEN IF ~hasv THEN [ok |-> FALSE, list |-> list, vser |-> vser, rd |-> rd] ELSE FetchRest(PG, rd, list, vser, 0, FALSE, K, Len(PG) + 2)
  ELSE IF InList(p.ser, list) THEN [ok |-> FALSE, list |-> <<>>, vser |-> vser, rd |-> rd]          \* duplicate serial number among the BOS pages
  ELSE LET l2 == Append(list, p.ser)
           h2 == hasv \/ p.ser \in VS
           v2 == IF ~hasv /\ p.ser \in VS THEN p.ser ELSE vser
           n == Next1(PG, rd, K.chunk, K) IN
       IF n.r = 0 THEN [ok |-> FALSE, list |-> l2, vser |-> v2, rd |-> n.rd]
       ELSE IF h2 /\ PG[n.r].ser = v2
            THEN FetchRest(PG, n.rd, l2, v2, PG[n.r].hp, FALSE, K, Len(PG) + 2)                    \* "if this page also belongs to our vorbis stream, submit it and break"
            ELSE FetchBos(PG, VS, n.rd, n.r, l2, h2, v2, K, fuel - 1)
FetchHeaders(PG, VS, rd, K) ==
  LET n == Next1(PG, rd, K.chunk, K) IN
  IF n.r = 0 THEN [ok |-> FALSE, list |-> <<>>, vser |-> 0, rd |-> n.rd] ELSE FetchBos(PG, VS, n.rd, n.r, <<>>, FALSE, 0, K, Len(PG) + 2)

(* _initial_pcmoffset: [first, rd].  bs of an audio page = the block sizes of the packets that end on it; the samples they account for depend on the
   block before (lastblock, -1 at the start: the first packet counted accounts for nothing) *)
RECURSIVE Account(_, _, _, _)
Account(bs, k, acc, last) == IF k > Len(bs) THEN [acc |-> acc, last |-> last]
                             ELSE Account(bs, k + 1, IF last # -1 THEN acc + (last + bs[k]) \div 4 ELSE acc, bs[k])
RECURSIVE InitialPcm(_, _, _, _, _, _, _)
InitialPcm(PG, rd, vser, acc, last, K, fuel) ==
  IF fuel = 0 THEN [first |-> 0, rd |-> Out(rd)]
  ELSE LET n == Next1(PG, rd, -1, K) IN
       IF n.r = 0 THEN [first |-> IF acc < 0 THEN 0 ELSE acc, rd |-> n.rd]
       ELSE LET p == PG[n.r] IN
            IF p.bos THEN [first |-> IF acc < 0 THEN 0 ELSE acc, rd |-> n.rd]
            ELSE IF p.ser # vser THEN InitialPcm(PG, n.rd, vser, acc, last, K, fuel - 1)
            ELSE LET a == Account(p.bs, 1, acc, last) IN
                 IF p.gp # -1 THEN [first |-> IF p.gp - a.acc < 0 THEN 0 ELSE p.gp - a.acc, rd |-> n.rd]
                 ELSE InitialPcm(PG, n.rd, vser, a.acc, a.last, K, fuel - 1)

(* _get_prev_page_serial(begin, list, *serialno, *granpos): [ret, ser, gran, rd]; ret < 0: error *)
\* inner read loop of one back-step: s = [offset, pref, rser, rgran, gran]
RECURSIVE PrevScan(_, _, _, _, _, _, _, _)
PrevScan(PG, rd, end, list, want, s, K, fuel) ==
  IF fuel = 0 THEN [s |-> s, rd |-> Out(rd)]
  ELSE IF ~(rd.off < end) THEN [s |-> s, rd |-> rd]
  ELSE LET n == Next1(PG, rd, end - rd.off, K) IN
       IF n.r = 0 THEN [s |-> s, rd |-> n.rd]
       ELSE LET p == PG[n.r]
                s1 == [s EXCEPT !.offset = p.off, !.rser = p.ser, !.rgran = p.gp,
                                !.pref = IF ~InList(p.ser, list) THEN -1 ELSE IF p.ser = want THEN p.off ELSE s.pref,
                                !.gran = IF p.ser = want THEN p.gp ELSE s.gran]
            IN PrevScan(PG, n.rd, end, list, want, s1, K, fuel - 1)
RECURSIVE PrevBack(_, _, _, _, _, _, _, _, _)
PrevBack(PG, rd, begin, end, list, want, s, K, fuel) ==
  IF fuel = 0 THEN [ret |-> -1, ser |-> want, gran |-> s.gran, rd |-> Out(rd)]
  ELSE LET b == IF begin - K.chunk < 0 /\ K.clamp THEN 0 ELSE begin - K.chunk      \* if(begin<0)begin=0;  (K.clamp = FALSE pins the rule without it)
           sc == PrevScan(PG, SeekTo(rd, b), end, list, want, s, K, Len(PG) + 2) IN
       IF sc.s.offset = -1
       THEN IF b = 0 THEN [ret |-> -1, ser |-> want, gran |-> sc.s.gran, rd |-> sc.rd] ELSE PrevBack(PG, sc.rd, b, end, list, want, sc.s, K, fuel - 1)
       ELSE IF sc.s.pref >= 0 THEN [ret |-> sc.s.pref, ser |-> want, gran |-> sc.s.gran, rd |-> sc.rd]
       ELSE [ret |-> sc.s.offset, ser |-> sc.s.rser, gran |-> sc.s.rgran, rd |-> sc.rd]
GetPrevSerial(PG, rd, begin, list, want, gran0, K) ==
  PrevBack(PG, rd, begin, begin, list, want, [offset |-> -1, pref |-> -1, rser |-> -1, rgran |-> -1, gran |-> gran0], K, Len(PG) + DataEnd(PG) \div K.chunk + 3)

\* while(have != vser){ have = vser; searched = _get_prev_page_serial(searched, ..., &have, &gran); }    (found = "have = vser")
RECURSIVE FindLast(_, _, _, _, _, _, _, _, _)
FindLast(PG, rd, searched, list, vser, found, gran, K, fuel) ==
  IF found THEN [ok |-> TRUE, searched |-> searched, gran |-> gran, rd |-> rd]
  ELSE IF fuel = 0 THEN [ok |-> FALSE, searched |-> searched, gran |-> gran, rd |-> Out(rd)]
  ELSE LET r == GetPrevSerial(PG, rd, searched, list, vser, gran, K) IN
       IF r.ret < 0 THEN [ok |-> FALSE, searched |-> r.ret, gran |-> r.gran, rd |-> r.rd]
       ELSE FindLast(PG, r.rd, r.ret, list, vser, r.ser = vser, r.gran, K, fuel - 1)

(* the forward bisection for the end of the link that starts the range: [next, rd] *)
RECURSIVE BisectEnd(_, _, _, _, _, _, _, _)
BisectEnd(PG, rd, searched, endsearched, next, list, K, fuel) ==
  IF fuel = 0 THEN [next |-> next, rd |-> Out(rd)]
  ELSE IF ~(searched < endsearched) THEN [next |-> next, rd |-> rd]
  ELSE LET bisect == IF endsearched - searched < K.chunk THEN searched ELSE (searched + endsearched) \div 2
           n == Next1(PG, SeekTo(rd, bisect), -1, K) IN
       IF n.r = 0 \/ ~InList(PG[n.r].ser, list)
       THEN BisectEnd(PG, n.rd, searched, bisect, IF n.r # 0 THEN PG[n.r].off ELSE next, list, K, fuel - 1)
       ELSE BisectEnd(PG, n.rd, n.rd.off, endsearched, next, list, K, fuel - 1)

(* _bisect_forward_serialno: [ok, links, rd]; links = the records of link m, m+1, ... (first/doff of link m are filled in by the caller) *)
RECURSIVE BisectForward(_, _, _, _, _, _, _, _, _, _, _, _)
BisectForward(PG, VS, rd, begin, searched, end, endgran, endserial, list, vser, K, fuel) ==
  IF fuel = 0 THEN [ok |-> FALSE, links |-> <<>>, rd |-> Out(rd)]
  ELSE IF InList(endserial, list)
  THEN LET f == FindLast(PG, rd, end, list, vser, endserial = vser, endgran, K, Len(PG) + 2) IN
       IF ~f.ok THEN [ok |-> FALSE, links |-> <<>>, rd |-> f.rd]
       ELSE [ok |-> TRUE, links |-> << [off |-> begin, ser |-> vser, doff |-> -1, first |-> 0, len |-> IF f.gran < 0 THEN 0 ELSE f.gran] >>, rd |-> f.rd]
  ELSE LET b == BisectEnd(PG, rd, searched, end, end, list, K, 64)
           f == FindLast(PG, b.rd, b.next, list, vser, FALSE, -1, K, Len(PG) + 2) IN
       IF ~f.ok THEN [ok |-> FALSE, links |-> <<>>, rd |-> f.rd]
       ELSE LET h == FetchHeaders(PG, VS, SeekTo(f.rd, b.next), K) IN
            IF ~h.ok THEN [ok |-> FALSE, links |-> <<>>, rd |-> h.rd]
            ELSE LET ip == InitialPcm(PG, h.rd, h.vser, 0, -1, K, Len(PG) + 2)
                     \* where the search for the end of THIS link starts: behind its headers (h.rd.off, the repaired rule).  The pinned tree started
                     \* where _initial_pcmoffset had stopped reading (K.searchfrom = "consumed"): for a link without any audio page that is behind
                     \* the first page of the NEXT link, and the search never sees that link begin (refuted by TLC, VFOpen_MC_pinned_searchfrom.cfg)
                     from == IF "searchfrom" \in DOMAIN K /\ K.searchfrom = "consumed" THEN ip.rd.off ELSE h.rd.off
                     rest == BisectForward(PG, VS, ip.rd, b.next, from, end, endgran, endserial, h.list, h.vser, K, fuel - 1) IN
                 IF ~rest.ok THEN [ok |-> FALSE, links |-> <<>>, rd |-> rest.rd]
                 ELSE LET nx == rest.links[1]
                          nx2 == [nx EXCEPT !.doff = h.rd.off, !.first = ip.first, !.len = IF nx.len - ip.first < 0 THEN 0 ELSE nx.len - ip.first] IN
                      [ok |-> TRUE, links |-> << [off |-> begin, ser |-> vser, doff |-> -1, first |-> 0, len |-> f.gran] >> \o << nx2 >> \o Tail(rest.links), rd |-> rest.rd]

(* _ov_open1 + _open_seekable2 up to the link table *)
Open(PG, VS, K) ==
  LET rd0 == [off |-> 0, base |-> 0, probes |-> <<>>]
      h == FetchHeaders(PG, VS, rd0, K) IN
  IF ~h.ok THEN [ok |-> FALSE, links |-> <<>>, probes |-> h.rd.probes]
  ELSE LET ip == InitialPcm(PG, h.rd, h.vser, 0, -1, K, Len(PG) + 2)
           rdE == [ip.rd EXCEPT !.off = DataEnd(PG), !.base = DataEnd(PG), !.probes = Append(ip.rd.probes, DataEnd(PG))]      \* seek_func(0, SEEK_END)
           e == GetPrevSerial(PG, rdE, DataEnd(PG), h.list, h.vser, -1, K) IN
       IF e.ret < 0 THEN [ok |-> FALSE, links |-> <<>>, probes |-> e.rd.probes]
       ELSE LET r == BisectForward(PG, VS, e.rd, 0, h.rd.off, e.ret, e.gran, e.ser, h.list, h.vser, K, Len(PG) + 1) IN
            IF ~r.ok THEN [ok |-> FALSE, links |-> <<>>, probes |-> r.rd.probes]
            ELSE LET l1 == r.links[1]
                     l1b == [l1 EXCEPT !.doff = h.rd.off, !.first = ip.first, !.len = IF l1.len - ip.first < 0 THEN 0 ELSE l1.len - ip.first] IN
                 [ok |-> TRUE, links |-> << l1b >> \o Tail(r.links), probes |-> r.rd.probes]
=============================================================================

---------------------------- MODULE VFSeek_Trace ----------------------------
(***************************************************************************)
(* Binds VFSeek to the code.  The harness logs the page table of a file    *)
(* as libogg sees it (event Pages) and, with every sample / page seek, the *)
(* offsets of the callback seeks the call issued (field probes) and the    *)
(* file position it started from (off0).  For each such call TLC runs the  *)
(* model of the search on the real page table with the real constants and  *)
(* compares:                                                               *)
(*   ProbesAsModelled      the seeks the model predicts are the first      *)
(*                         seeks the call made, offset for offset (the     *)
(*                         code walks the path the model walks);           *)
(*   ModelSubmitsRightPage on this layout and target the modelled search   *)
(*                         hands over the page decoding must start from.   *)
(* Both are fidelity / design notes (printed as DRIFT): alarms on what the *)
(* call returned and delivered are raised by VFApi on the same events.     *)
(***************************************************************************)
EXTENDS VFSeek, TLC, Json, IOUtils
Tr == ndJsonDeserialize(IOEnv.TRACE)
VARIABLES l, scn, pages, nnote, ncmp
vars == <<l, scn, pages, nnote, ncmp>>
K == [chunk |-> 65536, near |-> 44100, read |-> 2048, backup |-> "begin", handover |-> "refetch"]
Note(rules, e) == IF rules = {} THEN TRUE ELSE PrintT("DRIFT " \o ToJson([line |-> l, scn |-> Tr[scn].scn, ev |-> e.e, rules |-> rules]))
NoPages == [pg |-> <<>>, lk |-> <<>>]
IsPrefix(a, b) == Len(a) <= Len(b) /\ \A i \in 1..Len(a) : a[i] = b[i]
LinkOf(lk, pos) == LET c == { i \in 1..Len(lk) : lk[i].start <= pos } IN IF c = {} THEN 1 ELSE CHOOSE i \in c : \A j \in c : j <= i
Judge(e) ==
  LET lk == pages.lk  i == LinkOf(lk, e.pos)  L == lk[i]
      PG == [j \in 1..Len(pages.pg) |-> [off |-> pages.pg[j].o, len |-> pages.pg[j].n, ours |-> pages.pg[j].l = i - 1, gp |-> pages.pg[j].g]]
      target == e.pos - L.start + L.g0
      r == Submit(PG, L.doff, L.end, L.g0, L.g0 + L.N, target, K, e.off0)
      right == RightPage(PG, L.doff, L.end, target)
  IN (IF IsPrefix(r.probes, e.probes) THEN {} ELSE {"ProbesAsModelled"}) \cup (IF r.sub = right THEN {} ELSE {"ModelSubmitsRightPage"})
Applies(e) == /\ e.e \in {"PcmSeek", "PcmSeekPage"} /\ "probes" \in DOMAIN e /\ pages.pg # <<>> /\ e.ret = 0
              /\ LET lk == pages.lk  n == Len(lk) IN e.pos >= 0 /\ e.pos < lk[n].start + lk[n].N
              /\ LET i == LinkOf(pages.lk, e.pos) IN pages.lk[i].N > 0
Init == l = 1 /\ scn = 1 /\ pages = NoPages /\ nnote = 0 /\ ncmp = 0
Next ==
  /\ l <= Len(Tr)
  /\ LET e == Tr[l] IN
     CASE e.e = "Reset" -> scn' = l /\ l' = l + 1 /\ pages' = NoPages /\ UNCHANGED <<nnote, ncmp>>
       [] e.e = "Pages" -> pages' = [pg |-> e.pg, lk |-> e.lk] /\ l' = l + 1 /\ UNCHANGED <<scn, nnote, ncmp>>
       [] Applies(e) -> LET j == Judge(e) IN Note(j, e) /\ nnote' = nnote + Cardinality(j) /\ ncmp' = ncmp + 1 /\ l' = l + 1 /\ UNCHANGED <<scn, pages>>
       [] e.e = "End" -> PrintT("COMPARED " \o ToString(ncmp)) /\ l' = l + 1 /\ ncmp' = 0 /\ UNCHANGED <<scn, pages, nnote>>
       [] OTHER -> l' = l + 1 /\ UNCHANGED <<scn, pages, nnote, ncmp>>
Spec == Init /\ [][Next]_vars
TypeOK == nnote >= 0
Accepted == TLCGet("stats").diameter = Len(Tr) + 1
=============================================================================

------------------------------ MODULE Comments ------------------------------
(***************************************************************************)
(* The comment header (lib/info.c) at byte level.                          *)
(* A comment is a byte string.  Long strings are handled in run-length     *)
(* form: a sequence of <<byte, count>> pairs with count > 0 and no two     *)
(* adjacent runs of the same byte (canonical), so equality of strings is   *)
(* equality of their run lists.  A comment list is a sequence of those.    *)
(***************************************************************************)
EXTENDS Integers, Sequences, FiniteSets

\* ---- run-length strings ----
RECURSIVE RLen(_)
RLen(r) == IF r = <<>> THEN 0 ELSE r[1][2] + RLen(Tail(r))
RECURSIVE RAt(_, _)          \* byte at 0-based position i, -1 beyond the end
RAt(r, i) == IF r = <<>> THEN -1 ELSE IF i < r[1][2] THEN r[1][1] ELSE RAt(Tail(r), i - r[1][2])
Canonical(r) == /\ \A j \in 1..Len(r) : r[j][2] > 0 /\ r[j][1] \in 0..255
                /\ \A j \in 1..(Len(r) - 1) : r[j][1] # r[j + 1][1]

\* ---- tag matching: ASCII-only case folding, independent of any locale ----
Fold(b) == IF b >= 97 /\ b <= 122 THEN b - 32 ELSE b
\* tag is a plain byte sequence without zero bytes (a C string); the pattern is tag followed by "="
Matches(r, tag) ==
  /\ \A i \in 1..Len(tag) : RAt(r, i - 1) # -1 /\ Fold(RAt(r, i - 1)) = Fold(tag[i])
  /\ RAt(r, Len(tag)) = 61
MatchIdx(cs, tag) == { i \in 1..Len(cs) : Matches(cs[i], tag) }
QueryCount(cs, tag) == Cardinality(MatchIdx(cs, tag))
\* the n-th (0-based) match in insertion order: index of the comment, 0 = no such match
NthMatch(cs, tag, n) ==
  LET S == MatchIdx(cs, tag) IN
  IF n < 0 \/ n >= Cardinality(S) THEN 0
  ELSE CHOOSE i \in S : Cardinality({ j \in S : j < i }) = n

\* ---- the packed form, on plain byte sequences (small instances) ----
LE32(n) == << n % 256, (n \div 256) % 256, (n \div 65536) % 256, (n \div 16777216) % 256 >>
RECURSIVE Concat(_)
Concat(ss) == IF ss = <<>> THEN <<>> ELSE ss[1] \o Concat(Tail(ss))
Pack(vendor, cs) ==
  LE32(Len(vendor)) \o vendor \o LE32(Len(cs)) \o Concat([i \in 1..Len(cs) |-> LE32(Len(cs[i])) \o cs[i]]) \o <<1>>
RdLE32(b, p) == IF p + 3 > Len(b) THEN -1 ELSE b[p] + 256 * b[p + 1] + 65536 * b[p + 2] + 16777216 * b[p + 3]
\* _vorbis_unpack_comment with its bounds checks; result [ok, vendor, cs]
RECURSIVE UnpackList(_, _, _, _)
UnpackList(b, p, n, acc) ==
  IF n = 0 THEN (IF p <= Len(b) /\ b[p] % 2 = 1 THEN [ok |-> TRUE, cs |-> acc] ELSE [ok |-> FALSE, cs |-> <<>>])
  ELSE LET len == RdLE32(b, p) IN
       IF len < 0 \/ len > Len(b) - (p + 3) THEN [ok |-> FALSE, cs |-> <<>>]
       ELSE UnpackList(b, p + 4 + len, n - 1, Append(acc, SubSeq(b, p + 4, p + 3 + len)))
Unpack(b) ==
  LET vl == RdLE32(b, 1) IN
  IF vl < 0 \/ vl > Len(b) - 8 THEN [ok |-> FALSE, vendor |-> <<>>, cs |-> <<>>]
  ELSE LET p == 5 + vl  n == RdLE32(b, p) IN
       IF n < 0 \/ n > (Len(b) - (p + 3)) \div 4 THEN [ok |-> FALSE, vendor |-> <<>>, cs |-> <<>>]
       ELSE LET r == UnpackList(b, p + 4, n, <<>>) IN [ok |-> r.ok, vendor |-> SubSeq(b, 5, 4 + vl), cs |-> r.cs]
=============================================================================

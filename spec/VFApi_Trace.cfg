SPECIFICATION Spec
INVARIANT TypeOK
INVARIANT PosInFile
POSTCONDITION Accepted
CHECK_DEADLOCK FALSE

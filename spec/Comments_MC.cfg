SPECIFICATION Spec
CONSTANTS MaxC = 2
 MaxL = 2
 Gen = FALSE
INVARIANT RoundTrip
INVARIANT Truncated
INVARIANT CountIsHits
INVARIANT InOrder
INVARIANT FoldAscii
INVARIANT RunsOK
CHECK_DEADLOCK FALSE

SPECIFICATION Spec
CONSTANTS Family = "residue"
INVARIANT FamiliesOK
INVARIANT ReaderInvertsWriter
INVARIANT Export
CHECK_DEADLOCK FALSE

SPECIFICATION Spec
CONSTANTS Family = "residue"
INVARIANT FamiliesOK
INVARIANT Export
CHECK_DEADLOCK FALSE

------------------------------ MODULE PktDec ------------------------------
(***************************************************************************)
(* The packet-level decode API at the level the properties speak about.    *)
(* A decoder slot is abstracted to                                         *)
(*   [nh      number of stream headers accepted so far, in order (0..3)    *)
(*    live    vorbis_info initialised and not cleared                      *)
(*    inited  a synthesis_init succeeded and the objects are not cleared   *)
(*    B       <<bs0,bs1>> of the stream the packets come from              *)
(*    hs      half-rate flag in force when the decoder was initialised     *)
(*    hsdirty the flag was changed after initialisation (decode undefined) *)
(*    m       the blocking machine of Block.tla (sample bookkeeping)       *)
(*    prev    index of the audio packet whose right half sits in the       *)
(*            overlap buffer (-1 = none), prevclean = it was undamaged     *)
(*    resync  since the last disturbance an undamaged packet that ends a   *)
(*            page (granule position, not the last of the stream) has been *)
(*            taken in directly after an undamaged one: the decoder has    *)
(*            had the chance to correct its sample count; cntok = that was *)
(*            so BEFORE the packet whose samples are pending               *)
(*    lastk / chunkclean   packet that produced the pending samples and    *)
(*            whether they are the overlap of two undamaged neighbours]    *)
(* C11 in these terms: the pending samples are "clean" exactly when they   *)
(* were produced by packet k directly after packet k-1, both undamaged;    *)
(* clean samples equal the undisturbed decode wherever both exist.         *)
(***************************************************************************)
EXTENDS Block, FiniteSets

OV_EINVALc == -131  OV_ENOTVORBISc == -132  OV_EBADHEADERc == -133  OV_EVERSIONc == -134  OV_ENOTAUDIOc == -135  OV_EBADPACKETc == -136
OV_EFAULTc == -129  OV_EIMPLc == -130
HeaderCodes == {0, OV_EFAULTc, OV_ENOTVORBISc, OV_EBADHEADERc, OV_EVERSIONc, OV_EIMPLc}
SynthCodes  == {0, OV_ENOTAUDIOc, OV_EBADPACKETc}

\* mm is the blocking machine evolved by the MODEL ALONE since the last (re)start (never re-synchronised to the observation while `pure`):
\* a slip in bookkeeping the caller cannot see at once (sample_count, granulepos) shows up as a wrong count later.
InitDec == [nh |-> 0, live |-> FALSE, inited |-> FALSE, initfailed |-> FALSE, B |-> <<0, 0>>, hs |-> 0, hsdirty |-> FALSE, m |-> DecRestart(<<0, 0>>, 0),
            mm |-> DecRestart(<<0, 0>>, 0), pure |-> FALSE,
            prev |-> -1, prevclean |-> FALSE, lastk |-> -1, chunkclean |-> FALSE, gpforced |-> FALSE, resync |-> FALSE, cntok |-> FALSE, solid |-> FALSE]

\* the buffer is allocated for full rate (pcm_storage = blocksizes[1] samples per channel) whatever the half-rate flag is or was:
\* that, not the two-half ring of the current flag, is the bound that memory safety needs (the flag may be toggled in mid-stream)
StoreOK(B, d) == d.ret = -1 \/ (0 <= d.ret /\ d.ret <= d.cur /\ d.cur <= B[2])
ActualB(s, e) == IF "abs1" \in DOMAIN e /\ e.abs1 > 0 THEN <<e.abs0, e.abs1>> ELSE s.B
Observed(e, hs) == [lW |-> e.dlW, W |-> e.dW, centerW |-> e.dcw, cur |-> e.dcur, ret |-> e.dret, gp |-> e.dgp, seq |-> e.dseq, sc |-> e.dsc, eof |-> e.deof, hs |-> hs]
StateMatches(d, e) == d.lW = e.dlW /\ d.W = e.dW /\ d.centerW = e.dcw /\ d.cur = e.dcur /\ d.ret = e.dret /\ d.gp = e.dgp /\ d.seq = e.dseq /\ d.sc = e.dsc /\ d.eof = e.deof

(* ---- headers ---- *)
ChkHeaderIn(s, e) ==
  (IF e.ret \notin HeaderCodes THEN {"HeaderInReturnsDocumentedCode"} ELSE {}) \cup
  (IF e.mut = 0 /\ e.which = s.nh /\ e.which < 3 /\ ~s.inited /\ e.ret # 0 THEN {"ValidHeaderAccepted"} ELSE {}) \cup
  (IF e.which \in {3, 4} /\ e.ret = 0 THEN {"NonHeaderRefused"} ELSE {})
NxtHeaderIn(s, e) == IF e.ret = 0 /\ e.mut = 0 /\ e.which = s.nh /\ e.which < 3 THEN [s EXCEPT !.nh = s.nh + 1, !.initfailed = FALSE]
                     ELSE IF e.ret = 0 /\ e.mut = 1 THEN [s EXCEPT !.nh = 9, !.initfailed = FALSE]           \* a damaged header was accepted: nothing is promised about what follows
                     ELSE [s EXCEPT !.initfailed = FALSE]                                            \* (a refused header may have cleared the info)

ChkHalfRate(s, e) ==
  (IF e.ret \notin {0, -1} THEN {"HalfRateReturnsDocumentedCode"} ELSE {}) \cup
  (IF s.nh = 3 /\ e.flag # 0 /\ s.B[1] <= 64 /\ e.ret = 0 THEN {"HalfRateRefusedFor64"} ELSE {}) \cup
  (IF s.nh = 3 /\ (e.flag = 0 \/ s.B[1] > 64) /\ e.ret # 0 THEN {"HalfRateAccepted"} ELSE {}) \cup
  (IF s.nh = 3 /\ e.hsp # (IF e.ret = 0 THEN (IF e.flag # 0 THEN 1 ELSE 0) ELSE s.hs) /\ ~s.hsdirty THEN {"HalfRateFlagTakesEffect"} ELSE {})
NxtHalfRate(s, e) == IF s.inited /\ e.ret = 0 /\ e.hsp # s.hs THEN [s EXCEPT !.hsdirty = TRUE, !.chunkclean = FALSE, !.prevclean = FALSE, !.pure = FALSE, !.hs = e.hsp]
                     ELSE IF ~s.inited /\ e.ret = 0 THEN [s EXCEPT !.hs = e.hsp] ELSE s

ChkSynthInit(s, e) ==
  (IF e.ret \notin {0, 1, -1} THEN {"SynthesisInitReturnsDocumentedCode"} ELSE {}) \cup
  (IF s.nh = 3 /\ e.ret # 0 THEN {"InitSucceedsAfterHeaders"} ELSE {}) \cup
  (IF s.nh < 3 /\ e.ret = 0 THEN {"InitNeedsAllHeaders"} ELSE {}) \cup
  (IF s.nh = 3 /\ e.ret = 0 /\ ~StateMatches(DecRestart(s.B, e.hsp), e) THEN {"FreshDecoderHoldsNothing"} ELSE {}) \cup
  \* an initialisation that was refused (the codebooks of the set-up cannot be built) is refused again as long as no header has been submitted since
  (IF s.initfailed /\ e.ret = 0 THEN {"RefusedInitStaysRefused"} ELSE {})
NxtSynthInit(s, e) == IF e.ret # 0 THEN [s EXCEPT !.initfailed = TRUE] ELSE [s EXCEPT !.inited = TRUE, !.hs = e.hsp, !.hsdirty = FALSE, !.m = Observed(e, e.hsp), !.mm = DecRestart(s.B, e.hsp), !.pure = (s.nh = 3),
                                                     !.prev = -1, !.prevclean = FALSE, !.lastk = -1, !.chunkclean = FALSE, !.gpforced = FALSE, !.resync = FALSE, !.cntok = FALSE, !.solid = FALSE]

(* ---- audio packets ---- *)
\* e.trk = TRUE for vorbis_synthesis_trackonly
ChkSynthesis(s, e, trk) ==
  LET ok == s.nh = 3 /\ ~s.hsdirty
      m1 == DecBlockin(s.B, s.m, e.W, e.no, e.gp, e.eos = 1, ~trk)
  IN (IF e.rs \notin SynthCodes THEN {"SynthesisReturnsDocumentedCode"} ELSE {}) \cup
     (IF e.rs = 0 /\ e.rb \notin {0, OV_EINVALc} THEN {"BlockinReturnsDocumentedCode"} ELSE {}) \cup
     (IF ok /\ e.mut = 0 /\ e.rs # 0 THEN {"ValidPacketDecodes"} ELSE {}) \cup
     (IF ok /\ e.rs = 0 /\ (e.rb = 0) # DecBlockinAllowed(s.m) THEN {"BlockinRefusedUntilRead"} ELSE {}) \cup
     (IF ok /\ e.rs = 0 /\ e.rb = 0 /\ e.W \in {0, 1} /\ e.avail # DecAvail(m1) THEN {"SamplesPerPacket"} ELSE {}) \cup
     (IF ok /\ s.pure /\ e.rs = 0 /\ e.rb = 0 /\ e.W \in {0, 1} /\ DecBlockinAllowed(s.mm) /\ e.avail # DecAvail(DecBlockin(s.B, s.mm, e.W, e.no, e.gp, e.eos = 1, ~trk)) THEN {"SamplesPerPacket"} ELSE {}) \cup
     (IF e.rs = 0 /\ e.rb = 0 /\ ~StoreOK(ActualB(s, e), Observed(e, e.hsp)) THEN {"BufferInsideRing"} ELSE {}) \cup
     (IF e.rs = 0 /\ e.rb = 0 /\ e.avail < 0 THEN {"PendingNeverNegative"} ELSE {}) \cup
     \* packets written by the model codeword by codeword: the decoder consumes exactly the bits the model wrote (it parsed the same codewords)
     (IF ok /\ e.mut = 0 /\ e.rs = 0 /\ "xused" \in DOMAIN e /\ e.xused >= 0 /\ e.used # e.xused THEN {"PacketBitsConsumed"} ELSE {}) \cup
     \* the integer domain of the floor: posts after unwrapping and the dB-table index at every bin, as computed by Floor1.tla for this packet
     (IF ok /\ e.mut = 0 /\ e.rs = 0 /\ "xfit" \in DOMAIN e /\ e.fit # e.xfit THEN {"FloorPostsAsSpecified"} ELSE {}) \cup
     (IF ok /\ e.mut = 0 /\ e.rs = 0 /\ "xyc" \in DOMAIN e /\ e.yc # e.xyc THEN {"FloorCurveAsSpecified"} ELSE {}) \cup
     (IF ok /\ e.mut = 0 /\ e.rs = 0 /\ "xrv" \in DOMAIN e /\ e.rv # e.xrv THEN {"ResidueAsSpecified"} ELSE {}) \cup
     (IF ok /\ e.mut = 0 /\ e.rs = 0 /\ "xcv" \in DOMAIN e /\ e.cv # e.xcv THEN {"CouplingAsSpecified"} ELSE {}) \cup
     (IF ok /\ e.mut = 0 /\ e.rs = 0 /\ "xpv" \in DOMAIN e /\ e.pv # e.xpv THEN {"FloorProductAsSpecified"} ELSE {})
DriftSynthesis(s, e, trk) ==
  IF s.nh = 3 /\ ~s.hsdirty /\ e.rs = 0 /\ e.rb = 0 /\ e.W \in {0, 1} /\ ~StateMatches(DecBlockin(s.B, s.m, e.W, e.no, e.gp, e.eos = 1, ~trk), e)
  THEN {"DecoderStateDiffersFromTranscription"} ELSE {}
NxtSynthesis(s, e, trk) ==
  IF e.rs = 0 /\ e.rb = 0
  THEN LET mm1 == IF s.pure /\ e.W \in {0, 1} /\ DecBlockinAllowed(s.mm) THEN DecBlockin(s.B, s.mm, e.W, e.no, e.gp, e.eos = 1, ~trk) ELSE s.mm
           p1  == s.pure /\ e.W \in {0, 1} /\ DecBlockinAllowed(s.mm) IN
       IF trk THEN [s EXCEPT !.m = Observed(e, s.hs), !.mm = mm1, !.pure = p1, !.prev = -1, !.prevclean = FALSE, !.chunkclean = FALSE, !.lastk = -1, !.resync = FALSE, !.cntok = FALSE,
                             !.gpforced = (s.gpforced \/ e.gpf = 1)]    \* no audio was decoded: the overlap is stale
       ELSE [s EXCEPT !.m = Observed(e, s.hs), !.mm = mm1, !.pure = p1, !.gpforced = (s.gpforced \/ e.gpf = 1),
                      !.cntok = s.resync, !.solid = FALSE,
                      !.resync = (s.prev = e.k - 1 /\ s.prev >= 0 /\ s.prevclean /\ e.mut = 0 /\ ~s.hsdirty /\ e.W = e.cW /\ (s.resync \/ (e.gp # -1 /\ e.eos = 0))),
                      !.chunkclean = (s.prev = e.k - 1 /\ s.prev >= 0 /\ s.prevclean /\ e.mut = 0 /\ ~s.hsdirty /\ e.W = e.cW),
                      !.lastk = e.k, !.prev = e.k, !.prevclean = (e.mut = 0 /\ ~s.hsdirty /\ e.W = e.cW)]
  ELSE [s EXCEPT !.m = IF s.inited THEN Observed(e, s.hs) ELSE s.m, !.resync = FALSE]      \* a rejected packet leaves the overlap of its predecessor in place

ChkPcmOut(s, e) ==
  (IF s.nh = 3 /\ e.n # DecAvail(s.m) THEN {"PcmOutReportsPending"} ELSE {}) \cup
  (IF e.n < 0 THEN {"PendingNeverNegative"} ELSE {}) \cup
  \* C11: samples that are the overlap of two undamaged neighbours equal the undisturbed decode wherever both exist
  (IF s.nh = 3 /\ e.n > 0 /\ s.chunkclean /\ e.k = s.lastk /\ e.cmp = 3 THEN {"Locality"} ELSE {}) \cup
  \* ... and, with honest granule positions, they are not fewer than in the undisturbed decode (more only when the end trim was forgotten)
  (IF s.nh = 3 /\ s.chunkclean /\ ~s.gpforced /\ e.k = s.lastk /\ e.cn >= 0 /\ e.n < e.cn THEN {"LocalityCount"} ELSE {}) \cup
  \* ... and not more either once the decoder could re-synchronise its count at a page end after the disturbance (the end trim of the stream then works again)
  (IF s.nh = 3 /\ s.chunkclean /\ ~s.gpforced /\ s.cntok /\ e.k = s.lastk /\ e.cn >= 0 /\ e.n > e.cn THEN {"LocalityCount"} ELSE {})

ChkRead(s, e) ==
  (IF e.ret \notin {0, OV_EINVALc} THEN {"ReadReturnsDocumentedCode"} ELSE {}) \cup
  (IF s.nh = 3 /\ (e.ret = 0) # (e.n = 0 \/ (s.m.ret >= 0 /\ s.m.ret + e.n <= s.m.cur)) THEN {"ReadRefusesMoreThanPending"} ELSE {}) \cup
  (IF s.nh = 3 /\ e.ret = 0 /\ ~StateMatches(DecRead(s.m, e.n), e) THEN {"ReadAdvancesByCount"} ELSE {})
NxtObs(s, e) == [s EXCEPT !.m = IF s.inited THEN Observed(e, s.hs) ELSE s.m]
NxtRead(s, e) == [s EXCEPT !.m = IF s.inited THEN Observed(e, s.hs) ELSE s.m,
                          !.mm = IF s.pure /\ e.ret = 0 /\ (e.n = 0 \/ (s.mm.ret >= 0 /\ s.mm.ret + e.n <= s.mm.cur)) THEN DecRead(s.mm, e.n) ELSE s.mm,
                          !.pure = (s.pure /\ (e.ret # 0 \/ e.n = 0 \/ (s.mm.ret >= 0 /\ s.mm.ret + e.n <= s.mm.cur)))]
\* operations the model does not transcribe (lapout moves the buffer): fall back to the observation
NxtUnmodelled(s, e) == [s EXCEPT !.m = IF s.inited THEN Observed(e, s.hs) ELSE s.m, !.mm = IF s.inited THEN Observed(e, s.hs) ELSE s.mm]

ChkRestart(s, e) ==
  (IF e.ret # 0 THEN {"RestartSucceeds"} ELSE {}) \cup
  (IF e.avail # 0 THEN {"RestartDropsPending"} ELSE {})
NxtRestart(s, e) == [s EXCEPT !.m = Observed(e, e.hsp), !.mm = [DecRestart(s.B, e.hsp) EXCEPT !.lW = e.dlW, !.W = e.dW], !.pure = (s.nh = 3), !.hs = e.hsp, !.hsdirty = FALSE,
                             !.prev = -1, !.prevclean = FALSE, !.chunkclean = FALSE, !.lastk = -1, !.gpforced = FALSE, !.resync = FALSE, !.cntok = FALSE, !.solid = FALSE]

\* lapout as transcribed in Block.tla (DecLapout: swap of the halves, the move by block-size pair, the once-per-block flag `solid`): count and buffer
\* indices after the call, for blocks that were decoded at the rate the decoder was set up for
DriftLapOut(s, e) ==
  IF s.nh = 3 /\ ~s.hsdirty /\ s.inited /\ s.lastk # -1
  THEN LET r == DecLapout(s.B, s.m, s.solid) IN IF r.n = e.n /\ StateMatches(r.d, e) THEN {} ELSE {"LapOutDiffersFromTranscription"}
  ELSE {}
NxtLapOut(s, e) == [s EXCEPT !.m = IF s.inited THEN Observed(e, s.hs) ELSE s.m, !.mm = IF s.inited THEN Observed(e, s.hs) ELSE s.mm, !.solid = (s.inited /\ s.m.ret >= 0)]
ChkLapOut(s, e) ==
  \* (after a half-rate toggle on a running decoder the buffer bookkeeping and the flag disagree until the next restart: the count is
  \*  then meaningless, possibly negative, which the caller sees as a failure; only indices inside the buffer are demanded)
  \* (after a track-only block - lastk = -1 - lW / W no longer describe what the buffer holds and lapout consolidates by the wrong rule: its count can be
  \*  negative then, see PktDec_MC.LapoutOK; demanded for blocks that were decoded)
  (IF e.n < 0 /\ ~s.hsdirty /\ s.lastk # -1 THEN {"LapOutNonNegative"} ELSE {}) \cup
  (IF ~StoreOK(ActualB(s, e), Observed(e, e.hsp)) THEN {"BufferInsideRing"} ELSE {})
=============================================================================

SPECIFICATION Spec
INVARIANT AllSane
INVARIANT Spot
CHECK_DEADLOCK FALSE
